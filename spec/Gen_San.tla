------------------------------- MODULE Gen_San -------------------------------
(***************************************************************************)
(* C18 direction B: positions in which SAN is hard.                        *)
(*   "like"    2 or 3 white pieces of one kind (N B R Q) that all attack   *)
(*             one target square (empty or holding a black pawn), from     *)
(*             every combination of squares: shared file, shared rank,     *)
(*             neither, both; optionally a black rook that pins pieces on  *)
(*             the king's file and so removes an ambiguity                 *)
(*   "pawncap" pawn captures with another capturer standing on the pawn's  *)
(*             file, and two pawns capturing on one square                 *)
(*   "promo"   quiet and capturing promotions, with and without check      *)
(*   "castle"  castling that gives check or mate                           *)
(* Every position is printed for White to move and mirrored for Black.     *)
(***************************************************************************)
EXTENDS Chess, Json, Reporting

CONSTANTS FAMILY, SHARD, NSHARDS, DENSITY

Distinct(pl) == Cardinality({pl[i][1] : i \in 1..Len(pl)}) = Len(pl)
BoardOf(pl) == [i \in 1..64 |->
                  LET hits == {j \in 1..Len(pl) : pl[j][1] = i - 1}
                  IN  IF hits = {} THEN 0 ELSE pl[CHOOSE j \in hits : TRUE][2]]
Mask(cs) == (IF 0 \in cs THEN 1 ELSE 0) + (IF 1 \in cs THEN 2 ELSE 0)
            + (IF 2 \in cs THEN 4 ELSE 0) + (IF 3 \in cs THEN 8 ELSE 0)
EmitOne(p, tag) ==
    PrintT("@@GEN " \o ToJson([fam |-> tag, b |-> [i \in 1..64 |-> p.board[i]], stm |-> p.stm,
                               cr |-> Mask(p.castle), ep |-> p.ep, hmc |-> 0, pl |-> p.stm]))
Emit(pl, castle, tag) ==
    IF ~Distinct(pl) THEN TRUE
    ELSE LET p == [board |-> BoardOf(pl), stm |-> 0, castle |-> castle, ep |-> -1, hmc |-> 0, plies |-> 0]
         IN  IF LegalPosition(p) THEN EmitOne(p, tag) /\ EmitOne(Mirror(p), tag) ELSE TRUE

W(k) == PieceOf(0, k)
Bl(k) == PieceOf(1, k)
Keep(a, b) == DENSITY = 1 \/ (a * 7 + b * 13) % DENSITY = 0
InShard(x) == x % NSHARDS = SHARD

From(kind, t) ==
    CASE kind = Knight -> KnightAttacks(t)
      [] kind = Bishop -> BishopAttacks(t, {})
      [] kind = Rook -> RookAttacks(t, {})
      [] kind = Queen -> QueenAttacks(t, {})

\* king placements: far corner pairs, and the pinning set-up (king e1, black rook e8)
Kings == << << <<7, W(King)>>, <<56, Bl(King)>> >>,
            << <<0, W(King)>>, <<63, Bl(King)>> >>,
            << <<4, W(King)>>, <<60, Bl(Rook)>>, <<63, Bl(King)>> >> >>

FamLike ==
    \A t \in {27, 35, 9, 0, 62} : \A kind \in {Knight, Bishop, Rook, Queen} :
      \A occ \in {0, 1} :
        LET tgt == IF occ = 1 THEN << <<t, Bl(Pawn)>> >> ELSE <<>>
            fr  == From(kind, t)
        IN  \A a \in {s \in fr : InShard(s)} : \A b \in {s \in fr : s > a \/ ~InShard(s)} :
              \A ki \in 1..Len(Kings) :
                /\ (a # b => Emit(<< <<a, W(kind)>>, <<b, W(kind)>> >> \o tgt \o Kings[ki], {}, "like2"))
                /\ \A c \in {s \in fr : s > b /\ Keep(a + b, s)} :
                     (a # b /\ kind # Bishop) =>
                        Emit(<< <<a, W(kind)>>, <<b, W(kind)>>, <<c, W(kind)>> >> \o tgt \o Kings[ki], {}, "like3")

FamPawnCap ==
    \A t \in {s \in Sq : RankOf(s) \in 2..6 /\ InShard(s)} :
      \A vk \in {Pawn, Knight, Rook} :
        \A side \in {-1, 1} :
          LET ps == t - 8 + side IN
          IF FileOf(t) + side \notin 0..7 THEN TRUE
          ELSE \A ok \in {Knight, Bishop, Rook, Queen} :
                 \A os \in {s \in From(ok, t) : FileOf(s) = FileOf(ps) \/ Keep(t, s)} :
                   \A two \in {0, 1} :
                     LET other == IF two = 1 /\ FileOf(t) - side \in 0..7
                                  THEN << <<t - 8 - side, W(Pawn)>> >> ELSE <<>>
                     IN  Emit(<< <<ps, W(Pawn)>>, <<t, Bl(vk)>>, <<os, W(ok)>>, <<7, W(King)>>, <<56, Bl(King)>> >>
                              \o other, {}, "pawncap")

FamPromo ==
    \A f \in {x \in 0..7 : InShard(x)} :
      \A l \in {0, Knight, Rook} : \A r \in {0, Bishop, Queen} : \A front \in {0, 1} :
        \A bk \in {s \in Sq : RankOf(s) \in {7, 6, 5} /\ Keep(s, f)} :
          \A second \in {0, 1} :
            LET pl == << <<SqOf(f, 6), W(Pawn)>>, <<bk, Bl(King)>>, <<0, W(King)>> >>
                      \o (IF l # 0 /\ f > 0 THEN << <<SqOf(f - 1, 7), Bl(l)>> >> ELSE <<>>)
                      \o (IF r # 0 /\ f < 7 THEN << <<SqOf(f + 1, 7), Bl(r)>> >> ELSE <<>>)
                      \o (IF front = 1 THEN << <<SqOf(f, 7), Bl(Knight)>> >> ELSE <<>>)
                      \o (IF second = 1 /\ f < 6 THEN << <<SqOf(f + 2, 6), W(Pawn)>> >> ELSE <<>>)
            IN  Emit(pl, {}, "promo")

FamCastle ==
    \A bk \in {s \in Sq : InShard(s)} :
      \A rights \in {{0}, {1}, {0, 1}} :
        \A extra \in {<<>>, << <<SqOf(FileOf(bk), 6), Bl(Pawn)>> >>,
                      << <<52, W(Rook)>> >>, << <<51, W(Queen)>> >>, << <<53, W(Queen)>>, <<11, W(Pawn)>> >>} :
          Emit(<< <<4, W(King)>>, <<0, W(Rook)>>, <<7, W(Rook)>>, <<bk, Bl(King)>> >> \o extra, rights, "castle")

Run ==
    CASE FAMILY = "like" -> FamLike
      [] FAMILY = "pawncap" -> FamPawnCap
      [] FAMILY = "promo" -> FamPromo
      [] FAMILY = "castle" -> FamCastle
ASSUME Run
VARIABLE x
Init == x = 0
Next == x' = x
=============================================================================
