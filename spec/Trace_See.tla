------------------------------- MODULE Trace_See -------------------------------
(***************************************************************************)
(* C20: recorded verdicts of the exchange evaluator at threshold zero for  *)
(* every non-en-passant capture of every recorded position, and for the    *)
(* colour-mirrored position (the mirror itself is validated here against   *)
(* Chess!Mirror before its verdicts are used).                             *)
(***************************************************************************)
EXTENDS See, Json, IOUtils, Reporting

Rec == ndJsonDeserialize(IOEnv.TRACE)
N == Len(Rec)
CastleSet(n) == {r \in 0..3 : (n \div (2 ^ r)) % 2 = 1}
EvPos(e) == [board |-> [i \in 1..64 |-> e.b[i]], stm |-> e.stm, castle |-> CastleSet(e.cr),
             ep |-> e.ep, hmc |-> e.hmc, plies |-> e.pl]

Clauses(i) ==
    LET e  == Rec[i]
        p  == EvPos(e)
        mp == Mirror(p)
    IN  /\ ViolAt([k \in 1..64 |-> e.mb[k]] = mp.board /\ e.mstm = mp.stm, "TRACE", i, "mirror-wrong", [fen |-> e.fen])
        /\ \A j \in 1..Len(e.caps) :
              LET x == e.caps[j]
                  m == UnpackMove(x.mv)
                  vs == SeeVerdicts(p, m)
              IN  /\ ViolAt(IOEnv.SEE_FULL # "1" \/ SeeValuesFull(p, m) = SeeValues(p, m), "ORACLE", i, "picks-reduction-changes-the-value-set",
                            [fen |-> e.fen, mv |-> UciOf(m), full |-> SeeValuesFull(p, m), reduced |-> SeeValues(p, m)])
                  /\ ViolAt(x.see # "panic" /\ x.msee # "panic", "C20", i, "panic", [fen |-> e.fen, mv |-> UciOf(m)])
                  /\ ViolAt(x.see = x.msee, "C20", i, "colour-asymmetry", [fen |-> e.fen, mv |-> UciOf(m)])
                  /\ ViolAt(Undefended(p, m) => x.see = "t", "C20", i, "undefended", [fen |-> e.fen, mv |-> UciOf(m)])
                  /\ ViolAt(CapturedAtLeastCapturer(p, m) => x.see = "t", "C20", i, "captured>=capturer",
                            [fen |-> e.fen, mv |-> UciOf(m)])
                  /\ ViolAt((x.see = "t") \in vs \/ x.see = "panic", "C20", i, "swap-list",
                            [fen |-> e.fen, mv |-> UciOf(m), engine |-> x.see, spec |-> vs])

Singletons == Cardinality({<<i, j>> \in UNION {{<<i, j>> : j \in 1..Len(Rec[i].caps)} : i \in 1..N} :
                 Cardinality(SeeVerdicts(EvPos(Rec[i]), UnpackMove(Rec[i].caps[j].mv))) = 1})

ASSUME \A i \in 1..N : Clauses(i)
ASSUME Stat("see", [positions |-> N, singletons |-> Singletons])
VARIABLE x
Init == x = 0
Next == x' = x
=============================================================================
