\* clearing moved into the callee after the early draw return: expected to violate PVIsPath
CONSTANTS ClearInParent = FALSE MaxDepth = 2 MaxStop = 0 defaultInitValue = 0
CONSTANT Values <- MCValues
CONSTANT InnerValues <- MCInner0
SPECIFICATION Spec
INVARIANTS PVIsPath
CHECK_DEADLOCK FALSE
