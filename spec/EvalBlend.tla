------------------------------- MODULE EvalBlend -------------------------------
(***************************************************************************)
(* The tapered blend of a (midgame, endgame) pair and the packing of the   *)
(* two 16-bit halves into one 32-bit number (C16).                         *)
(*   PropertyView  the blend lies between the two assessments, i.e. both   *)
(*                 weights are non-negative                                *)
(*   CodeView      trunc((mg * min(ph, 24) + eg * EgWeight(ph)) / 24) with *)
(*                 EgWeight(ph) = 24 - ph as found (Clamped = FALSE) or    *)
(*                 24 - min(ph, 24) as repaired (Clamped = TRUE)           *)
(***************************************************************************)
EXTENDS Integers

CONSTANT Clamped

Min2(a, b) == IF a <= b THEN a ELSE b
Max2(a, b) == IF a >= b THEN a ELSE b
\* Rust integer division truncates towards zero; TLA+ \div floors.
TruncDiv(a, b) == IF a >= 0 THEN a \div b ELSE -((-a) \div b)

MgWeight(ph) == Min2(ph, 24)
EgWeight(ph) == IF Clamped THEN 24 - Min2(ph, 24) ELSE 24 - ph
BlendCV(mg, eg, ph) == TruncDiv(mg * MgWeight(ph) + eg * EgWeight(ph), 24)
BlendPV(mg, eg, v) == Min2(mg, eg) <= v /\ v <= Max2(mg, eg)

\* packed representation: endgame in the high half, midgame in the low half (two's complement)
Pack(mg, eg) == eg * 65536 + mg
Low16(x) == LET m == x % 65536 IN IF m >= 32768 THEN m - 65536 ELSE m
UnpackMg(x) == Low16(x)
UnpackEg(x) == (x + 32768 - ((x + 32768) % 65536)) \div 65536      \* (x + 0x8000) >> 16
\* adding packed numbers adds the halves as long as no half leaves the 16-bit range
CarryFree(mg1, eg1, mg2, eg2) ==
    LET s == Pack(mg1, eg1) + Pack(mg2, eg2)
    IN  UnpackMg(s) = mg1 + mg2 /\ UnpackEg(s) = eg1 + eg2
=============================================================================
