------------------------------- MODULE Negamax -------------------------------
(***************************************************************************)
(* Growth item (DESIGN.md 10.1): the tree search itself, abstractly.       *)
(* Principal-variation search with fail-soft alpha-beta over a finite game *)
(* tree, iterative deepening at the root, one line buffer per ply exactly  *)
(* as in engine/search/negamax.rs (the callee writes its line into the     *)
(* caller's node buffer; the caller clears that buffer before every child; *)
(* a raised alpha copies move + child line into the caller's own output    *)
(* buffer), nodes that are recognised as draws on entry and return without *)
(* touching any buffer, and a poll at every node entry that may observe    *)
(* the stop request at any index (C09's quantifier).                       *)
(*                                                                         *)
(* Written in PlusCal (recursion = procedure); the translation below is    *)
(* what TLC checks.  ClearInParent = TRUE is the code as written; FALSE    *)
(* moves the clearing of the child buffer into the callee AFTER the early  *)
(* draw return (a plausible refactoring) and must violate PVIsPath.        *)
(***************************************************************************)
EXTENDS Integers, Sequences, FiniteSets, TLC

CONSTANTS ClearInParent, MaxDepth, Values, InnerValues, MaxStop

Inf == 1000
Mate == 100

\* A fixed shape: root 1 -> 2, 3, 4;  2 -> 5, 6;  3 -> 7, 8;  4 -> 9;  5..9 leaves; 9 -> (terminal: mated)
Nodes == 1..9
Kids == [n \in Nodes |-> CASE n = 1 -> <<2, 3, 4>> [] n = 2 -> <<5, 6>> [] n = 3 -> <<7, 8>>
                           [] n = 4 -> <<9>> [] OTHER -> <<>>]
Leaves == {5, 6, 7, 8}
Inner == {2, 3, 4}

\* value of node n for the side to move at n; terminal node 9 has no moves (mated)
Trees == {[val |-> v, draw |-> d] :
             v \in {f \in [Nodes -> Values \cup InnerValues] :
                        /\ \A n \in Leaves : f[n] \in Values
                        /\ \A n \in Inner : f[n] \in InnerValues
                        /\ f[1] = 0 /\ f[9] = 0},
             d \in {g \in [Nodes -> BOOLEAN] : g[1] = FALSE /\ Cardinality({n \in Nodes : g[n]}) <= 1}}

\* reference: plain negamax to depth d with the same draw / terminal conventions
RECURSIVE NM(_, _, _, _)
NM(t, n, d, ply) ==
    IF ply > 0 /\ t.draw[n] THEN 0
    ELSE IF d = 0 THEN t.val[n]
    ELSE IF Kids[n] = <<>> THEN -Mate + ply
    ELSE LET vs == {-NM(t, Kids[n][i], d - 1, ply + 1) : i \in 1..Len(Kids[n])}
         IN  CHOOSE x \in vs : \A y \in vs : y <= x

IsPath(n, line) ==
    \A i \in 1..Len(line) :
        LET from == IF i = 1 THEN n ELSE line[i - 1]
        IN  \E j \in 1..Len(Kids[from]) : Kids[from][j] = line[i]

(* --algorithm Negamax {
variables tree \in Trees,
          stopAt \in 0..MaxStop,        \* the poll index at which the stop request is first seen (0: never)
          polls = 0,
          err = FALSE,                  \* a poll observed the stop: Err propagates to the root
          entered = 0,                  \* nodes entered after the stop was observed (must stay 0)
          ret = 0,
          buf = [p \in 0..4 |-> <<>>],  \* buf[0] is the root line; buf[p+1] the node buffer of the frame at ply p
          iter = 0,                     \* iteration in progress
          completed = 0,                \* last completed iteration
          lastLine = <<>>,              \* root line after the last completed iteration
          lastVal = 0,
          scored = {},                  \* root moves completely searched in the iteration in progress
          done = FALSE;

procedure search(n, a, b, d, ply)
  variables i = 1, best = -Inf, v = 0, alpha = 0;
{
 enter:
   if (err) { entered := entered + 1; };
   polls := polls + 1;
   if (stopAt > 0 /\ polls >= stopAt) { err := TRUE; return; };
 early:
   if (ply > 0 /\ tree.draw[n]) { ret := 0; return; }
   else if (d = 0) { ret := tree.val[n]; return; };
 callee_clear:
   alpha := a;
   if (~ClearInParent) { buf[ply] := <<>>; };
 loop:
   while (i <= Len(Kids[n])) {
      if (ClearInParent) { buf[ply + 1] := <<>>; };
      if (i = 1) { call search(Kids[n][i], -b, -alpha, d - 1, ply + 1); }
      else       { call search(Kids[n][i], -alpha - 1, -alpha, d - 1, ply + 1); };
    r1:
      if (err) { return; };
    r1b:
      v := -ret;
    research:
      if (i > 1 /\ v > alpha /\ v < b) {
         call search(Kids[n][i], -b, -alpha, d - 1, ply + 1);
       r2:
         if (err) { return; };
       r2b:
         v := -ret;
      };
    upd:
      if (ply = 0) { scored := scored \cup {Kids[n][i]}; };
      if (v > best) { best := v; };
      if (v >= b) { i := Len(Kids[n]) + 1; }
      else {
         if (v > alpha) { alpha := v; buf[ply] := <<Kids[n][i]>> \o buf[ply + 1]; };
         i := i + 1;
      };
   };
 fin:
   if (Kids[n] = <<>>) { ret := -Mate + ply; } else { ret := best; };
   return;
}

{
 main:
   while (iter < MaxDepth /\ ~err) {
      iter := iter + 1;
      scored := {};
      call search(1, -Inf, Inf, iter, 0);
    after:
      if (~err) { completed := iter; lastLine := buf[0]; lastVal := ret; };
   };
 finish:
   done := TRUE;
}
} *)
\* BEGIN TRANSLATION
CONSTANT defaultInitValue
VARIABLES pc, tree, stopAt, polls, err, entered, ret, buf, iter, completed, 
          lastLine, lastVal, scored, done, stack, n, a, b, d, ply, i, best, v, 
          alpha

vars == << pc, tree, stopAt, polls, err, entered, ret, buf, iter, completed, 
           lastLine, lastVal, scored, done, stack, n, a, b, d, ply, i, best, 
           v, alpha >>

Init == (* Global variables *)
        /\ tree \in Trees
        /\ stopAt \in 0..MaxStop
        /\ polls = 0
        /\ err = FALSE
        /\ entered = 0
        /\ ret = 0
        /\ buf = [p \in 0..4 |-> <<>>]
        /\ iter = 0
        /\ completed = 0
        /\ lastLine = <<>>
        /\ lastVal = 0
        /\ scored = {}
        /\ done = FALSE
        (* Procedure search *)
        /\ n = defaultInitValue
        /\ a = defaultInitValue
        /\ b = defaultInitValue
        /\ d = defaultInitValue
        /\ ply = defaultInitValue
        /\ i = 1
        /\ best = -Inf
        /\ v = 0
        /\ alpha = 0
        /\ stack = << >>
        /\ pc = "main"

enter == /\ pc = "enter"
         /\ IF err
               THEN /\ entered' = entered + 1
               ELSE /\ TRUE
                    /\ UNCHANGED entered
         /\ polls' = polls + 1
         /\ IF stopAt > 0 /\ polls' >= stopAt
               THEN /\ err' = TRUE
                    /\ pc' = Head(stack).pc
                    /\ i' = Head(stack).i
                    /\ best' = Head(stack).best
                    /\ v' = Head(stack).v
                    /\ alpha' = Head(stack).alpha
                    /\ n' = Head(stack).n
                    /\ a' = Head(stack).a
                    /\ b' = Head(stack).b
                    /\ d' = Head(stack).d
                    /\ ply' = Head(stack).ply
                    /\ stack' = Tail(stack)
               ELSE /\ pc' = "early"
                    /\ UNCHANGED << err, stack, n, a, b, d, ply, i, best, v, 
                                    alpha >>
         /\ UNCHANGED << tree, stopAt, ret, buf, iter, completed, lastLine, 
                         lastVal, scored, done >>

early == /\ pc = "early"
         /\ IF ply > 0 /\ tree.draw[n]
               THEN /\ ret' = 0
                    /\ pc' = Head(stack).pc
                    /\ i' = Head(stack).i
                    /\ best' = Head(stack).best
                    /\ v' = Head(stack).v
                    /\ alpha' = Head(stack).alpha
                    /\ n' = Head(stack).n
                    /\ a' = Head(stack).a
                    /\ b' = Head(stack).b
                    /\ d' = Head(stack).d
                    /\ ply' = Head(stack).ply
                    /\ stack' = Tail(stack)
               ELSE /\ IF d = 0
                          THEN /\ ret' = tree.val[n]
                               /\ pc' = Head(stack).pc
                               /\ i' = Head(stack).i
                               /\ best' = Head(stack).best
                               /\ v' = Head(stack).v
                               /\ alpha' = Head(stack).alpha
                               /\ n' = Head(stack).n
                               /\ a' = Head(stack).a
                               /\ b' = Head(stack).b
                               /\ d' = Head(stack).d
                               /\ ply' = Head(stack).ply
                               /\ stack' = Tail(stack)
                          ELSE /\ pc' = "callee_clear"
                               /\ UNCHANGED << ret, stack, n, a, b, d, ply, i, 
                                               best, v, alpha >>
         /\ UNCHANGED << tree, stopAt, polls, err, entered, buf, iter, 
                         completed, lastLine, lastVal, scored, done >>

callee_clear == /\ pc = "callee_clear"
                /\ alpha' = a
                /\ IF ~ClearInParent
                      THEN /\ buf' = [buf EXCEPT ![ply] = <<>>]
                      ELSE /\ TRUE
                           /\ buf' = buf
                /\ pc' = "loop"
                /\ UNCHANGED << tree, stopAt, polls, err, entered, ret, iter, 
                                completed, lastLine, lastVal, scored, done, 
                                stack, n, a, b, d, ply, i, best, v >>

loop == /\ pc = "loop"
        /\ IF i <= Len(Kids[n])
              THEN /\ IF ClearInParent
                         THEN /\ buf' = [buf EXCEPT ![ply + 1] = <<>>]
                         ELSE /\ TRUE
                              /\ buf' = buf
                   /\ IF i = 1
                         THEN /\ /\ a' = -b
                                 /\ b' = -alpha
                                 /\ d' = d - 1
                                 /\ n' = Kids[n][i]
                                 /\ ply' = ply + 1
                                 /\ stack' = << [ procedure |->  "search",
                                                  pc        |->  "r1",
                                                  i         |->  i,
                                                  best      |->  best,
                                                  v         |->  v,
                                                  alpha     |->  alpha,
                                                  n         |->  n,
                                                  a         |->  a,
                                                  b         |->  b,
                                                  d         |->  d,
                                                  ply       |->  ply ] >>
                                              \o stack
                              /\ i' = 1
                              /\ best' = -Inf
                              /\ v' = 0
                              /\ alpha' = 0
                              /\ pc' = "enter"
                         ELSE /\ /\ a' = -alpha - 1
                                 /\ b' = -alpha
                                 /\ d' = d - 1
                                 /\ n' = Kids[n][i]
                                 /\ ply' = ply + 1
                                 /\ stack' = << [ procedure |->  "search",
                                                  pc        |->  "r1",
                                                  i         |->  i,
                                                  best      |->  best,
                                                  v         |->  v,
                                                  alpha     |->  alpha,
                                                  n         |->  n,
                                                  a         |->  a,
                                                  b         |->  b,
                                                  d         |->  d,
                                                  ply       |->  ply ] >>
                                              \o stack
                              /\ i' = 1
                              /\ best' = -Inf
                              /\ v' = 0
                              /\ alpha' = 0
                              /\ pc' = "enter"
              ELSE /\ pc' = "fin"
                   /\ UNCHANGED << buf, stack, n, a, b, d, ply, i, best, v, 
                                   alpha >>
        /\ UNCHANGED << tree, stopAt, polls, err, entered, ret, iter, 
                        completed, lastLine, lastVal, scored, done >>

r1 == /\ pc = "r1"
      /\ IF err
            THEN /\ pc' = Head(stack).pc
                 /\ i' = Head(stack).i
                 /\ best' = Head(stack).best
                 /\ v' = Head(stack).v
                 /\ alpha' = Head(stack).alpha
                 /\ n' = Head(stack).n
                 /\ a' = Head(stack).a
                 /\ b' = Head(stack).b
                 /\ d' = Head(stack).d
                 /\ ply' = Head(stack).ply
                 /\ stack' = Tail(stack)
            ELSE /\ pc' = "r1b"
                 /\ UNCHANGED << stack, n, a, b, d, ply, i, best, v, alpha >>
      /\ UNCHANGED << tree, stopAt, polls, err, entered, ret, buf, iter, 
                      completed, lastLine, lastVal, scored, done >>

r1b == /\ pc = "r1b"
       /\ v' = -ret
       /\ pc' = "research"
       /\ UNCHANGED << tree, stopAt, polls, err, entered, ret, buf, iter, 
                       completed, lastLine, lastVal, scored, done, stack, n, a, 
                       b, d, ply, i, best, alpha >>

research == /\ pc = "research"
            /\ IF i > 1 /\ v > alpha /\ v < b
                  THEN /\ /\ a' = -b
                          /\ b' = -alpha
                          /\ d' = d - 1
                          /\ n' = Kids[n][i]
                          /\ ply' = ply + 1
                          /\ stack' = << [ procedure |->  "search",
                                           pc        |->  "r2",
                                           i         |->  i,
                                           best      |->  best,
                                           v         |->  v,
                                           alpha     |->  alpha,
                                           n         |->  n,
                                           a         |->  a,
                                           b         |->  b,
                                           d         |->  d,
                                           ply       |->  ply ] >>
                                       \o stack
                       /\ i' = 1
                       /\ best' = -Inf
                       /\ v' = 0
                       /\ alpha' = 0
                       /\ pc' = "enter"
                  ELSE /\ pc' = "upd"
                       /\ UNCHANGED << stack, n, a, b, d, ply, i, best, v, 
                                       alpha >>
            /\ UNCHANGED << tree, stopAt, polls, err, entered, ret, buf, iter, 
                            completed, lastLine, lastVal, scored, done >>

r2 == /\ pc = "r2"
      /\ IF err
            THEN /\ pc' = Head(stack).pc
                 /\ i' = Head(stack).i
                 /\ best' = Head(stack).best
                 /\ v' = Head(stack).v
                 /\ alpha' = Head(stack).alpha
                 /\ n' = Head(stack).n
                 /\ a' = Head(stack).a
                 /\ b' = Head(stack).b
                 /\ d' = Head(stack).d
                 /\ ply' = Head(stack).ply
                 /\ stack' = Tail(stack)
            ELSE /\ pc' = "r2b"
                 /\ UNCHANGED << stack, n, a, b, d, ply, i, best, v, alpha >>
      /\ UNCHANGED << tree, stopAt, polls, err, entered, ret, buf, iter, 
                      completed, lastLine, lastVal, scored, done >>

r2b == /\ pc = "r2b"
       /\ v' = -ret
       /\ pc' = "upd"
       /\ UNCHANGED << tree, stopAt, polls, err, entered, ret, buf, iter, 
                       completed, lastLine, lastVal, scored, done, stack, n, a, 
                       b, d, ply, i, best, alpha >>

upd == /\ pc = "upd"
       /\ IF ply = 0
             THEN /\ scored' = (scored \cup {Kids[n][i]})
             ELSE /\ TRUE
                  /\ UNCHANGED scored
       /\ IF v > best
             THEN /\ best' = v
             ELSE /\ TRUE
                  /\ best' = best
       /\ IF v >= b
             THEN /\ i' = Len(Kids[n]) + 1
                  /\ UNCHANGED << buf, alpha >>
             ELSE /\ IF v > alpha
                        THEN /\ alpha' = v
                             /\ buf' = [buf EXCEPT ![ply] = <<Kids[n][i]>> \o buf[ply + 1]]
                        ELSE /\ TRUE
                             /\ UNCHANGED << buf, alpha >>
                  /\ i' = i + 1
       /\ pc' = "loop"
       /\ UNCHANGED << tree, stopAt, polls, err, entered, ret, iter, completed, 
                       lastLine, lastVal, done, stack, n, a, b, d, ply, v >>

fin == /\ pc = "fin"
       /\ IF Kids[n] = <<>>
             THEN /\ ret' = -Mate + ply
             ELSE /\ ret' = best
       /\ pc' = Head(stack).pc
       /\ i' = Head(stack).i
       /\ best' = Head(stack).best
       /\ v' = Head(stack).v
       /\ alpha' = Head(stack).alpha
       /\ n' = Head(stack).n
       /\ a' = Head(stack).a
       /\ b' = Head(stack).b
       /\ d' = Head(stack).d
       /\ ply' = Head(stack).ply
       /\ stack' = Tail(stack)
       /\ UNCHANGED << tree, stopAt, polls, err, entered, buf, iter, completed, 
                       lastLine, lastVal, scored, done >>

search == enter \/ early \/ callee_clear \/ loop \/ r1 \/ r1b \/ research
             \/ r2 \/ r2b \/ upd \/ fin

main == /\ pc = "main"
        /\ IF iter < MaxDepth /\ ~err
              THEN /\ iter' = iter + 1
                   /\ scored' = {}
                   /\ /\ a' = -Inf
                      /\ b' = Inf
                      /\ d' = iter'
                      /\ n' = 1
                      /\ ply' = 0
                      /\ stack' = << [ procedure |->  "search",
                                       pc        |->  "after",
                                       i         |->  i,
                                       best      |->  best,
                                       v         |->  v,
                                       alpha     |->  alpha,
                                       n         |->  n,
                                       a         |->  a,
                                       b         |->  b,
                                       d         |->  d,
                                       ply       |->  ply ] >>
                                   \o stack
                   /\ i' = 1
                   /\ best' = -Inf
                   /\ v' = 0
                   /\ alpha' = 0
                   /\ pc' = "enter"
              ELSE /\ pc' = "finish"
                   /\ UNCHANGED << iter, scored, stack, n, a, b, d, ply, i, 
                                   best, v, alpha >>
        /\ UNCHANGED << tree, stopAt, polls, err, entered, ret, buf, completed, 
                        lastLine, lastVal, done >>

after == /\ pc = "after"
         /\ IF ~err
               THEN /\ completed' = iter
                    /\ lastLine' = buf[0]
                    /\ lastVal' = ret
               ELSE /\ TRUE
                    /\ UNCHANGED << completed, lastLine, lastVal >>
         /\ pc' = "main"
         /\ UNCHANGED << tree, stopAt, polls, err, entered, ret, buf, iter, 
                         scored, done, stack, n, a, b, d, ply, i, best, v, 
                         alpha >>

finish == /\ pc = "finish"
          /\ done' = TRUE
          /\ pc' = "Done"
          /\ UNCHANGED << tree, stopAt, polls, err, entered, ret, buf, iter, 
                          completed, lastLine, lastVal, scored, stack, n, a, b, 
                          d, ply, i, best, v, alpha >>

(* Allow infinite stuttering to prevent deadlock on termination. *)
Terminating == pc = "Done" /\ UNCHANGED vars

Next == search \/ main \/ after \/ finish
           \/ Terminating

Spec == Init /\ [][Next]_vars

Termination == <>(pc = "Done")

\* END TRANSLATION

(***************************************************************************)
(* Properties                                                              *)
(***************************************************************************)
\* C08 at the design level: whatever the root buffer holds is a line of the tree
PVIsPath == IsPath(1, buf[0])

\* C08: a completed iteration reports the exact negamax value and a non-empty line
IterationSound ==
    completed > 0 =>
        /\ lastVal = NM(tree, 1, completed, 0)
        /\ lastLine # <<>> /\ IsPath(1, lastLine) /\ Len(lastLine) <= completed

\* C09: after the stop was observed no further node is entered
NoWorkAfterStop == entered = 0

\* C09: when the search is over the root line is either the line of the last completed iteration or starts with a
\* root move that was completely searched in the interrupted iteration; once iteration 1 completed there is a move
StopSafe ==
    done =>
        /\ (completed > 0 => buf[0] # <<>>)
        /\ (buf[0] # <<>> => (buf[0] = lastLine \/ buf[0][1] \in scored))
=============================================================================
