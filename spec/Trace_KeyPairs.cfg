INIT Init
NEXT Next
