SPECIFICATION TraceSpec
VIEW TraceView
POSTCONDITION TraceAccepted
CHECK_DEADLOCK FALSE
