----------------------------- MODULE Trace_Tables -----------------------------
(***************************************************************************)
(* C07, direction A: every recorded slider lookup (hook H2: kind, square,  *)
(* table index, table length) must land inside the table.                  *)
(***************************************************************************)
EXTENDS Naturals, Sequences, FiniteSets, TLC, Json, IOUtils, Reporting

Rec == ndJsonDeserialize(IOEnv.TRACE)
N == Len(Rec)

InRange == \A i \in 1..N :
              ViolAt(Rec[i].i >= 0 /\ Rec[i].i < Rec[i].n, "C07", i, "index-out-of-table", Rec[i])

ASSUME InRange
ASSUME Stat("tables", [lookups |-> N, maxidx |-> CHOOSE m \in {Rec[i].i : i \in 1..N} : \A j \in 1..N : Rec[j].i <= m,
                       len |-> Rec[1].n, slots |-> Cardinality({Rec[i].i : i \in 1..N})])
VARIABLE x
Init == x = 0
Next == x' = x
=============================================================================
