------------------------------- MODULE Trace_Fen -------------------------------
(***************************************************************************)
(* C06: every recorded call of the FEN reader (text as character codes,    *)
(* outcome ok / err / panic, the fields of the position read, its carried  *)
(* and from-scratch key, and the text the writer produces for it) judged   *)
(* by the grammar in Fen.tla.                                              *)
(***************************************************************************)
EXTENDS Fen, Json, IOUtils, Reporting

Rec == ndJsonDeserialize(IOEnv.TRACE)
N == Len(Rec)
CastleSet(n) == {r \in 0..3 : (n \div (2 ^ r)) % 2 = 1}
EvPos(e) == [board |-> [i \in 1..64 |-> e.b[i]], stm |-> e.stm, castle |-> CastleSet(e.cr),
             ep |-> e.ep, hmc |-> e.hmc, plies |-> e.pl]
Cs(e) == [i \in 1..Len(e.cs) |-> e.cs[i]]

Clauses(i) ==
    LET e  == Rec[i]
        cs == Cs(e)
        r  == FenRead(cs)
    IN  \* (c) never a crash
        /\ ViolAt(e.out # "panic", "C06", i, "reader-panic", [text |-> e.text, op |-> e.op])
        \* (d) wrong rank structure must be rejected
        /\ ViolAt(RanksOK(cs) \/ e.out # "ok", "C06", i, "bad-ranks-accepted", [text |-> e.text, op |-> e.op])
        \* (e) what the grammar accepts the reader accepts, with the same fields
        /\ IF r.ok
           THEN /\ ViolAt(e.out = "ok", "C06", i, "valid-rejected", [text |-> e.text, op |-> e.op, out |-> e.out])
                /\ IF e.out = "ok"
                   THEN /\ ViolAt(EvPos(e) = r.pos, "C06", i, "fields", [text |-> e.text, op |-> e.op])
                        /\ ViolAt(e.key = e.keys, "C06", i, "key", [text |-> e.text])
                        \* (b) canonical text is reproduced by the writer
                        /\ IF FenCodes(r.pos) = cs
                           THEN ViolAt(e.rew = e.cs, "C06", i, "rewrite", [text |-> e.text, rewritten |-> e.rewtext])
                           ELSE TRUE
                        \* (a) writer then reader is the identity on what was read
                        /\ ViolAt(e.rt, "C06", i, "write-read-roundtrip", [text |-> e.text, rewritten |-> e.rewtext])
                   ELSE TRUE
           ELSE TRUE

ASSUME \A i \in 1..N : Clauses(i)
ASSUME Stat("fen", [events |-> N,
                    ok |-> Cardinality({i \in 1..N : Rec[i].out = "ok"}),
                    err |-> Cardinality({i \in 1..N : Rec[i].out = "err"}),
                    panic |-> Cardinality({i \in 1..N : Rec[i].out = "panic"}),
                    spec_ok |-> Cardinality({i \in 1..N : FenRead(Cs(Rec[i])).ok}),
                    ranks_bad |-> Cardinality({i \in 1..N : ~RanksOK(Cs(Rec[i]))})])
VARIABLE x
Init == x = 0
Next == x' = x
=============================================================================
