INIT Init
NEXT Next
