---------------------------- MODULE Trace_EvalTerms ----------------------------
(***************************************************************************)
(* EvalTerms.tla against the engine.  IOEnv.PARAMS: the evaluation         *)
(* parameters in the order of the engine's coefficient trace (hook         *)
(* eval::verif_terms).  IOEnv.TRACE: per position the engine's own         *)
(* coefficients, the evaluation from White's side, phase, and eval::eval.  *)
(*                                                                         *)
(* CodeView (DRIFT, id EVAL): every coefficient equals the one the         *)
(* specification derives from the board; the phase; the evaluation equals  *)
(* the blended sum of coefficient x parameter; eval::eval is that value     *)
(* seen from the side to move.                                             *)
(* PropertyView (VIOL, id C16), universal in the positions: from the real  *)
(* parameter tables, for EVERY placement of at most 16 men a side (any     *)
(* number of promoted pieces), each half of the packed sum stays within 16 *)
(* bits and the evaluation stays out of the mate range: every army the     *)
(* rules allow (promotions included), every man at its best square with    *)
(* its best mobility, against every army with every man at its worst.      *)
(***************************************************************************)
EXTENDS EvalTerms, Json, IOUtils, Reporting

Par == ndJsonDeserialize(IOEnv.PARAMS)[1]
Rec == ndJsonDeserialize(IOEnv.TRACE)
N == Len(Rec)

\* ---------------------------------------------------------------- universal bound from the tables
MaxS(S) == CHOOSE x \in S : \A y \in S : y <= x
MinS(S) == CHOOSE x \in S : \A y \in S : y >= x
Vals(g, half) == {Par[g][i][half] : i \in 1..Len(Par[g])}
PstName(k) == CASE k = Pawn -> "pawn_pst" [] k = Knight -> "knight_pst" [] k = Bishop -> "bishop_pst"
                [] k = Rook -> "rook_pst" [] k = Queen -> "queen_pst" [] k = King -> "king_pst"
MobName(k) == CASE k = Knight -> "knight_mobility" [] k = Bishop -> "bishop_mobility" [] k = Rook -> "rook_mobility"
                [] k = Queen -> "queen_mobility"
\* best / worst a single man of kind k can be worth (material + square + mobility; a pawn possibly passed)
ManMax(k, half) == Par.material[k][half] + MaxS(Vals(PstName(k), half))
                   + (IF k \in {Knight, Bishop, Rook, Queen} THEN MaxS(Vals(MobName(k), half)) ELSE 0)
                   + (IF k = Pawn THEN MaxS(Vals("passed_pawn_pst", half) \cup {0}) ELSE 0)
ManMin(k, half) == Par.material[k][half] + MinS(Vals(PstName(k), half))
                   + (IF k \in {Knight, Bishop, Rook, Queen} THEN MinS(Vals(MobName(k), half)) ELSE 0)
                   + (IF k = Pawn THEN MinS(Vals("passed_pawn_pst", half) \cup {0}) ELSE 0)
\* the men one side can have: 16 at most with the king, eight pawns at most, every man beyond the original set
\* (one queen, two rooks, two bishops, two knights) is a promoted pawn
Over(n, base) == IF n > base THEN n - base ELSE 0
Armies == {a \in [{Pawn, Knight, Bishop, Rook, Queen} -> 0..10] :
             /\ a[Pawn] <= 8 /\ a[Queen] <= 9
             /\ a[Pawn] + a[Knight] + a[Bishop] + a[Rook] + a[Queen] <= 15
             /\ Over(a[Queen], 1) + Over(a[Rook], 2) + Over(a[Bishop], 2) + Over(a[Knight], 2) <= 8 - a[Pawn]}
ArmySum(a, f(_)) == a[Pawn] * f(Pawn) + a[Knight] * f(Knight) + a[Bishop] * f(Bishop) + a[Rook] * f(Rook) + a[Queen] * f(Queen)
KingZoneVals(half) == {-v : v \in Vals("attacked_king_squares", half)} \cup Vals("attacked_king_squares", half)
\* one side: king + army (every man at its best / worst) + bishop pair (needs two bishops) + its king-zone entry (either sign)
SideMax(half) == ManMax(King, half) + MaxS(KingZoneVals(half))
                 + MaxS({ArmySum(a, LAMBDA k : ManMax(k, half)) + (IF a[Bishop] >= 2 THEN Par.bishop_pair[1][half] ELSE 0) : a \in Armies})
SideMin(half) == ManMin(King, half) + MinS(KingZoneVals(half))
                 + MinS({ArmySum(a, LAMBDA k : ManMin(k, half)) + (IF a[Bishop] >= 2 THEN Par.bishop_pair[1][half] ELSE 0) : a \in Armies})
Bound(half) == SideMax(half) - SideMin(half)

\* evaluated in the run that has BOUND=1 in its environment (once per check, not once per trace file)
DoBound == IOEnv.BOUND = "1"
ASSUME DoBound => \A half \in {1, 2} :
    /\ ViolAt(Bound(half) <= 32767, "C16", 0, "a-half-of-the-packed-sum-can-leave-16-bits",
              [half |-> half, bound |-> Bound(half), side_max |-> SideMax(half), side_min |-> SideMin(half)])
    /\ ViolAt(Bound(half) < 31900, "C16", 0, "evaluation-can-reach-the-mate-range",
              [half |-> half, bound |-> Bound(half)])
ASSUME DoBound => Stat("bound", [mg |-> Bound(1), eg |-> Bound(2), side_max |-> <<SideMax(1), SideMax(2)>>, side_min |-> <<SideMin(1), SideMin(2)>>])

\* ---------------------------------------------------------------- per position
CastleSet(n) == {r \in 0..3 : (n \div (2 ^ r)) % 2 = 1}
Board(e) == [i \in 1..64 |-> e.b[i]]

PosClauses(i, e) ==
    LET b == Board(e)
        cfs == [g \in GroupSet |-> Coef(b, g)]
        we == WhiteEvalOf(cfs, Par, PhaseOf(b))
        bad == {g \in GroupSet : \E j \in 1..Len(e.coef[g]) : e.coef[g][j] # cfs[g][j - 1]}
    IN  /\ ViolAt(e.out = "ok", "C16", i, "eval-panic", [fen |-> e.fen])
        /\ e.out = "ok" =>
             /\ DriftAt(bad = {}, "EVAL", i, "coefficients", [fen |-> e.fen, groups |-> bad,
                        engine |-> [g \in bad |-> e.coef[g]], spec |-> [g \in bad |-> [j \in 1..Len(e.coef[g]) |-> cfs[g][j - 1]]]])
             /\ DriftAt(e.phase = PhaseOf(b), "EVAL", i, "phase", [fen |-> e.fen, engine |-> e.phase, spec |-> PhaseOf(b)])
             /\ DriftAt(e.white_eval = we, "EVAL", i, "blended-sum", [fen |-> e.fen, engine |-> e.white_eval, spec |-> we])
             /\ DriftAt(e.eval = (IF e.stm = 0 THEN e.white_eval ELSE -e.white_eval), "EVAL", i, "side-to-move-view", [fen |-> e.fen])

ASSUME \A i \in 1..N : PosClauses(i, Rec[i])
ASSUME Stat("evalterms", [positions |-> N,
                          passed |-> Cardinality({i \in 1..N : Rec[i].out = "ok" /\ \E j \in 1..64 : Rec[i].coef.passed_pawn_pst[j] # 0}),
                          pairs |-> Cardinality({i \in 1..N : Rec[i].out = "ok" /\ Rec[i].coef.bishop_pair[1] # 0})])
VARIABLE x
Init == x = 0
Next == x' = x
=============================================================================
