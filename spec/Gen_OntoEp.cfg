INIT Init
NEXT Next
