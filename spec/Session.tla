-------------------------------- MODULE Session --------------------------------
(***************************************************************************)
(* C12: the engine as a deterministic function of its abstract state.      *)
(* Abstract state = the options in force and the history of position / go  *)
(* commands since the last reset, where a reset is a process start or      *)
(* ucinewgame.  PropertyView: the observable output of a fixed-depth go    *)
(* (best move, per-iteration depth, score, line, nodes, fill; times        *)
(* removed) is a function of (options, history since reset including this  *)
(* go).  In particular [H ; ucinewgame ; S] and a fresh process running S  *)
(* reach the same abstract state and must print the same.                  *)
(***************************************************************************)
EXTENDS Naturals, Sequences, FiniteSets, TLC

VARIABLES opts,    \* <<hash, threads, overhead>>
          hist,    \* sequence of <<position text, depth limit>> since the last reset
          cur      \* position text in force

DefaultOpts == <<256, 1, 0>>

Start   == opts' = DefaultOpts /\ hist' = <<>> /\ cur' = "startpos"
NewGame == hist' = <<>> /\ cur' = "startpos" /\ UNCHANGED opts
\* a size-changing Hash setting empties the table but leaves the other persistent tables alone:
\* it stays part of the history (recorded as a pseudo-entry) rather than counting as a reset;
\* with an empty history every table is empty anyway and the resize leaves no trace
SetOption(i, v) ==
    /\ opts' = [opts EXCEPT ![i] = v]
    /\ hist' = IF i = 1 /\ v # opts[1] /\ hist # <<>> THEN Append(hist, <<"resize", v>>) ELSE hist
    /\ UNCHANGED cur
Position(p) == cur' = p /\ UNCHANGED <<opts, hist>>
Go(d) == hist' = Append(hist, <<cur, d>>) /\ UNCHANGED <<opts, cur>>

\* `go infinite' ended by `stop': what it leaves in the tables depends on when the stop arrived, so the state it
\* leads to is one of a kind (tag names the process and the command) until the next reset wipes it out
Analyse(tag) == hist' = Append(hist, <<"analyse", tag>>) /\ UNCHANGED <<opts, cur>>
\* `stop' with no search running changes nothing
IdleStop == UNCHANGED <<opts, hist, cur>>

Key == <<opts, hist>>
=============================================================================
