CONSTANTS HistoryMax = 12 Decay = 8
CONSTANT Moves <- MCMoves
CONSTANT Plies <- MCPlies
CONSTANT Depths <- MCDepths
SPECIFICATION Spec
INVARIANTS KillersDistinct KillerOrder HistoryBounded ScoreFits
PROPERTY DecayMonotone
CHECK_DEADLOCK FALSE
