\* the constants of the timed model are not used by trace validation
CONSTANTS
  MaxPollGap = 1
  StartLat = 0
  RetLat = 0
  RemChoices = {1}
  DenseSoft = FALSE
INIT Init
NEXT Next
