------------------------------ MODULE TimeAlloc ------------------------------
(***************************************************************************)
(* C14  Time allocation never exceeds what the clock allows.               *)
(*                                                                         *)
(* Part 1 (constant level): a clock situation as a GUI sends it            *)
(*     s = [rem, inc, mtg, mt, ovh, has]                                   *)
(* (milliseconds as written after wtime/btime, winc/binc, movestogo,       *)
(* movetime for the side to move; ovh = the Move Overhead option;          *)
(* has = <<own clock sent, own increment sent, movestogo sent, movetime    *)
(* sent, other side's clock sent>> as 0/1) is mapped to the two limits.    *)
(*   CodeView     = the formula of TimeStrategy::new, in exact arithmetic. *)
(*   PropertyView = what the property says, nothing else.                  *)
(*                                                                         *)
(* Part 2 (state machine): the timed poll model that turns the limits into *)
(* "the move is back before the clock has run out".                        *)
(*                                                                         *)
(* Units and ranges.  TLC integers are 32 bit.  Nanoseconds do not fit     *)
(* (10^7 ms = 10^13 ns), so                                                *)
(*   - exact values are non-negative rationals carried as mixed numbers    *)
(*     [w, n, d] = w + n/d MILLISECONDS with 0 <= n < d;  d only takes the *)
(*     values 1, 2, 1000, mtg and products of these with 2 and 4, so every *)
(*     product below stays under 2^31 as long as                           *)
(*         rem, inc, ovh, mt <= CvMaxMs = 10^8 ms,  mtg <= CvMaxMtg = 10^4 *)
(*     (the harness marks such events rng = 2);                            *)
(*   - durations observed in the implementation (nanosecond resolution)    *)
(*     are two limbs <<whole ms, ns within the ms>>;  PropertyView on      *)
(*     limbs needs only rem, ovh <= PvMaxMs = 2*10^9 ms (rng >= 1).        *)
(***************************************************************************)
EXTENDS Integers, Sequences

CvMaxMs  == 100000000
CvMaxMtg == 10000
PvMaxMs  == 2000000000

NotSent == -1                       \* value of a field the GUI did not send
Pos(x)  == IF x < 0 THEN 0 ELSE x   \* the reader clamps negative numbers to 0

OwnSent(s)   == s.has[1] = 1
IncSent(s)   == s.has[2] = 1
MtgSent(s)   == s.has[3] = 1
MtSent(s)    == s.has[4] = 1
OtherSent(s) == s.has[5] = 1

Rem(s) == IF OwnSent(s) THEN Pos(s.rem) ELSE 0
Inc(s) == IF IncSent(s) THEN Pos(s.inc) ELSE 0
Mt(s)  == Pos(s.mt)

(***************************************************************************)
(* The property's quantifier: moves to go of at least one, overhead of at  *)
(* most half the remaining time.  Without any clock (movetime / infinite)  *)
(* there is no remaining time and the overhead plays no role.              *)
(***************************************************************************)
InDomain(s) ==
    /\ MtgSent(s) => s.mtg >= 1
    /\ (OwnSent(s) \/ OtherSent(s)) => s.ovh <= Rem(s) \div 2

(***************************************************************************)
(* Which clause of the property speaks about s:                            *)
(*   "clock"  own clock sent, no movetime: the half-of-remaining bound;    *)
(*   "exact"  only a movetime: used as given;                              *)
(*   "either" both sent: the property does not say which wins, so either   *)
(*            clause is accepted;                                          *)
(*   "free"   own clock not sent (only the opponent's, or nothing at all): *)
(*            the property is silent about the bound; soft <= hard stays.  *)
(***************************************************************************)
PVCase(s) ==
    IF OwnSent(s) THEN (IF MtSent(s) THEN "either" ELSE "clock")
    ELSE IF MtSent(s) /\ ~OtherSent(s) THEN "exact"
    ELSE "free"

----------------------------------------------------------------------------
(* Exact non-negative rationals as mixed numbers.                          *)
Q(w, n, d)      == [w |-> w, n |-> n, d |-> d]
QNorm(w, n, d)  == Q(w + (n \div d), n % d, d)
QInt(x)         == Q(x, 0, 1)
QDivInt(x, k)   == Q(x \div k, x % k, k)                          \* x / k, k >= 1
QAdd(a, b)      == QNorm(a.w + b.w, a.n * b.d + b.n * a.d, a.d * b.d)
QScale(a, p, q) == LET wp == a.w * p                              \* a * p / q, p, q in 1..4
                   IN  QNorm(wp \div q, (wp % q) * a.d + a.n * p, a.d * q)
QLe(a, b)       == a.w < b.w \/ (a.w = b.w /\ a.n * b.d <= b.n * a.d)
QEq(a, b)       == a.w = b.w /\ a.n * b.d = b.n * a.d
QMin(a, b)      == IF QLe(a, b) THEN a ELSE b
\* 33/1000 of x without forming 33 * x
Q33(x)          == LET r == 33 * (x % 1000) IN Q(33 * (x \div 1000) + (r \div 1000), r % 1000, 1000)

----------------------------------------------------------------------------
(* CodeView: TimeStrategy::new and the `go` branch of Uci::execute.         *)
TcKind(s) == IF OwnSent(s) \/ OtherSent(s) THEN "clocks"      \* clocks win over movetime
             ELSE IF MtSent(s) THEN "exact" ELSE "infinite"

\* time_remaining.saturating_sub(move_overhead).max(move_overhead)
AfterOverhead(rem, ovh) == LET x == Pos(rem - ovh) IN IF x < ovh THEN ovh ELSE x

\* Duration / 0 panics
CodeCrashes(s) == TcKind(s) = "clocks" /\ MtgSent(s) /\ s.mtg = 0

CodeLimits(s) ==
    CASE TcKind(s) = "infinite" -> [soft |-> QInt(0), hard |-> QInt(0)]
      [] TcKind(s) = "exact"    -> [soft |-> QInt(Mt(s)), hard |-> QInt(Mt(s))]
      [] OTHER ->
           LET R     == AfterOverhead(Rem(s), s.ovh)
               cap   == QDivInt(R, 2)                                             \* MAX_TIME_PER_MOVE  0.5
               share == IF MtgSent(s) THEN QDivInt(R, s.mtg) ELSE Q33(R)          \* BASE_TIME_PER_MOVE 0.033
               base  == QAdd(share, QDivInt(Inc(s), 2))                           \* INCREMENT_TO_USE   0.5
           IN  [soft |-> QMin(QScale(base, 3, 4), cap),                           \* SOFT_TIME_MULTIPLIER 0.75
                hard |-> QMin(QScale(base, 3, 1), cap)]                           \* HARD_TIME_MULTIPLIER 3.0

\* the cap is the binding term of the hard limit
CapBinds(s) == TcKind(s) = "clocks" /\ ~CodeCrashes(s) /\
               QEq(CodeLimits(s).hard, QDivInt(AfterOverhead(Rem(s), s.ovh), 2))

----------------------------------------------------------------------------
(* PropertyView on exact values (used by the model checker).                *)
HalfAfterOverhead(s) == QDivInt(Rem(s) - s.ovh, 2)      \* in the domain Rem - ovh >= 0

ClockClauseQ(s, soft, hard) == QLe(hard, HalfAfterOverhead(s)) /\ QLe(soft, hard)
ExactClauseQ(s, soft, hard) == QEq(soft, QInt(Mt(s))) /\ QEq(hard, QInt(Mt(s)))

PVLimitsQ(s, soft, hard) ==
    CASE PVCase(s) = "clock"  -> ClockClauseQ(s, soft, hard)
      [] PVCase(s) = "exact"  -> ExactClauseQ(s, soft, hard)
      [] PVCase(s) = "either" -> ClockClauseQ(s, soft, hard) \/ ExactClauseQ(s, soft, hard)
      [] OTHER                -> QLe(soft, hard)

----------------------------------------------------------------------------
(* Observed durations: limbs <<ms, ns>>, 0 <= ns < 10^6.                    *)
L(ms, ns)    == <<ms, ns>>
LNorm(ms, ns) == <<ms + (ns \div 1000000), ns % 1000000>>
LLe(a, b)    == a[1] < b[1] \/ (a[1] = b[1] /\ a[2] <= b[2])
LAddNs(a, k) == LNorm(a[1], a[2] + k)                   \* k < 2 * 10^9 - 10^6
\* floor of an exact value to whole nanoseconds: n * 10^6 / d in two steps of 1000
QFloorL(a)   == LET x == a.n * 1000
                    y == (x % a.d) * 1000
                IN  L(a.w, (x \div a.d) * 1000 + (y \div a.d))

(***************************************************************************)
(* Tolerance fixed in DESIGN.md (C14): one part in 2^22 plus 1 microsecond *)
(* for the rounding of Duration::mul_f32.  x / 2^22 ns with x = ms * 10^6  *)
(* + ns is ms * 15625 / 65536 + ns / 2^22; the product is split so that it *)
(* fits.  Rounded down (never looser than stated).                         *)
(***************************************************************************)
TolNs(a) == LET hi == a[1] \div 65536
                lo == a[1] % 65536
            IN  hi * 15625 + ((lo * 15625 + (a[2] \div 64)) \div 65536) + 1000

LLeTol(a, b) == LLe(a, LAddNs(b, TolNs(b)))             \* a <= b within the tolerance

(***************************************************************************)
(* CodeView equality.  The limits pass through TWO chained mul_f32 (base   *)
(* share and increment part, then the 0.75 / 3.0 multiplier), the second   *)
(* scaling the first one's absolute error by up to 3; composing the        *)
(* per-multiplication tolerance gives 2 parts in 2^22 plus 7 microseconds. *)
(* (Worst case of the as-coded chain is about 1.8 parts in 2^22, so the    *)
(* single tolerance would not be sound against false drift; measured       *)
(* maximum on 3.4 million situations: 0.78 parts.)  Exceedances of the     *)
(* single tolerance are counted separately by the trace specification.     *)
(***************************************************************************)
CvTolNs(a)   == 2 * TolNs(a) + 5000
LNear(a, b, t) == LLe(a, LAddNs(b, t + 1)) /\ LLe(b, LAddNs(a, t + 1))   \* +1: b is a floor

ClockClauseL(s, soft, hard) ==
    LET R == Rem(s) - s.ovh
    IN  LLeTol(hard, L(R \div 2, (R % 2) * 500000)) /\ LLeTol(soft, hard)
ExactClauseL(s, soft, hard) == soft = L(Mt(s), 0) /\ hard = L(Mt(s), 0)

PVLimitsL(s, soft, hard) ==
    CASE PVCase(s) = "clock"  -> ClockClauseL(s, soft, hard)
      [] PVCase(s) = "exact"  -> ExactClauseL(s, soft, hard)
      [] PVCase(s) = "either" -> ClockClauseL(s, soft, hard) \/ ExactClauseL(s, soft, hard)
      [] OTHER                -> LLeTol(soft, hard)

CVLimitsL(s, soft, hard, tol(_)) ==
    LET c == CodeLimits(s)
        fs == QFloorL(c.soft)
        fh == QFloorL(c.hard)
    IN  IF TcKind(s) = "clocks"
        THEN LNear(soft, fs, tol(fs)) /\ LNear(hard, fh, tol(fh))
        ELSE soft = fs /\ hard = fh

InCvRange(s) == /\ s.rem <= CvMaxMs /\ s.inc <= CvMaxMs /\ s.mt <= CvMaxMs /\ s.ovh <= CvMaxMs
                /\ s.mtg <= CvMaxMtg

----------------------------------------------------------------------------
(***************************************************************************)
(* Part 2: the timed poll model.  Abstract time units (the driver says how *)
(* many milliseconds one unit is).  The engine reads its clock StartLat at *)
(* the latest after the GUI wrote `go`; from then on the search loads the  *)
(* stop condition at polls that are at most MaxPollGap apart (every 10 000 *)
(* nodes) and at iteration boundaries:                                     *)
(*    Poll               elapsed > hard  -> abort, the move goes out;      *)
(*    IterationBoundary  depth 1 always starts (it is running initially);  *)
(*                       later depths start only while elapsed < soft; the *)
(*                       depth limit may end the search at any boundary;   *)
(*    Advance(dt)        time passes, but never beyond the next poll.      *)
(* The move reaches the GUI RetLat after the search stopped.  The limits   *)
(* are ANY pair allowed by PropertyView (hard <= rem/2, soft <= hard), so  *)
(* the conclusion rests on the property alone, not on the coded formula.   *)
(***************************************************************************)
CONSTANTS MaxPollGap, StartLat, RetLat, RemChoices, DenseSoft

VARIABLES now,        \* time since the GUI wrote `go`
          nextPoll,   \* the next poll happens at this time at the latest
          stopped,    \* the search has ended and the move is on its way
          clk         \* [rem, soft, hard, t0]: clock, limits, time at which the engine read its clock
tvars == <<now, nextPoll, stopped, clk>>

SoftChoices(h) == IF DenseSoft THEN 0..h ELSE {0, h \div 4, h \div 2, h}

TInit ==
    /\ \E r \in RemChoices : \E h \in 0..(r \div 2) : \E sf \in SoftChoices(h) : \E t \in 0..StartLat :
          /\ clk = [rem |-> r, soft |-> sf, hard |-> h, t0 |-> t]
          /\ now = t
          /\ nextPoll = t + MaxPollGap
    /\ stopped = FALSE

Elapsed == now - clk.t0

Advance(dt) ==
    /\ ~stopped
    /\ now + dt <= nextPoll
    /\ now' = now + dt
    /\ UNCHANGED <<nextPoll, stopped, clk>>

Poll ==
    /\ ~stopped
    /\ IF Elapsed > clk.hard
       THEN stopped' = TRUE /\ UNCHANGED nextPoll
       ELSE stopped' = FALSE /\ nextPoll' = now + MaxPollGap
    /\ UNCHANGED <<now, clk>>

IterationBoundary ==
    /\ ~stopped
    /\ \/ Elapsed < clk.soft /\ UNCHANGED stopped     \* should_start_new_search: go one deeper
       \/ stopped' = TRUE                             \* soft limit reached, or depth limit / nothing left
    /\ UNCHANGED <<now, nextPoll, clk>>

TNext == (\E dt \in 1..MaxPollGap : Advance(dt)) \/ Poll \/ IterationBoundary
TSpec == TInit /\ [][TNext]_tvars /\ WF_tvars(\E dt \in 1..MaxPollGap : Advance(dt)) /\ WF_tvars(Poll)

\* PropertyView: the move is back before the clock has run out
ReturnsInTime == stopped => now + RetLat < clk.rem
\* sanity: a running search is never later than one poll gap after the hard limit
NeverLate     == ~stopped => now <= clk.t0 + clk.hard + MaxPollGap
TTypeOK       == now \in Nat /\ nextPoll \in Nat /\ stopped \in BOOLEAN /\ now <= nextPoll
EventuallyStops == <>stopped
============================================================================
