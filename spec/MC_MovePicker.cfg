\* quick-tier bounds; p_c10.py writes the thorough-tier shapes next to its outputs
CONSTANTS
  NCmin = 0
  NCmax = 2
  NQmin = 0
  NQmax = 3
SPECIFICATION MCSpec
INVARIANT MCInv
PROPERTY Progress
PROPERTY ConfigFrozen
CHECK_DEADLOCK FALSE
