\* One shard, per-branch actions, deadlock checking on (a branch of a stage block that has no
\* named action would strand a behaviour before Done).  p_c10.py writes the sharded
\* configurations of both tiers (MCPlainSpec for the large shapes) next to its outputs.
CONSTANTS
  NCmin = 0
  NCmax = 2
  NQmin = 0
  NQmax = 2
  Shard = 0
  NShards = 1
SPECIFICATION MCSpec
INVARIANT MCInv
PROPERTY Progress
PROPERTY ConfigFrozen
