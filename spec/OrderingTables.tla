---------------------------- MODULE OrderingTables ----------------------------
(***************************************************************************)
(* Growth item (DESIGN.md 10.3): the move-ordering memories that feed the  *)
(* staged picker (C10) and must be fresh after ucinewgame (C12):           *)
(*   killers   two slots per ply; try_push shifts slot 0 to slot 1 unless  *)
(*             the move already is slot 0                                  *)
(*   history   per (side, from, to) score; add_bonus adds depth^2 capped   *)
(*             at HistoryMax; decay divides every score (truncating) at    *)
(*             the start of each search; reset zeroes                      *)
(*   counter   per (side, previous move) the last cutoff move              *)
(* Moves are abstract identifiers; plies and depths small.                 *)
(***************************************************************************)
EXTENDS Integers, FiniteSets, TLC

CONSTANTS Moves, Plies, Depths, HistoryMax, Decay

None == "none"
VARIABLES killers,   \* [Plies -> <<slot0, slot1>>]
          history,   \* [Moves -> Nat]   (one side, keyed by the move)
          counter    \* [Moves -> Moves \cup {None}]

otvars == <<killers, history, counter>>

Init ==
    /\ killers = [p \in Plies |-> <<None, None>>]
    /\ history = [m \in Moves |-> 0]
    /\ counter = [m \in Moves |-> None]

TryPush(p, m) ==
    /\ killers' = IF killers[p][1] = m THEN killers
                  ELSE [killers EXCEPT ![p] = <<m, killers[p][1]>>]
    /\ UNCHANGED <<history, counter>>

AddBonus(m, d) ==
    /\ history' = [history EXCEPT ![m] = IF @ + d * d > HistoryMax THEN HistoryMax ELSE @ + d * d]
    /\ UNCHANGED <<killers, counter>>

\* start of a search: every history score divided by the decay factor; killers and counter moves belong to one
\* search (they live in the search context) and start empty
NewSearch ==
    /\ history' = [m \in Moves |-> history[m] \div Decay]
    /\ killers' = [p \in Plies |-> <<None, None>>]
    /\ counter' = [m \in Moves |-> None]

SetCounter(prev, m) ==
    /\ counter' = [counter EXCEPT ![prev] = m]
    /\ UNCHANGED <<killers, history>>

\* ucinewgame
Reset ==
    /\ history' = [m \in Moves |-> 0]
    /\ UNCHANGED <<killers, counter>>

Next ==
    \/ \E p \in Plies, m \in Moves : TryPush(p, m)
    \/ \E m \in Moves, d \in Depths : AddBonus(m, d)
    \/ \E a \in Moves, b \in Moves : SetCounter(a, b)
    \/ NewSearch \/ Reset

Spec == Init /\ [][Next]_otvars

\* the two killer slots of a ply never hold the same move (the picker relies on the later stages skipping
\* duplicates, but the table itself already avoids the common one)
KillersDistinct == \A p \in Plies : killers[p][1] = None \/ killers[p][1] # killers[p][2]
\* slot 1 is only filled through slot 0
KillerOrder == \A p \in Plies : killers[p][1] = None => killers[p][2] = None
HistoryBounded == \A m \in Moves : history[m] >= 0 /\ history[m] <= HistoryMax
\* a quiet move's ordering score QUIET + history stays inside 32 bits for the real constants
ScoreFits == \A m \in Moves : 100000000 + history[m] <= 2147483647
\* the step that starts a search never increases a history score
DecayMonotone == [][NewSearch => \A m \in Moves : history'[m] <= history[m]]_otvars
=============================================================================
