------------------------------ MODULE Gen_Tables ------------------------------
(***************************************************************************)
(* C07, direction B, exhaustive: for every square (sharded) and both       *)
(* slider kinds TLC enumerates every subset of the relevant blocker mask   *)
(* and prints the attack set obtained by walking the rays; it also prints  *)
(* the leaper tables, both pawn colours and the squares-between relation   *)
(* for every ordered pair of squares.  The harness compares each line with *)
(* the engine's tables, also under occupancies that differ only in         *)
(* irrelevant bits (outside the printed mask).                             *)
(***************************************************************************)
EXTENDS Geometry, TLC, Json, Sequences

CONSTANTS SHARD, NSHARDS

Out(r) == PrintT("@@GEN " \o ToJson(r))
MySquares == {s \in Sq : s % NSHARDS = SHARD}

\* Geometry fact used by the perturbation test: blockers outside the relevant mask never
\* change a slider's attack set.  Checked here on the extreme perturbation (all irrelevant
\* squares occupied) for every enumerated case.
Sliders(kind, s) ==
    LET mask == RelevantMask(kind, s)
        irr  == Sq \ mask
    IN  /\ Out([t |-> "mask", k |-> kind, s |-> s, m |-> mask])
        /\ \A occ \in SUBSET mask :
              LET a == IF kind = "R" THEN RookAttacks(s, occ) ELSE BishopAttacks(s, occ)
                  b == IF kind = "R" THEN RookAttacks(s, occ \cup irr) ELSE BishopAttacks(s, occ \cup irr)
              IN  /\ Assert(a = b, <<"irrelevant blockers matter", kind, s, occ>>)
                  /\ Out([t |-> "sl", k |-> kind, s |-> s, o |-> occ, a |-> a])

Run ==
    /\ \A s \in MySquares :
          /\ Sliders("R", s)
          /\ Sliders("B", s)
          /\ Out([t |-> "kn", s |-> s, a |-> KnightAttacks(s)])
          /\ Out([t |-> "kg", s |-> s, a |-> KingAttacks(s)])
          /\ Out([t |-> "pw", c |-> 0, s |-> s, a |-> PawnAttacks(0, s)])
          /\ Out([t |-> "pw", c |-> 1, s |-> s, a |-> PawnAttacks(1, s)])
          /\ \A b \in Sq : Out([t |-> "bt", s |-> s, b |-> b, a |-> Between(s, b)])

ASSUME Run
VARIABLE x
Init == x = 0
Next == x' = x
=============================================================================
