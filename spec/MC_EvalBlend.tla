----------------------------- MODULE MC_EvalBlend -----------------------------
(***************************************************************************)
(* Exhaustive evaluation by TLC over a boundary grid: CodeView blend within *)
(* PropertyView for every (mg, eg) on the grid and every phase 0..PhaseMax; *)
(* packed addition is carry free for halves whose sums stay in 16 bits.    *)
(***************************************************************************)
EXTENDS EvalBlend, TLC

CONSTANT PhaseMax
Grid == {-32768, -32767, -20000, -3000, -1001, -1000, -999, -100, -25, -24, -23, -1, 0, 1, 23, 24, 25, 100, 999, 1000, 1001,
         3000, 20000, 32766, 32767}
Small == {-16000, -15999, -3000, -1, 0, 1, 2999, 3000, 15999, 16000}

BlendHolds == \A mg \in Grid : \A eg \in Grid : \A ph \in 0..PhaseMax : BlendPV(mg, eg, BlendCV(mg, eg, ph))
PackHolds == \A a \in Small : \A b \in Small : \A c \in Small : \A d \in Small : CarryFree(a, b, c, d)
\* (the extreme corner eg = -32768 with mg < 0 does not fit 32 bits, neither in TLC nor in the engine)
RoundTrip == \A mg \in Grid : \A eg \in Grid \ {-32768} : UnpackMg(Pack(mg, eg)) = mg /\ UnpackEg(Pack(mg, eg)) = eg

VARIABLE x
Init == x = 0
Next == x' = x
Inv == BlendHolds /\ PackHolds /\ RoundTrip
=============================================================================
