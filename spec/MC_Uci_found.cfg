\* The code as found: latch cleared by ucinewgame, Hash minimum 0.  Expected: deadlock (F4), crash (F6).
CONSTANTS ResetOnGo = FALSE MaxCmds = 0 HashMinZero = TRUE InfiniteMayEnd = TRUE
SPECIFICATION Spec
INVARIANTS TypeOK MutexOwner OneBestmovePerGo GoSlotFree NoHang NoCrash
PROPERTIES MainReturns GoAnswered
