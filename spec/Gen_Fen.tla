------------------------------- MODULE Gen_Fen -------------------------------
(***************************************************************************)
(* C06 direction B: TLC enumerates, for every base position, its canonical *)
(* FEN text (written by the specification) and systematic corruptions of   *)
(* it: rank widths (wider / narrower, with and without compensation in     *)
(* another rank so that the total stays 64), digits 0 and 9, nine / seven  *)
(* ranks, counters at and beyond the integer limits, missing / extra /     *)
(* duplicated fields, doubled / leading / trailing blanks, tabs, illegal   *)
(* letters in every field.  Each text is printed as a sequence of          *)
(* character codes; the harness feeds it to the real reader and the events *)
(* are judged by Trace_Fen.                                                *)
(***************************************************************************)
EXTENDS Fen, Json, IOUtils

CONSTANTS SHARD, NSHARDS, LEVEL     \* LEVEL 1 quick, 2 thorough

Roots == ndJsonDeserialize(IOEnv.ROOTS)
CastleSet(n) == {r \in 0..3 : (n \div (2 ^ r)) % 2 = 1}
RootPos(e) == [board |-> [i \in 1..64 |-> e.b[i]], stm |-> e.stm, castle |-> CastleSet(e.cr),
               ep |-> e.ep, hmc |-> e.hmc, plies |-> e.pl]

\* LitHmc: '0' | '7' | '99' | '100' | '150' | '4294967295' | '4294967296' | '99999999999' | '-1' | '+1' | '1x' | '00' | '007'
LitHmc == <<
    <<48>>,
    <<55>>,
    <<57, 57>>,
    <<49, 48, 48>>,
    <<49, 53, 48>>,
    <<52, 50, 57, 52, 57, 54, 55, 50, 57, 53>>,
    <<52, 50, 57, 52, 57, 54, 55, 50, 57, 54>>,
    <<57, 57, 57, 57, 57, 57, 57, 57, 57, 57, 57>>,
    <<45, 49>>,
    <<43, 49>>,
    <<49, 120>>,
    <<48, 48>>,
    <<48, 48, 55>> >>
\* LitFm: '0' | '1' | '2' | '50' | '2147483647' | '2147483648' | '2147483649' | '4294967295' | '4294967296' | '18446744073709551616' | '-1' | '1.5'
LitFm == <<
    <<48>>,
    <<49>>,
    <<50>>,
    <<53, 48>>,
    <<50, 49, 52, 55, 52, 56, 51, 54, 52, 55>>,
    <<50, 49, 52, 55, 52, 56, 51, 54, 52, 56>>,
    <<50, 49, 52, 55, 52, 56, 51, 54, 52, 57>>,
    <<52, 50, 57, 52, 57, 54, 55, 50, 57, 53>>,
    <<52, 50, 57, 52, 57, 54, 55, 50, 57, 54>>,
    <<49, 56, 52, 52, 54, 55, 52, 52, 48, 55, 51, 55, 48, 57, 53, 53, 49, 54, 49, 54>>,
    <<45, 49>>,
    <<49, 46, 53>> >>
\* LitRanks: '9' | '0' | '44p' | '8p' | 'p8' | 'pppppppp1' | 'ppppppppp' | '7' | '71' | '17' | 'K7k' | 'x7' | '4-3' | '' | '88'
LitRanks == <<
    <<57>>,
    <<48>>,
    <<52, 52, 112>>,
    <<56, 112>>,
    <<112, 56>>,
    <<112, 112, 112, 112, 112, 112, 112, 112, 49>>,
    <<112, 112, 112, 112, 112, 112, 112, 112, 112>>,
    <<55>>,
    <<55, 49>>,
    <<49, 55>>,
    <<75, 55, 107>>,
    <<120, 55>>,
    <<52, 45, 51>>,
    <<>>,
    <<56, 56>> >>
\* LitColours: 'W' | 'B' | '-' | 'wb' | 'white' | 'x'
LitColours == <<
    <<87>>,
    <<66>>,
    <<45>>,
    <<119, 98>>,
    <<119, 104, 105, 116, 101>>,
    <<120>> >>
\* LitCastles: 'KK' | 'kqKQ' | 'QK' | 'Kx' | '--' | 'KQkqK' | 'AHah' | '0' | 'k-'
LitCastles == <<
    <<75, 75>>,
    <<107, 113, 75, 81>>,
    <<81, 75>>,
    <<75, 120>>,
    <<45, 45>>,
    <<75, 81, 107, 113, 75>>,
    <<65, 72, 97, 104>>,
    <<48>>,
    <<107, 45>> >>
\* LitEps: 'e9' | 'i3' | 'e' | 'e33' | 'E3' | '33' | '-3' | 'a0' | 'h8' | 'e1'
LitEps == <<
    <<101, 57>>,
    <<105, 51>>,
    <<101>>,
    <<101, 51, 51>>,
    <<69, 51>>,
    <<51, 51>>,
    <<45, 51>>,
    <<97, 48>>,
    <<104, 56>>,
    <<101, 49>> >>

Out(op, cs) == PrintT("@@GEN " \o ToJson([op |-> op, cs |-> cs]))

RECURSIVE JoinR(_, _, _)
JoinR(parts, sep, i) == IF i > Len(parts) THEN <<>>
                        ELSE (IF i = 1 THEN <<>> ELSE sep) \o parts[i] \o JoinR(parts, sep, i + 1)
Join(parts, sep) == JoinR(parts, sep, 1)

Text(ts) == Join(ts, <<SP>>)
WithBoard(ts, rs) == [ts EXCEPT ![1] = Join(rs, <<SLASH>>)]

\* one square narrower: lower a trailing digit or drop the last character
Shrink(r) ==
    LET c == r[Len(r)]
    IN  IF c \in 50..56 THEN SubSeq(r, 1, Len(r) - 1) \o <<c - 1>> ELSE SubSeq(r, 1, Len(r) - 1)

Corruptions(p) ==
    LET cs == FenCodes(p)
        ts == Tokens(cs)
        rs == Split(ts[1], SLASH)
    IN  /\ Out("canonical", cs)
        /\ Out("no-counters", Text(SubSeq(ts, 1, 4)))
        /\ Out("no-fullmove", Text(SubSeq(ts, 1, 5)))
        \* rank widths
        /\ \A i \in 1..8 :
              /\ \A n \in 1..8 : Out("widen", Text(WithBoard(ts, [rs EXCEPT ![i] = @ \o <<48 + n>>])))
              /\ Out("widen-piece", Text(WithBoard(ts, [rs EXCEPT ![i] = @ \o <<80>>])))
              /\ Out("shrink", Text(WithBoard(ts, [rs EXCEPT ![i] = Shrink(@)])))
              /\ \A j \in 1..8 : i # j =>
                    /\ Out("compensate", Text(WithBoard(ts, [rs EXCEPT ![i] = @ \o <<49>>, ![j] = Shrink(@)])))
                    /\ (LEVEL >= 2 => Out("compensate-piece",
                              Text(WithBoard(ts, [rs EXCEPT ![i] = @ \o <<112>>, ![j] = Shrink(@)]))))
              /\ \A k \in 1..Len(LitRanks) : Out("rank-literal", Text(WithBoard(ts, [rs EXCEPT ![i] = LitRanks[k]])))
        \* number of ranks
        /\ Out("nine-ranks", Text(WithBoard(ts, rs \o << <<56>> >>)))
        /\ Out("seven-ranks", Text(WithBoard(ts, SubSeq(rs, 1, 7))))
        /\ Out("trailing-slash", Text([ts EXCEPT ![1] = @ \o <<SLASH>>]))
        /\ Out("leading-slash", Text([ts EXCEPT ![1] = <<SLASH>> \o @]))
        /\ Out("one-rank", Text([ts EXCEPT ![1] = rs[1]]))
        \* counters
        /\ \A k \in 1..Len(LitHmc) : Out("hmc", Text([ts EXCEPT ![5] = LitHmc[k]]))
        /\ \A k \in 1..Len(LitFm) : Out("fullmove", Text([ts EXCEPT ![6] = LitFm[k]]))
        /\ \A k \in 1..Len(LitFm) : Out("fullmove-black", Text([ts EXCEPT ![2] = <<98>>, ![6] = LitFm[k]]))
        \* fields
        /\ \A n \in 0..3 : Out("missing-fields", Text(SubSeq(ts, 1, n)))
        /\ Out("extra-field", Text(ts \o << <<49>> >>))
        /\ \A i \in 1..6 : Out("duplicated-field", Text(SubSeq(ts, 1, i) \o SubSeq(ts, i, 6)))
        /\ \A i \in 1..5 : Out("swapped-fields", Text([ts EXCEPT ![i] = ts[i + 1], ![i + 1] = ts[i]]))
        \* blanks
        /\ Out("double-blanks", Join(ts, <<SP, SP>>))
        /\ Out("leading-blank", <<SP>> \o cs)
        /\ Out("trailing-blanks", cs \o <<SP, SP>>)
        /\ Out("tabs", Join(ts, <<9>>))
        /\ Out("no-blanks", Join(ts, <<>>))
        /\ Out("newline", cs \o <<10>>)
        \* letters
        /\ \A k \in 1..Len(LitColours) : Out("colour", Text([ts EXCEPT ![2] = LitColours[k]]))
        /\ \A k \in 1..Len(LitCastles) : Out("castling", Text([ts EXCEPT ![3] = LitCastles[k]]))
        /\ \A k \in 1..Len(LitEps) : Out("ep", Text([ts EXCEPT ![4] = LitEps[k]]))
        /\ Out("empty", <<>>)

Run == \A i \in {x \in 1..Len(Roots) : x % NSHARDS = SHARD} : Corruptions(RootPos(Roots[i]))

ASSUME Run
VARIABLE x
Init == x = 0
Next == x' = x
=============================================================================
