------------------------------- MODULE Trace_Eval -------------------------------
(***************************************************************************)
(* C16 on recorded evaluations.  Event kinds:                              *)
(*  "pos"   position fields, ev (static evaluation from the side to move), *)
(*          mev (evaluation of the colour mirror; the mirror's board is    *)
(*          logged and validated here against Chess!Mirror), evmg / eveg   *)
(*          (the same position evaluated as pure middlegame / endgame),    *)
(*          phase, panic flags, evt (the position evaluated again after    *)
(*          its pawn-owner twins - same squares occupied, one pawn of the  *)
(*          other colour - have been evaluated in between)                 *)
(*  "blend" mg, eg, ph, out ("panic" flag) : PhasedEval::new(mg, eg)       *)
(*          .for_phase(ph)                                                 *)
(***************************************************************************)
EXTENDS Chess, EvalBlend, Json, IOUtils, Reporting

Rec == ndJsonDeserialize(IOEnv.TRACE)
N == Len(Rec)
CastleSet(n) == {r \in 0..3 : (n \div (2 ^ r)) % 2 = 1}
EvPos(e) == [board |-> [i \in 1..64 |-> e.b[i]], stm |-> e.stm, castle |-> CastleSet(e.cr),
             ep |-> e.ep, hmc |-> e.hmc, plies |-> e.pl]
MateThreshold == 31900
\* game phase from the board alone (knight, bishop 1; rook 2; queen 4), by the specification
RECURSIVE PhaseR(_, _)
PhaseR(b, i) == IF i > 64 THEN 0
                ELSE (CASE KindOf(b[i]) \in {Knight, Bishop} -> 1 [] KindOf(b[i]) = Rook -> 2
                        [] KindOf(b[i]) = Queen -> 4 [] OTHER -> 0) + PhaseR(b, i + 1)

PosClauses(i, e) ==
    LET p == EvPos(e)
    IN  /\ ViolAt([k \in 1..64 |-> e.mb[k]] = Mirror(p).board /\ e.mstm = Mirror(p).stm, "TRACE", i, "mirror-wrong", [fen |-> e.fen])
        /\ ViolAt(~e.panic, "C16", i, "eval-panic", [fen |-> e.fen, msg |-> e.msg])
        /\ IF e.panic THEN TRUE
           ELSE /\ ViolAt(e.ev = e.mev, "C16", i, "colour-asymmetry", [fen |-> e.fen, ev |-> e.ev, mirror |-> e.mev])
                /\ ViolAt(e.ev = e.evt, "C16", i, "evaluation-depends-on-what-was-evaluated-before",
                          [fen |-> e.fen, ev |-> e.ev, after_pawn_owner_twins |-> e.evt])
                /\ ViolAt(e.ev > -MateThreshold /\ e.ev < MateThreshold, "C16", i, "out-of-range", [fen |-> e.fen, ev |-> e.ev])
                /\ ViolAt(BlendPV(e.evmg, e.eveg, e.ev), "C16", i, "not-between-mg-and-eg",
                          [fen |-> e.fen, ev |-> e.ev, mg |-> e.evmg, eg |-> e.eveg, phase |-> e.phase])

BlendClauses(i, e) ==
    /\ ViolAt(~e.panic, "C16", i, "blend-panic", [mg |-> e.mg, eg |-> e.eg, ph |-> e.ph])
    /\ IF e.panic THEN TRUE
       ELSE /\ ViolAt(BlendPV(e.mg, e.eg, e.out), "C16", i, "blend-not-between", [mg |-> e.mg, eg |-> e.eg, ph |-> e.ph, out |-> e.out])
            /\ DriftAt(e.out = BlendCV(e.mg, e.eg, e.ph), "C16", i, "blend-formula", [mg |-> e.mg, eg |-> e.eg, ph |-> e.ph, out |-> e.out])

ASSUME \A i \in 1..N : IF Rec[i].t = "pos" THEN PosClauses(i, Rec[i]) ELSE BlendClauses(i, Rec[i])
ASSUME Stat("eval", [events |-> N,
                     positions |-> Cardinality({i \in 1..N : Rec[i].t = "pos"}),
                     over24 |-> Cardinality({i \in 1..N : Rec[i].t = "pos" /\ PhaseR(Rec[i].b, 1) > 24}),
                     blends |-> Cardinality({i \in 1..N : Rec[i].t = "blend"})])
VARIABLE x
Init == x = 0
Next == x' = x
=============================================================================
