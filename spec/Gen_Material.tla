----------------------------- MODULE Gen_Material -----------------------------
(***************************************************************************)
(* Direction B for C11 (dead material) and a position source for C16:      *)
(* all material signatures with up to MaxExtra non-king pieces of either   *)
(* colour on a fixed set of squares containing both square colours, with   *)
(* the kings in the corner, on the edge and in the centre.  Per position   *)
(* the rule book's PropertyView verdict (T must be declared insufficient,  *)
(* F must not, - silent) and the CodeView verdict are printed.             *)
(***************************************************************************)
EXTENDS Chess, Json, Reporting

CONSTANTS SHARD, NSHARDS, DENSITY, MaxExtra

Spots == <<9, 18, 21, 30, 42, 45, 52>>      \* b2 c3 f3 g4 c6 f6 e7 : light and dark squares
WK == {0, 3, 27}
BK == {63, 60, 36, 7}
PieceSet == {PieceOf(c, k) : c \in 0..1, k \in {Pawn, Knight, Bishop, Rook, Queen}}

Mask(cs) == 0
Emit(p) ==
    PrintT("@@GEN " \o ToJson([fam |-> "material", b |-> [i \in 1..64 |-> p.board[i]], stm |-> p.stm,
                               cr |-> 0, ep |-> -1, hmc |-> 0, pl |-> p.stm,
                               mvs |-> {PackMove(m) : m \in Legal(p)}, chk |-> InCheck(p),
                               ipv |-> InsufficientPV(p.board), icv |-> InsufficientCV(p)]))

PosWith(wk, bk, extra, stm) ==
    [board |-> [i \in 1..64 |->
                  IF i - 1 = wk THEN PieceOf(0, King)
                  ELSE IF i - 1 = bk THEN PieceOf(1, King)
                  ELSE IF \E j \in 1..Len(extra) : extra[j][1] = i - 1
                       THEN extra[CHOOSE j \in 1..Len(extra) : extra[j][1] = i - 1][2]
                       ELSE 0],
     stm |-> stm, castle |-> {}, ep |-> -1, hmc |-> 0, plies |-> stm]

Try(wk, bk, extra) ==
    \A stm \in 0..1 :
        LET p == PosWith(wk, bk, extra, stm)
        IN  IF LegalPosition(p) THEN Emit(p) ELSE TRUE

Keep(a, b) == DENSITY = 1 \/ (a * 7 + b * 13) % DENSITY = 0

Run ==
    \A wk \in WK : \A bk \in BK :
      /\ (SHARD = 0 => Try(wk, bk, <<>>))
      /\ \A i \in {x \in 1..Len(Spots) : x % NSHARDS = SHARD} : \A p1 \in PieceSet :
           /\ Try(wk, bk, << <<Spots[i], p1>> >>)
           /\ IF MaxExtra >= 2
              THEN \A j \in (i + 1)..Len(Spots) : \A p2 \in {q \in PieceSet : Keep(p1, q + j)} :
                     /\ Try(wk, bk, << <<Spots[i], p1>>, <<Spots[j], p2>> >>)
                     /\ IF MaxExtra >= 3
                        THEN \A k \in (j + 1)..Len(Spots) : \A p3 \in {q \in PieceSet : Keep(p2, q + k)} :
                               Try(wk, bk, << <<Spots[i], p1>>, <<Spots[j], p2>>, <<Spots[k], p3>> >>)
                        ELSE TRUE
              ELSE TRUE

ASSUME Run
VARIABLE x
Init == x = 0
Next == x' = x
=============================================================================
