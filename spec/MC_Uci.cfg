\* The repaired code: latch cleared when a search is started, Hash minimum 1.
CONSTANTS ResetOnGo = TRUE MaxCmds = 0 HashMinZero = FALSE InfiniteMayEnd = TRUE
SPECIFICATION Spec
INVARIANTS TypeOK MutexOwner OneBestmovePerGo GoSlotFree NoHang NoCrash
PROPERTIES MainReturns GoAnswered
