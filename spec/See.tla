--------------------------------- MODULE See ---------------------------------
(***************************************************************************)
(* Static exchange evaluation as a swap list: after the capture the sides  *)
(* alternately recapture on the target square with a least valuable        *)
(* attacker; attackers are recomputed geometrically on the changing board, *)
(* so x-ray attackers appear by themselves; a king may capture only if no  *)
(* enemy attacker remains; either side may stop.  The value is the negamax *)
(* of the gains.  TIES between equally valued least attackers are a        *)
(* non-deterministic choice, hence a SET of verdicts.                      *)
(* Abstractions shared with the engine and stated here: pins are ignored,  *)
(* no promotion happens during the exchange, en passant is excluded.       *)
(***************************************************************************)
EXTENDS Chess

Val(k) == CASE k = Pawn -> 100 [] k \in {Knight, Bishop} -> 300 [] k = Rook -> 500
            [] k = Queen -> 900 [] k = King -> 10000 [] OTHER -> 0
Max2(a, b) == IF a >= b THEN a ELSE b
MinOver(S) == CHOOSE x \in S : \A y \in S : x <= y

\* Symmetry reduction of the tie choice.  A least attacker is QUIET when lifting it off the board uncovers no further
\* attacker of either colour.  That stays true for the rest of the exchange: the first man behind it on the line from the
\* target is either missing or no slider of that line, such a man is no attacker at all (a man stands on at most one line
\* through the target; knights stand on none) and therefore never leaves.  Two quiet candidates of one value lead to
\* boards that differ only in which of them is left, still quiet and of the same value: the exchange values are the
\* same.  So one quiet candidate stands for all of them; every candidate with something behind it is still tried.
\* (Without this the order of n equal minor pieces a side costs n! * n! paths: exchanges of 17+ captures never finish.)
BothAttackers(bd, t) == AttackersOf(bd, t, 0) \cup AttackersOf(bd, t, 1)
Quiet(bd, t, a) == BothAttackers([bd EXCEPT ![a + 1] = 0], t) = BothAttackers(bd, t) \ {a}
Picks(bd, t, cands) ==
    IF Cardinality(cands) <= 1 THEN cands
    ELSE LET q == {a \in cands : Quiet(bd, t, a)}
         IN  IF q = {} THEN cands ELSE (cands \ q) \cup {CHOOSE a \in q : TRUE}

\* values side c can obtain by (optionally) capturing the piece standing on t
RECURSIVE ExchVals(_, _, _)
ExchVals(bd, t, c) ==
    LET att == AttackersOf(bd, t, c)
    IN  IF att = {} THEN {0}
        ELSE LET minv  == MinOver({Val(KindOf(At(bd, a))) : a \in att})
                 cands == {a \in att : Val(KindOf(At(bd, a))) = minv}
                 picks == Picks(bd, t, cands)
                 vict  == Val(KindOf(At(bd, t)))
             IN  UNION {
                   IF KindOf(At(bd, a)) = King /\ AttackersOf(bd, t, Other(c)) # {}
                   THEN {0}
                   ELSE LET nb == [bd EXCEPT ![a + 1] = 0, ![t + 1] = bd[a + 1]]
                        IN  {Max2(0, vict - v) : v \in ExchVals(nb, t, Other(c))}
                   : a \in picks}

\* The same without the reduction (every equally valued least attacker is tried).  Trace_See compares the two on every
\* capture of the families whose tie sets are small (IOEnv.SEE_FULL = "1"): the argument for Picks is checked, not trusted.
RECURSIVE ExchValsFull(_, _, _)
ExchValsFull(bd, t, c) ==
    LET att == AttackersOf(bd, t, c)
    IN  IF att = {} THEN {0}
        ELSE LET minv  == MinOver({Val(KindOf(At(bd, a))) : a \in att})
                 cands == {a \in att : Val(KindOf(At(bd, a))) = minv}
                 vict  == Val(KindOf(At(bd, t)))
             IN  UNION {
                   IF KindOf(At(bd, a)) = King /\ AttackersOf(bd, t, Other(c)) # {}
                   THEN {0}
                   ELSE LET nb == [bd EXCEPT ![a + 1] = 0, ![t + 1] = bd[a + 1]]
                        IN  {Max2(0, vict - v) : v \in ExchValsFull(nb, t, Other(c))}
                   : a \in cands}
SeeValuesFull(pos, m) ==
    LET b  == pos.board
        c  == pos.stm
        v0 == Val(KindOf(At(b, m.to))) + (IF m.promo # 0 THEN Val(m.promo) - Val(Pawn) ELSE 0)
        nb == BoardAfter(b, m, c)
    IN  {v0 - e : e \in ExchValsFull(nb, m.to, Other(c))}

\* m: a capture (kind 1), possibly promoting.  Set of possible exchange values for the mover.
SeeValues(pos, m) ==
    LET b  == pos.board
        c  == pos.stm
        v0 == Val(KindOf(At(b, m.to))) + (IF m.promo # 0 THEN Val(m.promo) - Val(Pawn) ELSE 0)
        nb == BoardAfter(b, m, c)
    IN  {v0 - e : e \in ExchVals(nb, m.to, Other(c))}

SeeVerdicts(pos, m) == {v >= 0 : v \in SeeValues(pos, m)}

Undefended(pos, m) == ~Attacked(BoardAfter(pos.board, m, pos.stm), m.to, Other(pos.stm))
CapturedAtLeastCapturer(pos, m) ==
    Val(KindOf(At(pos.board, m.to))) >= Val(KindOf(At(pos.board, m.from)))
=============================================================================
