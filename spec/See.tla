--------------------------------- MODULE See ---------------------------------
(***************************************************************************)
(* Static exchange evaluation as a swap list: after the capture the sides  *)
(* alternately recapture on the target square with a least valuable        *)
(* attacker; attackers are recomputed geometrically on the changing board, *)
(* so x-ray attackers appear by themselves; a king may capture only if no  *)
(* enemy attacker remains; either side may stop.  The value is the negamax *)
(* of the gains.  TIES between equally valued least attackers are a        *)
(* non-deterministic choice, hence a SET of verdicts.                      *)
(* Abstractions shared with the engine and stated here: pins are ignored,  *)
(* no promotion happens during the exchange, en passant is excluded.       *)
(***************************************************************************)
EXTENDS Chess

Val(k) == CASE k = Pawn -> 100 [] k \in {Knight, Bishop} -> 300 [] k = Rook -> 500
            [] k = Queen -> 900 [] k = King -> 10000 [] OTHER -> 0
Max2(a, b) == IF a >= b THEN a ELSE b
MinOver(S) == CHOOSE x \in S : \A y \in S : x <= y

\* values side c can obtain by (optionally) capturing the piece standing on t
RECURSIVE ExchVals(_, _, _)
ExchVals(bd, t, c) ==
    LET att == AttackersOf(bd, t, c)
    IN  IF att = {} THEN {0}
        ELSE LET minv  == MinOver({Val(KindOf(At(bd, a))) : a \in att})
                 cands == {a \in att : Val(KindOf(At(bd, a))) = minv}
                 vict  == Val(KindOf(At(bd, t)))
             IN  UNION {
                   IF KindOf(At(bd, a)) = King /\ AttackersOf(bd, t, Other(c)) # {}
                   THEN {0}
                   ELSE LET nb == [bd EXCEPT ![a + 1] = 0, ![t + 1] = bd[a + 1]]
                        IN  {Max2(0, vict - v) : v \in ExchVals(nb, t, Other(c))}
                   : a \in cands}

\* m: a capture (kind 1), possibly promoting.  Set of possible exchange values for the mover.
SeeValues(pos, m) ==
    LET b  == pos.board
        c  == pos.stm
        v0 == Val(KindOf(At(b, m.to))) + (IF m.promo # 0 THEN Val(m.promo) - Val(Pawn) ELSE 0)
        nb == BoardAfter(b, m, c)
    IN  {v0 - e : e \in ExchVals(nb, m.to, Other(c))}

SeeVerdicts(pos, m) == {v >= 0 : v \in SeeValues(pos, m)}

Undefended(pos, m) == ~Attacked(BoardAfter(pos.board, m, pos.stm), m.to, Other(pos.stm))
CapturedAtLeastCapturer(pos, m) ==
    Val(KindOf(At(pos.board, m.to))) >= Val(KindOf(At(pos.board, m.from)))
=============================================================================
