\* Grid run (quick density, one shard).  The driver writes variants of this file (Dense, shards) and the
\* configuration of the timed run (SPECIFICATION TimedSpec, measured MaxPollGap) into out/C14.
CONSTANTS
  Dense = FALSE
  Shard = 0
  NShards = 1
  MaxPollGap = 1
  StartLat = 0
  RetLat = 0
  RemChoices = {1}
  DenseSoft = FALSE
SPECIFICATION GSpec
INVARIANT CodeImpliesProperty
INVARIANT NoCrashInDomain
INVARIANT SoftNeverAboveHard
INVARIANT Normalised
CHECK_DEADLOCK FALSE
