---------------------------- MODULE KeyAlgebraProof ----------------------------
(***************************************************************************)
(* TLAPS proofs (unbounded) of the set algebra behind the key model of     *)
(* ChessGame.tla (C03): XOR of independent words is symmetric difference   *)
(* of component sets.                                                      *)
(***************************************************************************)
EXTENDS TLAPS

SD(A, B) == (A \ B) \cup (B \ A)

\* toggling a component twice restores the key (take-back of a placement)
THEOREM ToggleTwice == ASSUME NEW K, NEW x PROVE SD(SD(K, {x}), {x}) = K
BY DEF SD

\* toggles commute (the order of the micro-steps of make_move does not matter for the key)
THEOREM ToggleCommute == ASSUME NEW K, NEW x, NEW y PROVE SD(SD(K, {x}), {y}) = SD(SD(K, {y}), {x})
BY DEF SD

\* set_en_passant(old, new): exactly one en-passant component stays in the key
THEOREM EpSwap ==
    ASSUME NEW K, NEW old, NEW new, old \in K, new \notin K \/ new = old
    PROVE  SD(SD(K, {old}), {new}) = (K \ {old}) \cup {new}
BY DEF SD

\* moving a piece: remove (p, from), add (p, to)
THEOREM MovePiece ==
    ASSUME NEW K, NEW a, NEW b, a \in K, b \notin K, a # b
    PROVE  SD(SD(K, {a}), {b}) = (K \ {a}) \cup {b}
BY DEF SD
=============================================================================
