------------------------- MODULE Trace_TableInSearch -------------------------
(***************************************************************************)
(* C19 inside the real tree search (binding direction A, hook H9).         *)
(*                                                                         *)
(* `harness nodes <jobs> <events> <table-events>` records every operation  *)
(* the search performs on its transposition table during whole SESSIONS of *)
(* searches sharing one table: `probe` with what `get` returned, `insert`  *)
(* with what the search handed in, `newsearch`, and the harness's own      *)
(* `new` / `reset` of the persistent state - each with the slot index the  *)
(* real table computed.  Slots are independent of one another, so the      *)
(* harness writes the operations of a bounded set of slots (all slots on   *)
(* which different keys met, then the busiest ones).                       *)
(*                                                                         *)
(* The trace is a behaviour of TransTable's OWN actions: every line takes  *)
(* the step  Insert(k, d) / Probe(k) / NewSearch / Reset / New(n)  of the  *)
(* CodeView, and next to it a set-valued PropertyView state `poss` is      *)
(* carried: per slot the entries the statement of C19 allows to be there   *)
(* (Allowed: an earlier search's entry must give way, an exact entry of    *)
(* the same search must stay unless the new one is exact or deeper,        *)
(* otherwise either).  A probe is judged twice:                            *)
(*     PropertyView  what `get` returned is what SOME allowed content of   *)
(*                   the slot returns for this key         else  VIOL C19  *)
(*     CodeView      it is what the CodeView table returns else  DRIFT     *)
(* and after a CodeView mismatch the named deviation AdoptProbe continues  *)
(* from what was observed, so that the rest of the trace is examined.      *)
(* The data the search hands in must carry the table's current generation  *)
(* (CodeView of negamax: `age: ctx.tt.generation`), and a key must keep    *)
(* its slot while the table keeps its size (TRACE sanity).                 *)
(***************************************************************************)
EXTENDS TransTable, TLC, Json, IOUtils, Reporting

VARIABLES l, poss, acc
tvars == <<slot, search, occupied, size, bulk, st, ret, l, poss, acc>>

Rec == ndJsonDeserialize(IOEnv.TRACE)
Hd  == Rec[1]
NEv == Len(Rec)

\* constants of TransTable: the size setting IS the number of slots; a key id names (key, number of slots)
TKeys == 1..Len(Hd.slot)
TN(sz) == sz
TSlotOf(id, n) == Hd.slot[id]
TGenMod == 256
TChecked == FALSE

Viol(c, what, detail)  == ViolAt(c, "C19", l, what, detail)
Drift(c, what, detail) == DriftAt(c, "C19", l, what, detail)

ObsData(x) == [bound |-> x[1], depth |-> x[2], age |-> x[3], tag |-> x[4], mv |-> x[5]]
InsData(x) == [bound |-> x[1], depth |-> x[2], tag |-> x[4], mv |-> x[5]]
Logged(e)  == IF e.hit THEN ObsData(e.r) ELSE NoData
\* what a probe for k returns when the slot holds o
ProbeData(o, k) == IF o # None /\ o.key = k THEN Data(o) ELSE NoData
Brief(x) == IF x = None THEN <<>> ELSE <<x.key, x.bound, x.depth, x.search, x.tag>>
AllNone == [s \in Dom(size') |-> {None}]

IsEvent(op) == l <= NEv /\ Rec[l].op = op /\ l' = l + 1
Count(f) == acc' = [acc EXCEPT ![f] = @ + 1]
Count2(f, g) == acc' = [acc EXCEPT ![f] = @ + 1, ![g] = @ + 1]

TraceNew ==
    /\ IsEvent("new")
    /\ New(Rec[l].slots)
    /\ poss' = AllNone
    /\ Count("tables")

TraceReset ==
    /\ IsEvent("reset")
    /\ Reset
    /\ poss' = AllNone
    /\ Count("resets")

\* `resize(mb)` of the Hash option handler between two searches; the event carries the number of slots afterwards
TraceResize ==
    /\ IsEvent("resize")
    /\ Resize(Rec[l].slots)
    /\ poss' = IF Rec[l].slots = size THEN poss ELSE AllNone
    /\ Count("resizes")

\* a panic inside a search or inside resize: "keeps working for every advertised size and for any number of searches".
\* The harness abandons the session; the next line starts a new table.
TracePanic ==
    /\ IsEvent("panic")
    /\ Viol(FALSE, "crash-inside-a-session", [during |-> Rec[l].during, msg |-> Rec[l].msg, size |-> size, search |-> search])
    /\ Crash([op |-> "panic"])
    /\ UNCHANGED poss
    /\ Count("panics")

TraceNewSearch ==
    /\ IsEvent("newsearch")
    /\ NewSearch
    /\ Drift(Rec[l].gen = search' % GenMod, "generation", [gen |-> Rec[l].gen, search |-> search'])
    /\ UNCHANGED poss
    /\ Count("newsearches")

TraceInsert ==
    /\ IsEvent("insert")
    /\ LET e   == Rec[l]
           s   == e.s
           d   == InsData(e.d)
           new == Entry(e.k, d, search)
       IN  /\ ViolAt(e.n = size /\ TSlotOf(e.k, size) = s, "TRACE", l, "key-changed-slot", [k |-> e.k, s |-> s, n |-> e.n])
           /\ Insert(e.k, d)
           /\ Drift(e.d[3] = Gen /\ e.gen = Gen, "search-stamps-another-generation",
                    [stamped |-> e.d[3], table |-> e.gen, model |-> Gen])
           /\ poss' = [poss EXCEPT ![s] = UNION {Allowed(o, new) : o \in poss[s]}]
           /\ LET old == slot[s]
              IN  IF old = None THEN Count("inserts")
                  ELSE IF MustAdmit(old, new) THEN Count2("inserts", "forced")
                  ELSE IF MustKeep(old, new) THEN Count2("inserts", "forbidden")
                  ELSE IF old.key # e.k THEN Count2("inserts", "free_other_key")
                  ELSE Count2("inserts", "free")

\* After every search the harness reads the table's counter of filled slots and its fill indicator, and says how many
\* slots received an insert since the table was last emptied (all slots, `untracked` of them outside the tracked ones:
\* the model's `bulk`).  "The fill indicator equals the fraction of occupied slots": PropertyView; the counter: CodeView.
TraceFill ==
    /\ IsEvent("fill")
    /\ LET e == Rec[l]
       IN  \* (after an adoption the model's table holds entries no recorded insert made: the bookkeeping is no longer comparable)
           /\ ViolAt(acc.adopted > 0 \/ e.filled = Filled(slot) + e.untracked, "TRACE", l, "filled-slots-of-the-harness-and-of-the-model-differ",
                     [harness |-> e.filled, untracked |-> e.untracked, model |-> Filled(slot)])
           /\ Viol(acc.adopted > 0 \/ PermilleOK(e.pm, slot, e.untracked, N(size)), "fill-indicator-after-a-search",
                   [permille |-> e.pm, filled |-> e.filled, slots |-> N(size)])
           /\ Drift(acc.adopted > 0 \/ e.occ = e.filled, "occupied-counter", [occupied |-> e.occ, filled |-> e.filled])
    /\ UNCHANGED <<slot, search, occupied, size, bulk, st, ret, poss>>
    /\ Count("fills")

\* a probe whose answer is the CodeView's: the action Probe itself
TraceProbe ==
    /\ IsEvent("probe")
    /\ LET e == Rec[l]
           s == e.s
       IN  /\ Logged(e) = ProbeOf(slot, e.k, N(size))
           /\ ViolAt(e.n = size /\ TSlotOf(e.k, size) = s, "TRACE", l, "key-changed-slot", [k |-> e.k, s |-> s, n |-> e.n])
           /\ Probe(e.k)
           /\ Viol(PvD(Logged(e)) \in {PvD(ProbeData(o, e.k)) : o \in poss[s]}, "probe-returns-what-the-policy-never-admitted",
                   [key |-> e.k, slot |-> s, search |-> search, got |-> e.r, allowed |-> {Brief(o) : o \in poss[s]}])
           \* what was seen narrows what the slot can hold
           /\ poss' = [poss EXCEPT ![s] = LET c == {o \in @ : PvD(ProbeData(o, e.k)) = PvD(Logged(e))} IN IF c = {} THEN {slot[s]} ELSE c]
           /\ IF e.hit THEN (IF slot[s].search < search THEN Count2("probes", "hits_earlier_search") ELSE Count2("probes", "hits"))
              ELSE IF slot[s] # None THEN Count2("probes", "misses_other_key") ELSE Count("probes")

\* NAMED DEVIATION: the real table answered differently from the CodeView table.  Judged by the PropertyView, reported as
\* drift, and the model continues from an entry that explains the answer (its ghost search number: the latest search
\* whose generation is the observed age).
AdoptProbe ==
    /\ IsEvent("probe")
    /\ LET e == Rec[l]
           s == e.s
           x == Logged(e)
           g == IF ~e.hit THEN None
                ELSE [key |-> e.k, bound |-> x.bound, depth |-> x.depth, age |-> x.age,
                      search |-> search - ((search - x.age) % GenMod), tag |-> x.tag, mv |-> x.mv]
       IN  /\ Logged(e) # ProbeOf(slot, e.k, N(size))
           /\ ViolAt(e.n = size /\ TSlotOf(e.k, size) = s, "TRACE", l, "key-changed-slot", [k |-> e.k, s |-> s, n |-> e.n])
           /\ Viol(PvD(x) \in {PvD(ProbeData(o, e.k)) : o \in poss[s]},
                   IF e.hit /\ ~\E j \in 1..(l - 1) : Rec[j].op = "insert" /\ Rec[j].k = e.k /\ InsData(Rec[j].d) = InsData(e.r)
                   THEN "probe-returns-data-never-stored-under-this-key"
                   ELSE "probe-returns-what-the-policy-never-admitted",
                   [key |-> e.k, slot |-> s, search |-> search, got |-> e.r, allowed |-> {Brief(o) : o \in poss[s]}])
           /\ Drift(FALSE, "codeview-probe", [key |-> e.k, slot |-> s, got |-> e.r, model |-> Brief(slot[s]), search |-> search])
           /\ slot' = [slot EXCEPT ![s] = g]
           /\ poss' = [poss EXCEPT ![s] = {g}]
           /\ ret' = [op |-> "probe", k |-> e.k, res |-> x]
           /\ UNCHANGED <<search, occupied, size, bulk, st>>
           /\ Count2("probes", "adopted")

Zero == [fills |-> 0, panics |-> 0, resizes |-> 0, tables |-> 0, resets |-> 0, newsearches |-> 0, inserts |-> 0, forced |-> 0, forbidden |-> 0, free |-> 0,
         free_other_key |-> 0, probes |-> 0, hits |-> 0, hits_earlier_search |-> 0, misses_other_key |-> 0, adopted |-> 0]

TraceInit ==
    /\ l = 2 /\ acc = Zero
    /\ InitWith(0)
    /\ poss = [s \in Dom(0) |-> {None}]

TraceFinish ==
    /\ l = NEv + 1 /\ l' = l + 1
    /\ Stat("tablecounts", acc)
    /\ UNCHANGED <<slot, search, occupied, size, bulk, st, ret, poss, acc>>

TraceNext == TraceNew \/ TraceReset \/ TraceNewSearch \/ TraceInsert \/ TraceProbe \/ AdoptProbe \/ TraceFill \/ TraceResize \/ TracePanic \/ TraceFinish
TraceSpec == TraceInit /\ [][TraceNext]_tvars

\* the CodeView invariants of TransTable hold along the trace (the model is TransTable's own)
\* (a crash is reported by TracePanic, so NoCrash is not repeated here)
TraceInv == NoConfusion /\ AgeIsSearchMod /\ NoFutureEntry

ASSUME ViolAt(Hd.op = "pool" /\ NEv >= 2 /\ Rec[2].op = "new", "TRACE", 1, "malformed-trace", NEv)

TraceAccepted ==
    /\ Stat("tableinsearch", [events |-> NEv - 1, diameter |-> TLCGet("stats").diameter, keys |-> Len(Hd.slot),
                              slots |-> Cardinality({Hd.slot[i] : i \in 1..Len(Hd.slot)})])
    /\ TLCGet("stats").diameter = NEv + 1
=============================================================================
