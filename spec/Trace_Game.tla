------------------------------ MODULE Trace_Game ------------------------------
(***************************************************************************)
(* Trace validation of recorded engine executions (harness `walk`) against *)
(* ChessGame.  Every event is one public operation of the engine's Game    *)
(* (load / make / null / undo / undonull) with the full projected state    *)
(* after it.  Each trace action is the corresponding ChessGame action; the *)
(* logged state must equal the action's successor state, and every         *)
(* PropertyView clause served by this engine is evaluated on every step:   *)
(*   C01 move list and check verdict    C02 successor / undo / three views *)
(*   C03 key                            C06 FEN writer                     *)
(*   C11 repetition, fifty, material    C15 accumulators                   *)
(* A failing PropertyView clause prints  <<"VIOL", id, line, ...>>, a      *)
(* failing CodeView clause <<"DRIFT", ...>>.  After a mismatch the named   *)
(* deviation action Resync adopts the logged state so that the rest of the *)
(* trace is still examined.                                                *)
(***************************************************************************)
EXTENDS ChessGame, Json, IOUtils, Bitwise, Reporting

VARIABLE l
tvars == <<pos, stack, key, acc, views, l>>

Rec == ndJsonDeserialize(IOEnv.TRACE)
Tab == ndJsonDeserialize(IOEnv.TABLES)[1]
N == Len(Rec)

(***************************************************************************)
(* Word tables read out of the running engine                              *)
(***************************************************************************)
XorL(a, b) == <<a[1] ^^ b[1], a[2] ^^ b[2], a[3] ^^ b[3], a[4] ^^ b[4]>>
Word(i) ==
    IF i <= 768 THEN Tab.z.pc[i]
    ELSE IF i <= 772 THEN Tab.z.cr[i - 768]
    ELSE IF i <= 836 THEN XorL(Tab.z.noep, Tab.z.epd[i - 772])
    ELSE IF i = 837 THEN Tab.z.noep
    ELSE Tab.z.stm

RECURSIVE XorSet(_)
XorSet(S) == IF S = {} THEN <<0, 0, 0, 0>>
             ELSE LET x == CHOOSE y \in S : TRUE IN XorL(Word(x), XorSet(S \ {x}))

RECURSIVE SumTab(_, _)
SumTab(S, t) == IF S = {} THEN 0
                ELSE LET x == CHOOSE y \in S : TRUE IN t[x] + SumTab(S \ {x}, t)

(***************************************************************************)
(* Reading an event                                                        *)
(***************************************************************************)
CastleSet(n) == {r \in 0..3 : (n \div (2 ^ r)) % 2 = 1}
Seq2Set(s) == {s[i] : i \in 1..Len(s)}

EvPos(e) == [board |-> [i \in 1..64 |-> e.b[i]], stm |-> e.stm, castle |-> CastleSet(e.cr),
             ep |-> e.ep, hmc |-> e.hmc, plies |-> e.pl]

EvViews(e) == [kinds |-> [k \in 1..6 |-> Seq2Set(e.bk[k])],
               cols  |-> [c \in 0..1 |-> Seq2Set(e.bc[c + 1])]]

Sane(p) == /\ Cardinality(SquaresOf(p.board, PieceOf(0, King))) = 1
           /\ Cardinality(SquaresOf(p.board, PieceOf(1, King))) = 1

Viol(c, id, what, detail) == ViolAt(c, id, l, what, detail)
Drift(c, id, what, detail) == DriftAt(c, id, l, what, detail)

(***************************************************************************)
(* Clauses evaluated on the state p the specification expects after the    *)
(* step (st is the stack after the step).                                  *)
(***************************************************************************)
StepClauses(e, p, st, k, a, v) ==
    LET legal  == Legal(p)
        packed == {PackMove(m) : m \in legal}
        logged == Seq2Set(e.mvs)
        rep    == RepeatedPV(p, st)
        ipv    == InsufficientPV(p.board)
    IN  /\ Viol(logged = packed, "C01", "movelist",
                [fen |-> e.fen, missing |-> packed \ logged, extra |-> logged \ packed])
        /\ Viol(Len(e.mvs) = Cardinality(logged), "C01", "duplicate", [fen |-> e.fen])
        /\ Viol(e.chk = InCheck(p), "C01", "check", [fen |-> e.fen])
        \* three views: each logged view against the specification's board
        /\ Viol(EvViews(e) = FullViews(p.board), "C02", "views", [fen |-> e.fen])
        /\ Drift(EvViews(e) = v, "C02", "views-cv", [fen |-> e.fen])
        /\ Viol(e.hl = Len(st), "C02", "history-length", [fen |-> e.fen])
        \* key: carried key = from-scratch key; and = XOR of the real words the spec selects
        /\ Viol(e.key = e.keys, "C03", "incremental-vs-scratch", [fen |-> e.fen])
        /\ Drift(<<e.key[1], e.key[2], e.key[3], e.key[4]>> = XorSet(k), "C03", "words-cv", [fen |-> e.fen])
        /\ Drift(<<e.key[1], e.key[2], e.key[3], e.key[4]>> = XorSet(FullKey(p)), "C03", "words", [fen |-> e.fen])
        \* accumulators
        /\ Viol(<<e.ph, e.mg, e.eg>> = <<e.phs, e.mgs, e.egs>>, "C15", "incremental-vs-scratch",
                [fen |-> e.fen, inc |-> <<e.ph, e.mg, e.eg>>, scratch |-> <<e.phs, e.mgs, e.egs>>])
        /\ Drift(e.mg = SumTab(a.bag, Tab.e.mg) /\ e.eg = SumTab(a.bag, Tab.e.eg)
                 /\ e.ph = a.phase, "C15", "table-sum", [fen |-> e.fen])
        /\ Viol(~e.evp, "C16", "eval-panic", [fen |-> e.fen])
        \* whatever the evaluation maintains incrementally (known to this specification or not): the live game evaluates
        \* like the same position set up afresh
        /\ Viol(e.evp \/ e.ev = e.evs, "C15", "evaluation-of-the-live-game-differs-from-the-position-set-up-afresh",
                [fen |-> e.fen, live |-> e.ev, fresh |-> e.evs])
        \* static exchange evaluation is a function of the position: the live game and the position set up afresh agree
        /\ Viol(e.seel = e.seef, "C20", "exchange-verdict-depends-on-how-the-position-was-reached",
                [fen |-> e.fen, live |-> e.seel, fresh |-> e.seef])
        \* FEN writer
        /\ Viol(e.fen = FenOf(p), "C06", "writer", [got |-> e.fen, want |-> FenOf(p)])
        \* draws
        /\ IF NullFree(st)
           THEN Viol(e.rep = rep, "C11", "repetition", [fen |-> e.fen, want |-> rep])
           ELSE Viol(e.rep => EarlierIdentical(p, st), "C11", "repetition-sound", [fen |-> e.fen])
        /\ Viol(e.fifty = (p.hmc >= 100 /\ legal # {}), "C11", "fifty", [fen |-> e.fen])
        /\ Viol((ipv = "T" => e.insuf) /\ (ipv = "F" => ~e.insuf), "C11", "material", [fen |-> e.fen])
        /\ Drift(e.insuf = InsufficientCV(p), "C11", "material-cv", [fen |-> e.fen])

\* The logged position must be the one the specification reaches (C02).  PropertyView of a
\* null move fixes placement, side and rights only.
SamePos(e, p, op) ==
    IF op = "null"
    THEN /\ Viol(EvPos(e).board = p.board /\ e.stm = p.stm /\ CastleSet(e.cr) = p.castle,
                 "C02", "null", [fen |-> e.fen, want |-> FenOf(p)])
         /\ Drift(EvPos(e) = p, "C02", "null-cv", [fen |-> e.fen, want |-> FenOf(p)])
    ELSE Viol(EvPos(e) = p, "C02", op, [fen |-> e.fen, want |-> FenOf(p)])

\* Named deviation: adopt the logged state.
Adopt(e, st) ==
    LET p == EvPos(e)
    IN  /\ pos' = p
        /\ key' = FullKey(p)
        /\ acc' = FullAcc(p)
        /\ views' = FullViews(p.board)
        /\ stack' = st

(***************************************************************************)
(* Trace actions                                                           *)
(***************************************************************************)
IsEvent(op) == l <= N /\ Rec[l].op = op /\ l' = l + 1

TraceLoad ==
    /\ IsEvent("load")
    /\ LET e == Rec[l]
           p == EvPos(e)
       IN  /\ Load(p)
           /\ Viol(Sane(p) /\ LegalPosition(p), "ROOT", "illegal-root", [fen |-> e.fen])
           /\ StepClauses(e, p, <<>>, FullKey(p), FullAcc(p), FullViews(p.board))

TraceMake ==
    /\ IsEvent("make")
    /\ LET e == Rec[l]
           m == UnpackMove(e.mv)
       IN  IF m \in Legal(pos)
           THEN LET r  == MakeCV(m)
                    xp == Make(pos, m)            \* PropertyView successor
                    st == Append(stack, r.saved)
                IN  /\ Drift(r.pos = xp, "C02", "makecv-vs-rules", [fen |-> e.fen])
                    /\ SamePos(e, xp, "make")
                    /\ IF EvPos(e) = r.pos
                       THEN Apply(r)                 \* = Move(m), m \in Legal(pos) established
                       ELSE Adopt(e, st)
                    /\ IF Sane(EvPos(e))
                       THEN StepClauses(e, EvPos(e), st, r.key, r.acc, r.views)
                       ELSE TRUE
           ELSE /\ Viol(FALSE, "C01", "played-illegal-move", [fen |-> e.fen, mv |-> e.mv])
                /\ Adopt(e, Append(stack, [pos |-> pos, key |-> key, acc |-> acc, mv |-> m,
                                           captured |-> At(pos.board, m.to)]))

TraceNull ==
    /\ IsEvent("null")
    /\ LET e  == Rec[l]
           r  == NullCV
           xp == r.pos
           st == Append(stack, r.saved)
       IN  /\ SamePos(e, xp, "null")
           /\ IF EvPos(e) = xp /\ ~InCheck(pos) THEN Null ELSE Adopt(e, st)
           /\ IF Sane(EvPos(e))
              THEN StepClauses(e, EvPos(e), st,
                               IF EvPos(e) = xp THEN r.key ELSE FullKey(EvPos(e)), acc, views)
              ELSE TRUE

TraceUndo ==
    /\ IsEvent("undo")
    /\ LET e == Rec[l]
       IN  IF stack # <<>> /\ stack[Len(stack)].mv.kind # -1
           THEN LET h  == stack[Len(stack)]
                    st == SubSeq(stack, 1, Len(stack) - 1)
                    r  == UndoCV
                IN  /\ SamePos(e, h.pos, "undo")          \* every field restored
                    /\ Drift(r.pos = h.pos, "C02", "undocv", [fen |-> e.fen])
                    /\ IF EvPos(e) = r.pos THEN Undo ELSE Adopt(e, st)
                    /\ IF Sane(EvPos(e))
                       THEN StepClauses(e, EvPos(e), st, h.key, h.acc, r.views)
                       ELSE TRUE
           ELSE /\ Viol(FALSE, "TRACE", "undo-without-move", l)
                /\ Adopt(e, <<>>)

TraceUndoNull ==
    /\ IsEvent("undonull")
    /\ LET e == Rec[l]
       IN  IF stack # <<>> /\ stack[Len(stack)].mv.kind = -1
           THEN LET h  == stack[Len(stack)]
                    st == SubSeq(stack, 1, Len(stack) - 1)
                IN  /\ SamePos(e, h.pos, "undonull")
                    /\ IF EvPos(e) = h.pos THEN UndoNull ELSE Adopt(e, st)
                    /\ IF Sane(EvPos(e))
                       THEN StepClauses(e, EvPos(e), st, h.key, h.acc, views)
                       ELSE TRUE
           ELSE /\ Viol(FALSE, "TRACE", "undonull-without-null", l)
                /\ Adopt(e, <<>>)

TraceInit ==
    /\ l = 1
    /\ pos = StartPos
    /\ stack = <<>>
    /\ key = FullKey(StartPos)
    /\ acc = FullAcc(StartPos)
    /\ views = FullViews(StartBoard)

\* an operation of the engine panicked (the walk ends there)
TracePanic ==
    /\ IsEvent("panic")
    /\ Viol(FALSE, "C02", "operation-panicked", [during |-> Rec[l].during, fen |-> Rec[l].fen, mv |-> Rec[l].mv,
                                                  history_length |-> Rec[l].hl, msg |-> Rec[l].msg])
    /\ UNCHANGED <<pos, stack, key, acc, views>>

TraceNext == TraceLoad \/ TraceMake \/ TraceNull \/ TraceUndo \/ TraceUndoNull \/ TracePanic

TraceSpec == TraceInit /\ [][TraceNext]_tvars

(***************************************************************************)
(* End-of-trace clauses over all events (C03 distinctness, C15/C16 path    *)
(* independence): sort the event indices by key and compare neighbours.    *)
(***************************************************************************)
KeyLess(a, b) ==
    \/ a[4] < b[4]
    \/ a[4] = b[4] /\ a[3] < b[3]
    \/ a[4] = b[4] /\ a[3] = b[3] /\ a[2] < b[2]
    \/ a[4] = b[4] /\ a[3] = b[3] /\ a[2] = b[2] /\ a[1] < b[1]

Sorted == SortSeq([i \in 1..N |-> i], LAMBDA i, j : KeyLess(Rec[i].key, Rec[j].key))
IdOf(e) == <<e.b, e.stm, e.cr, e.ep>>

PairClauses ==
    \A n \in 1..(N - 1) :
        LET a == Rec[Sorted[n]]
            b == Rec[Sorted[n + 1]]
        IN  a.key = b.key =>
               /\ IF IdOf(a) = IdOf(b) THEN TRUE
                  ELSE Report("VIOL", "C03", Sorted[n], "key-collision", [a |-> a.fen, b |-> b.fen])
               /\ IF IdOf(a) = IdOf(b) /\ a.ev # b.ev
                  THEN Report("VIOL", "C15", Sorted[n], "eval-path-dependent", [a |-> a.fen, b |-> b.fen])
                  ELSE TRUE

\* C03, the converse: one position (placement, side, rights, en-passant target - the writer's text without its counters)
\* has one key, whatever the clocks and the path were.
IdKeyPairs == {<<Rec[i].fid, Rec[i].key>> : i \in 1..N}
OneKeyPerPosition ==
    IF Cardinality({p[1] : p \in IdKeyPairs}) = Cardinality(IdKeyPairs) THEN TRUE
    ELSE LET p == CHOOSE x \in IdKeyPairs : \E y \in IdKeyPairs : x[1] = y[1] /\ x[2] # y[2]
             i == CHOOSE k \in 1..N : Rec[k].fid = p[1] /\ Rec[k].key = p[2]
             j == CHOOSE k \in 1..N : Rec[k].fid = p[1] /\ Rec[k].key # p[2]
         IN  Report("VIOL", "C03", i, "one-position-two-keys", [a |-> Rec[i].fen, b |-> Rec[j].fen])

\* C03: all 838 words pairwise distinct and non-zero.
AllWords == [i \in 1..838 |-> Word(i)]
WordClauses ==
    LET ws == SortSeq(AllWords, KeyLess)
    IN  /\ \A i \in 1..838 : IF AllWords[i] # <<0, 0, 0, 0>> THEN TRUE
                             ELSE Report("VIOL", "C03", 0, "zero-word", i)
        /\ \A i \in 1..837 : IF ws[i] # ws[i + 1] THEN TRUE
                             ELSE Report("VIOL", "C03", 0, "equal-words", ws[i])

DistinctKeys == Cardinality({Rec[i].key : i \in 1..N})
Count(P(_)) == Cardinality({i \in 1..N : P(Rec[i])})
Max(S) == CHOOSE x \in S : \A y \in S : y <= x

TraceAccepted ==
    /\ PairClauses
    /\ OneKeyPerPosition
    /\ WordClauses
    /\ Stat("trace", [events |-> N, diameter |-> TLCGet("stats").diameter,
                       distinct_keys |-> DistinctKeys,
                       makes |-> Count(LAMBDA e : e.op = "make"),
                       nulls |-> Count(LAMBDA e : e.op = "null"),
                       undos |-> Count(LAMBDA e : e.op \in {"undo", "undonull"}),
                       loads |-> Count(LAMBDA e : e.op = "load"),
                       reps |-> Count(LAMBDA e : e.rep),
                       fifties |-> Count(LAMBDA e : e.fifty),
                       clock100 |-> Count(LAMBDA e : e.hmc >= 100),
                       insuf |-> Count(LAMBDA e : e.insuf),
                       checks |-> Count(LAMBDA e : e.chk),
                       specials |-> Count(LAMBDA e : e.op = "make" /\ (e.mv >= 65536 \/ (e.mv \div 4096) % 8 # 0)),
                       maxdepth |-> Max({Rec[i].hl : i \in 1..N})])
    /\ TLCGet("stats").diameter = N + 1
=============================================================================
