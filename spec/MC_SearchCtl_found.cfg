\* arithmetic of the code as found: expected counterexamples F2 (aspiration overflow) and F3 (generation overflow)
CONSTANTS Saturating = FALSE MaxDepth = 6 MaxSearches = 2 StartGen = 254
SPECIFICATION Spec
INVARIANTS NoOverflow WindowSane FullWindowBrackets DepthOK
CHECK_DEADLOCK FALSE
