\* the search as written: the caller clears the child buffer before every child
CONSTANTS ClearInParent = TRUE MaxDepth = 2 MaxStop = 24 defaultInitValue = 0
CONSTANT Values <- MCValues
CONSTANT InnerValues <- MCInner0
SPECIFICATION Spec
INVARIANTS PVIsPath IterationSound NoWorkAfterStop StopSafe
CHECK_DEADLOCK FALSE
