------------------------------ MODULE SearchCtl ------------------------------
(***************************************************************************)
(* Control skeleton of a search (C04): a session of searches sharing the   *)
(* persistent tables; per search the 8-bit generation counter is bumped,   *)
(* then iterative deepening runs aspiration windows around the previous    *)
(* score.  The tree search itself is abstract: it fails (stop observed) or *)
(* returns ANY score in the score range, possibly outside the window.      *)
(* All arithmetic is on mathematical integers and every intermediate value *)
(* is checked against the range of the machine cell that holds it (i16     *)
(* scores and widths, u8 generation): leaving the range sets `ovf', which  *)
(* is a panic in the checked build and a silent wrap in the optimised one. *)
(*                                                                         *)
(* Saturating = FALSE: the arithmetic of the code as found (plain + and -  *)
(* before clamping, generation += 1).  Saturating = TRUE: the repaired     *)
(* code (saturating window arithmetic, wrapping generation).               *)
(***************************************************************************)
EXTENDS Integers, FiniteSets, TLC

CONSTANTS Saturating, MaxDepth, MaxSearches, StartGen

I16MIN == -32768
I16MAX == 32767
MateScore == 32000
AspMinDepth == 5
AspWidth == 25

\* scores the abstract tree search may return / previous iterations may have had
Scores == {-32000, -31999, -31950, -31000, -16000, -3000, -40, -25, -24, 0, 24, 25, 40, 3000, 16000, 31000,
           31950, 31999, 32000}

VARIABLES gen,       \* 8-bit generation cell
          nsearch,   \* searches started in this session
          phase,     \* "idle" | "iter" | "asp" | "done"
          depth,     \* current iteration
          prev,      \* score of the previous iteration (or "none")
          a, b, w,   \* aspiration window and width
          hasPv,     \* some iteration completed: the root line holds a move
          ovf        \* an arithmetic result left its cell's range

svars == <<gen, nsearch, phase, depth, prev, a, b, w, hasPv, ovf>>

InI16(x) == x >= I16MIN /\ x <= I16MAX
Clamp(x) == IF x < I16MIN THEN I16MIN ELSE IF x > I16MAX THEN I16MAX ELSE x

Init ==
    /\ gen = StartGen /\ nsearch = 0 /\ phase = "idle" /\ depth = 0 /\ prev = 0
    /\ a = I16MIN /\ b = I16MAX /\ w = 0 /\ hasPv = FALSE /\ ovf = FALSE

\* search(): new generation, history decay, then iterative deepening
StartSearch ==
    /\ phase \in {"idle", "done"} /\ nsearch < MaxSearches
    /\ nsearch' = nsearch + 1
    /\ IF gen + 1 > 255
       THEN IF Saturating THEN gen' = 0 /\ UNCHANGED ovf      \* wrapping_add
            ELSE gen' = 0 /\ ovf' = TRUE                      \* += 1 on a u8
       ELSE gen' = gen + 1 /\ UNCHANGED ovf
    /\ phase' = "iter" /\ depth' = 0 /\ hasPv' = FALSE
    /\ UNCHANGED <<prev, a, b, w>>

\* next iteration: full window below the aspiration depth, else a window around the previous score
StartIteration ==
    /\ phase = "iter" /\ depth < MaxDepth
    /\ depth' = depth + 1
    /\ IF depth + 1 < AspMinDepth
       THEN a' = I16MIN /\ b' = I16MAX /\ w' = 0 /\ UNCHANGED ovf
       ELSE /\ a' = Clamp(prev - AspWidth) /\ b' = Clamp(prev + AspWidth) /\ w' = AspWidth
            /\ ovf' = (ovf \/ (~Saturating /\ (~InI16(prev - AspWidth) \/ ~InI16(prev + AspWidth))))
    /\ phase' = "asp"
    /\ UNCHANGED <<gen, nsearch, prev, hasPv>>

\* depth limit reached, or the stop flag was seen before a new iteration
EndSearch ==
    /\ phase = "iter"
    /\ phase' = "done"
    /\ UNCHANGED <<gen, nsearch, depth, prev, a, b, w, hasPv, ovf>>

\* the tree search observed the stop flag: the iteration is abandoned
TreeAborts ==
    /\ phase = "asp" /\ depth > 1          \* depth 1 is never interrupted before a move exists? no: it may be
    /\ phase' = "done"
    /\ UNCHANGED <<gen, nsearch, depth, prev, a, b, w, hasPv, ovf>>

Widen(wd) == IF Saturating THEN Clamp(wd + wd \div 2) ELSE wd + wd \div 2

\* the tree search returns score r
TreeReturns(r) ==
    /\ phase = "asp"
    /\ IF r <= a
       THEN LET nw == Widen(w)
                na == a - Clamp(nw)
            IN  /\ w' = Clamp(nw) /\ a' = Clamp(na) /\ UNCHANGED b
                /\ ovf' = (ovf \/ ~InI16(nw) \/ (~Saturating /\ ~InI16(na)))
                /\ UNCHANGED <<phase, prev, hasPv>>
       ELSE IF r >= b
       THEN LET nw == Widen(w)
                nb == b + Clamp(nw)
            IN  /\ w' = Clamp(nw) /\ b' = Clamp(nb) /\ UNCHANGED a
                /\ ovf' = (ovf \/ ~InI16(nw) \/ (~Saturating /\ ~InI16(nb)))
                /\ UNCHANGED <<phase, prev, hasPv>>
       ELSE /\ prev' = r /\ hasPv' = TRUE /\ phase' = "iter"
            /\ UNCHANGED <<a, b, w, ovf>>
    /\ UNCHANGED <<gen, nsearch, depth>>

Next ==
    \/ StartSearch \/ StartIteration \/ EndSearch \/ TreeAborts
    \/ \E r \in Scores : TreeReturns(r)

Spec == Init /\ [][Next]_svars /\ WF_svars(Next)

NoOverflow == ~ovf
WindowSane == a <= b /\ InI16(a) /\ InI16(b) /\ InI16(w) /\ w >= 0
\* the aspiration loop cannot spin for ever: a full window always brackets the score
FullWindowBrackets == (a = I16MIN /\ b = I16MAX) => \A r \in Scores : r > a /\ r < b
DepthOK == depth <= MaxDepth
\* liveness: every search ends
SearchEnds == (phase \in {"iter", "asp"}) ~> (phase = "done")
=============================================================================
