CONSTANTS
  Keys <- TKeys
  N <- TN
  SlotOf <- TSlotOf
  GenMod <- TGenMod
  Checked <- TChecked
SPECIFICATION TraceSpec
POSTCONDITION TraceAccepted
CHECK_DEADLOCK FALSE
