INIT Init
NEXT Next
