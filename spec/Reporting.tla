------------------------------ MODULE Reporting ------------------------------
(***************************************************************************)
(* One-line machine-readable reports from inside TLC evaluations.          *)
(* A PropertyView clause that fails prints "@@VIOL {json}", a CodeView     *)
(* clause "@@DRIFT {json}"; both evaluate to TRUE so that a trace keeps    *)
(* being examined after the first mismatch (DESIGN.md 2.2).  Written as    *)
(* IF c THEN TRUE ELSE Print so that TLC never explores a second disjunct. *)
(***************************************************************************)
EXTENDS TLC, Json, Sequences

Report(tag, id, where, what, detail) ==
    PrintT("@@" \o tag \o " " \o ToJson([id |-> id, at |-> where, what |-> what, detail |-> detail]))

ViolAt(c, id, where, what, detail)  == IF c THEN TRUE ELSE Report("VIOL", id, where, what, detail)
DriftAt(c, id, where, what, detail) == IF c THEN TRUE ELSE Report("DRIFT", id, where, what, detail)
Stat(name, rec) == PrintT("@@STAT " \o ToJson([name |-> name, v |-> rec]))
=============================================================================
