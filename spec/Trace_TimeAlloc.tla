--------------------------- MODULE Trace_TimeAlloc ---------------------------
(***************************************************************************)
(* C14, trace validation.  IOEnv.TRACE is an ND-JSON file written by the   *)
(* harness (`time tuples` / `time pollgap`), see harness/src/timecmd.rs.   *)
(*                                                                         *)
(* "lim" events: what a GUI sent (rem, inc, mtg, mt for the side to move,  *)
(* ovh, has), what the real parser made of the text (parsed), the kind of  *)
(* TimeControl built (tc), outcome, and the limits of the REAL             *)
(* TimeStrategy::new read through the accessor, as limbs <<ms, ns>>        *)
(* (32-bit integers: 10^7 ms are 10^13 ns).                                *)
(*   PropertyView (VIOL, id C14): in the property's domain no panic, hard  *)
(*     <= half of the remaining time after overhead, soft <= hard, a       *)
(*     movetime used as given; tolerance of DESIGN.md C14 (one part in     *)
(*     2^22 plus 1 us) for the float rounding of Duration::mul_f32.        *)
(*   CodeView (DRIFT): parser result, kind of time control, crash exactly  *)
(*     on movestogo 0, limits equal to the coded formula within the        *)
(*     composed tolerance (TimeAlloc!CvTolNs).                             *)
(*   Panics outside the domain are reported under id C14-OOD: they are not *)
(*     violations of this property and are listed separately.              *)
(* rng: 2 = CodeView and PropertyView arithmetic fits; 1 = PropertyView    *)
(* only; 0 = numbers not representable here, crash-freedom only (the       *)
(* driver generates those with overhead 0 and without movestogo, so they   *)
(* lie in the domain by construction).                                     *)
(*                                                                         *)
(* "poll"/"ret" events: times (ns since TimeStrategy::new, < 2^31) at      *)
(* which the H1 poll counter changed during real searches, and the return. *)
(* The largest gap is the measured MaxPollGap handed to the timed model.   *)
(***************************************************************************)
EXTENDS TimeAlloc, TLC, Json, IOUtils, FiniteSets, Reporting

Rec == ndJsonDeserialize(IOEnv.TRACE)
N   == Len(Rec)
Lims  == {i \in 1..N : Rec[i].ev = "lim"}
Polls == {i \in 1..N : Rec[i].ev \in {"poll", "ret"}}

SitOf(e) == [rem |-> e.rem, inc |-> e.inc, mtg |-> e.mtg, mt |-> e.mt, ovh |-> e.ovh, has |-> e.has]
Det(e)   == [go |-> e.go, ovh |-> e.ovh, side |-> e.side, soft |-> e.soft, hard |-> e.hard, out |-> e.out,
             msg |-> e.msg]

ExpectedParse(s) == <<IF OwnSent(s) THEN Pos(s.rem) ELSE -1, IF IncSent(s) THEN Pos(s.inc) ELSE -1,
                      IF MtgSent(s) THEN s.mtg ELSE -1, IF MtSent(s) THEN Pos(s.mt) ELSE -1, s.ovh>>

PV(i, e, s, soft, hard) ==
    LET R    == Rem(s) - s.ovh
        half == L(R \div 2, (R % 2) * 500000)
        c    == PVCase(s)
    IN  /\ c = "clock" =>
             /\ ViolAt(LLeTol(hard, half), "C14", i, "hard-limit-above-half-of-remaining", Det(e))
             /\ ViolAt(LLeTol(soft, hard), "C14", i, "soft-limit-above-hard-limit", Det(e))
        /\ c = "exact" =>
             ViolAt(ExactClauseL(s, soft, hard), "C14", i, "movetime-not-used-as-given", Det(e))
        /\ c = "either" =>
             ViolAt(ClockClauseL(s, soft, hard) \/ ExactClauseL(s, soft, hard), "C14", i,
                    "neither-clock-bound-nor-movetime", Det(e))
        /\ c = "free" =>
             ViolAt(LLeTol(soft, hard), "C14", i, "soft-limit-above-hard-limit", Det(e))

CV(i, e, s, soft, hard) ==
    /\ DriftAt((e.out = "panic") = CodeCrashes(s), "C14", i, "crash-behaviour", Det(e))
    /\ e.out = "ok" =>
         /\ DriftAt(<<e.parsed[1], e.parsed[2], e.parsed[3], e.parsed[4], e.parsed[5]>> = ExpectedParse(s),
                    "C14", i, "parser", [go |-> e.go, parsed |-> e.parsed, expected |-> ExpectedParse(s)])
         /\ DriftAt(e.tc = TcKind(s), "C14", i, "time-control-kind", [go |-> e.go, tc |-> e.tc])
         /\ ~CodeCrashes(s) =>
              DriftAt(CVLimitsL(s, soft, hard, CvTolNs), "C14", i, "limits-differ-from-coded-formula",
                      [go |-> e.go, ovh |-> e.ovh, soft |-> e.soft, hard |-> e.hard,
                       cv_soft |-> QFloorL(CodeLimits(s).soft), cv_hard |-> QFloorL(CodeLimits(s).hard)])

LimClauses(i) ==
    LET e    == Rec[i]
        s    == SitOf(e)
        soft == L(e.soft[1], e.soft[2])
        hard == L(e.hard[1], e.hard[2])
    \* a `go` that a GUI can send (negative numbers included: clocks that have run out) and that the engine does not accept is
    \* never answered: inside the property's domain that is a violation, not a malformed trace
    IN  /\ ViolAt(e.out # "rejected", IF e.rng = 0 \/ InDomain(s) THEN "C14" ELSE "C14-OOD", i, "go-line-not-accepted", Det(e))
        /\ IF e.rng = 0
           THEN ViolAt(e.out # "panic", "C14", i, "panic", Det(e))
           ELSE /\ IF InDomain(s)
                   THEN /\ ViolAt(e.out # "panic", "C14", i, "panic", Det(e))
                        /\ e.out = "ok" => PV(i, e, s, soft, hard)
                   ELSE ViolAt(e.out # "panic", "C14-OOD", i, "panic-outside-domain", Det(e))
                /\ e.rng = 2 => CV(i, e, s, soft, hard)

ASSUME \A i \in Lims : LimClauses(i)

InDom(i)     == Rec[i].rng = 0 \/ InDomain(SitOf(Rec[i]))
NonTrivial(i) == Rec[i].rng > 0 /\ InDomain(SitOf(Rec[i])) /\ PVCase(SitOf(Rec[i])) = "clock"
                 /\ Rem(SitOf(Rec[i])) - Rec[i].ovh > 0
BeyondFlat(i) == LET e == Rec[i] s == SitOf(e)
                 IN  e.rng = 2 /\ e.out = "ok" /\ ~CodeCrashes(s)
                     /\ ~CVLimitsL(s, L(e.soft[1], e.soft[2]), L(e.hard[1], e.hard[2]), TolNs)

ASSUME Lims = {} \/ Stat("lim",
   [events |-> Cardinality(Lims),
    in_domain |-> Cardinality({i \in Lims : InDom(i)}),
    nontrivial |-> Cardinality({i \in Lims : NonTrivial(i)}),
    cap_binds |-> Cardinality({i \in Lims : Rec[i].rng = 2 /\ InDom(i) /\ CapBinds(SitOf(Rec[i]))}),
    pv_only |-> Cardinality({i \in Lims : Rec[i].rng = 1}),
    crash_only |-> Cardinality({i \in Lims : Rec[i].rng = 0}),
    panics |-> Cardinality({i \in Lims : Rec[i].out = "panic"}),
    cv_beyond_single_tolerance |-> Cardinality({i \in Lims : BeyondFlat(i)})])

----------------------------------------------------------------------------
FirstOfRun(i) == i = 1 \/ Rec[i - 1].ev = "lim" \/ Rec[i - 1].run # Rec[i].run
Gap(i)  == IF FirstOfRun(i) THEN Rec[i].t ELSE Rec[i].t - Rec[i - 1].t
MaxOf(S) == IF S = {} THEN 0 ELSE CHOOSE x \in S : \A y \in S : y <= x
Rets    == {i \in Polls : Rec[i].ev = "ret"}
Over(i) == IF Rec[i].t > Rec[i].hard THEN Rec[i].t - Rec[i].hard ELSE 0

ASSUME \A i \in Polls :
          /\ ViolAt(Gap(i) >= 0, "TRACE", i, "poll-times-not-monotone", [run |-> Rec[i].run, t |-> Rec[i].t])
          /\ Rec[i].ev = "ret" =>
                ViolAt(Rec[i].out = "ok", "C14-OOD", i, "panic-in-search", [fen |-> Rec[i].fen])
ASSUME Polls = {} \/ Stat("poll",
   [runs |-> Cardinality(Rets), polls |-> Cardinality(Polls) - Cardinality(Rets),
    max_gap_ns |-> MaxOf({Gap(i) : i \in Polls}),
    max_over_hard_ns |-> MaxOf({Over(i) : i \in Rets}),
    max_elapsed_ns |-> MaxOf({Rec[i].t : i \in Rets}),
    runs_stopped_by_hard |-> Cardinality({i \in Rets : Rec[i].t > Rec[i].hard})])

Init == now = 0 /\ nextPoll = 0 /\ stopped = FALSE /\ clk = [rem |-> 0, soft |-> 0, hard |-> 0, t0 |-> 0]
Next == UNCHANGED tvars
=============================================================================
