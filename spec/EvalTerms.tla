------------------------------- MODULE EvalTerms -------------------------------
(***************************************************************************)
(* The static evaluation as a linear form (growth item: the evaluation's   *)
(* terms).  The engine counts, for every parameter, how often it applies   *)
(* for White minus how often for Black (its own tuner trace); the value is *)
(* the sum of coefficient x parameter, separately for the middlegame and   *)
(* endgame halves, blended by the phase (EvalBlend.tla).  This module      *)
(* defines the coefficients from the rule-book board alone:                *)
(*   material[k], <kind>_pst[square from the owner's side], passed pawns,  *)
(*   mobility of knights / bishops / rooks / queens (attacked squares not  *)
(*   attacked by an enemy pawn; own pieces count), attacked squares next   *)
(*   to the enemy king, bishop pair.                                       *)
(* CodeView throughout (it fixes what the evaluation IS); the universal    *)
(* consequences for C16 are drawn in Trace_EvalTerms.tla.                  *)
(***************************************************************************)
EXTENDS Chess, EvalBlend

Groups == <<"material", "pawn_pst", "knight_pst", "bishop_pst", "rook_pst", "queen_pst", "king_pst", "passed_pawn_pst",
            "knight_mobility", "bishop_mobility", "rook_mobility", "queen_mobility", "attacked_king_squares", "bishop_pair">>
GroupSet == {Groups[i] : i \in 1..Len(Groups)}
SizeOf(g) == CASE g = "material" -> 6 [] g \in {"knight_mobility", "attacked_king_squares"} -> 9
               [] g = "bishop_mobility" -> 14 [] g = "rook_mobility" -> 15 [] g = "queen_mobility" -> 28
               [] g = "bishop_pair" -> 1 [] OTHER -> 64

B2I(x) == IF x THEN 1 ELSE 0
Own(s, c) == IF c = 0 THEN s ELSE MirrorSq(s)           \* the square as its owner sees it (index into a table)
On(b, c, k) == SquaresOf(b, PieceOf(c, k))

\* --- piece-square tables: coefficient of entry i (0..63) -------------------------------------------
PstCoef(b, k) == [i \in 0..63 |-> B2I(At(b, i) = PieceOf(0, k)) - B2I(At(b, MirrorSq(i)) = PieceOf(1, k))]
MaterialCoef(b) == [k \in 1..6 |-> Cardinality(On(b, 0, k)) - Cardinality(On(b, 1, k))]

\* --- passed pawns: no enemy pawn on the same or a neighbouring file strictly ahead -----------------
Ahead(c, s, t) == IF c = 0 THEN RankOf(t) > RankOf(s) ELSE RankOf(t) < RankOf(s)
Passed(b, c, s) ==
    \A t \in On(b, Other(c), Pawn) : ~(Ahead(c, s, t) /\ FileOf(t) \in {FileOf(s) - 1, FileOf(s), FileOf(s) + 1})
PassedCoef(b) == [i \in 0..63 |->
    B2I(At(b, i) = PieceOf(0, Pawn) /\ Passed(b, 0, i))
    - B2I(At(b, MirrorSq(i)) = PieceOf(1, Pawn) /\ Passed(b, 1, MirrorSq(i)))]

\* --- mobility and the enemy king's neighbourhood -----------------------------------------------------
PawnAttacked(b, by) == UNION {PawnAttacks(by, s) : s \in On(b, by, Pawn)}
AttacksOf(b, k, s) ==
    CASE k = Knight -> KnightAttacks(s)
      [] k = Bishop -> BishopAttacks(s, Occ(b))
      [] k = Rook   -> RookAttacks(s, Occ(b))
      [] k = Queen  -> QueenAttacks(s, Occ(b))
MobilityOf(b, c, k, s) == Cardinality(AttacksOf(b, k, s) \ PawnAttacked(b, Other(c)))
MobilityCoef(b, k, size) == [n \in 0..(size - 1) |->
    Cardinality({s \in On(b, 0, k) : MobilityOf(b, 0, k, s) = n})
    - Cardinality({s \in On(b, 1, k) : MobilityOf(b, 1, k, s) = n})]
AttackedBy(b, c) == UNION {UNION {AttacksOf(b, k, s) : s \in On(b, c, k)} : k \in {Knight, Bishop, Rook, Queen}}
KingZoneHits(b, c) == Cardinality(AttackedBy(b, c) \cap KingAttacks(KingSq(b, Other(c))))
\* the entry for the number of White's hits next to Black's king counts for Black, and vice versa
KingZoneCoef(b) == [n \in 0..8 |-> B2I(KingZoneHits(b, 1) = n) - B2I(KingZoneHits(b, 0) = n)]

BishopPairCoef(b) == [i \in 0..0 |-> B2I(Cardinality(On(b, 0, Bishop)) > 1) - B2I(Cardinality(On(b, 1, Bishop)) > 1)]

\* coefficient of entry i (0-based) of group g
Coef(b, g) ==
    CASE g = "material" -> [i \in 0..5 |-> MaterialCoef(b)[i + 1]]
      [] g = "pawn_pst" -> PstCoef(b, Pawn)     [] g = "knight_pst" -> PstCoef(b, Knight)
      [] g = "bishop_pst" -> PstCoef(b, Bishop) [] g = "rook_pst" -> PstCoef(b, Rook)
      [] g = "queen_pst" -> PstCoef(b, Queen)   [] g = "king_pst" -> PstCoef(b, King)
      [] g = "passed_pawn_pst" -> PassedCoef(b)
      [] g = "knight_mobility" -> MobilityCoef(b, Knight, 9) [] g = "bishop_mobility" -> MobilityCoef(b, Bishop, 14)
      [] g = "rook_mobility" -> MobilityCoef(b, Rook, 15)    [] g = "queen_mobility" -> MobilityCoef(b, Queen, 28)
      [] g = "attacked_king_squares" -> KingZoneCoef(b)
      [] g = "bishop_pair" -> BishopPairCoef(b)

\* phase: knights and bishops 1, rooks 2, queens 4
PhaseOf(b) == Cardinality(On(b, 0, Knight) \cup On(b, 1, Knight) \cup On(b, 0, Bishop) \cup On(b, 1, Bishop))
              + 2 * Cardinality(On(b, 0, Rook) \cup On(b, 1, Rook)) + 4 * Cardinality(On(b, 0, Queen) \cup On(b, 1, Queen))

\* sum of coefficient x parameter over one group; half = 1 (middlegame) or 2 (endgame); par[g] is a sequence of pairs
RECURSIVE DotR(_, _, _, _)
DotR(cf, pg, half, i) == IF i < 0 THEN 0 ELSE cf[i] * pg[i + 1][half] + DotR(cf, pg, half, i - 1)
Dot(cf, pg, half) == DotR(cf, pg, half, Len(pg) - 1)
RECURSIVE SumGroups(_, _, _, _)
SumGroups(cfs, par, half, j) == IF j = 0 THEN 0 ELSE Dot(cfs[Groups[j]], par[Groups[j]], half) + SumGroups(cfs, par, half, j - 1)
\* the evaluation from White's side, given coefficient functions cfs (group -> function)
WhiteEvalOf(cfs, par, phase) == BlendCV(SumGroups(cfs, par, 1, Len(Groups)), SumGroups(cfs, par, 2, Len(Groups)), phase)
=============================================================================
