----------------------------- MODULE Gen_Movegen -----------------------------
(***************************************************************************)
(* Binding direction B for C01: TLC enumerates structured families of      *)
(* legal positions (each family forces one mechanism of the engine's move  *)
(* generator) and prints, per position, the rule book's legal move set and *)
(* check verdict.  The harness replays every line into the real generator. *)
(* Every family is produced for White to move and, through Mirror, for     *)
(* Black to move.                                                          *)
(*                                                                         *)
(* Families (FAMILY constant):                                             *)
(*   "ep"       en passant x every slider / king geometry                  *)
(*   "castle"   rights x every attacker kind on every square x blockers    *)
(*   "pin"      king x own piece of each kind x enemy slider on a line      *)
(*   "dblchk"   two checkers of every kind pair                            *)
(*   "promo"    pawn on the 7th x contents of the 8th x checks             *)
(*   "promopin" pawn on the 7th pinned on a diagonal / file / rank         *)
(*   "kingwalk" king next to one or two enemy sliders                      *)
(*   "evade"    single check x interpose / capture by each kind            *)
(*   "givechk"  every way a move gives check (direct, unmasking, through   *)
(*              the pawn removed en passant, castling rook, promotion)     *)
(*   "noquiet"  every legal move is a capture (boxed-in king in check)     *)
(* SHARD / NSHARDS split a family on its first enumeration variable.       *)
(***************************************************************************)
EXTENDS Chess, Json, Reporting

CONSTANTS FAMILY, SHARD, NSHARDS, DENSITY

\* pl: sequence of <<square, piece>>
Distinct(pl) == Cardinality({pl[i][1] : i \in 1..Len(pl)}) = Len(pl)
BoardOf(pl) == [i \in 1..64 |->
                  LET hits == {j \in 1..Len(pl) : pl[j][1] = i - 1}
                  IN  IF hits = {} THEN 0 ELSE pl[CHOOSE j \in hits : TRUE][2]]
PosOf(pl, castle, ep) == [board |-> BoardOf(pl), stm |-> 0, castle |-> castle, ep |-> ep,
                          hmc |-> 0, plies |-> 0]

Mask(cs) == (IF 0 \in cs THEN 1 ELSE 0) + (IF 1 \in cs THEN 2 ELSE 0)
            + (IF 2 \in cs THEN 4 ELSE 0) + (IF 3 \in cs THEN 8 ELSE 0)

EmitOne(p, tag) ==
    LET lm == Legal(p)
    IN  PrintT("@@GEN " \o ToJson([fam |-> tag, b |-> [i \in 1..64 |-> p.board[i]], stm |-> p.stm,
                                   cr |-> Mask(p.castle), ep |-> p.ep, hmc |-> 0, pl |-> p.stm,
                                   mvs |-> {PackMove(m) : m \in lm}, chk |-> InCheck(p),
                                   \* the moves after which the opponent is in check (the verdict the engine reaches by PLAYING the move)
                                   gc |-> {PackMove(m) : m \in {x \in lm : InCheckB(BoardAfter(p.board, x, p.stm), Other(p.stm))}}]))

\* Emits the position and its colour mirror if it is a legal position.
Emit(pl, castle, ep, tag) ==
    IF ~Distinct(pl) THEN TRUE
    ELSE LET p == PosOf(pl, castle, ep)
         IN  IF LegalPosition(p) THEN EmitOne(p, tag) /\ EmitOne(Mirror(p), tag) ELSE TRUE

InShard(x) == x % NSHARDS = SHARD
\* thinning for the quick tier: keep 1 of DENSITY by a fixed arithmetic hash of two coordinates
Keep(a, b) == DENSITY = 1 \/ (a * 7 + b * 13) % DENSITY = 0
\* thinning for slider placements: always keep sliders on a line through the king
KeepLine(k, s) == DENSITY = 1 \/ s \in QueenAttacks(k, {}) \/ (k * 7 + s * 13) % DENSITY = 0

W(k) == PieceOf(0, k)
Bl(k) == PieceOf(1, k)
Sliders == {Bishop, Rook, Queen}

(***************************************************************************)
(* ep: white pawn on its 5th rank, black pawn beside it having just        *)
(* advanced two squares, optionally a second white pawn on the other side, *)
(* a black slider anywhere, the white king anywhere.                       *)
(***************************************************************************)
FamEp ==
    \A wk \in {s \in Sq : InShard(s)} :
      \A f \in 0..7 : \A df \in {-1, 1} :
        LET bf == f + df IN
        IF bf \notin 0..7 THEN TRUE
        ELSE LET wp == SqOf(f, 4)
                 bp == SqOf(bf, 4)
                 ep == SqOf(bf, 5)
                 of == bf + df           \* file on the far side of the black pawn
             IN  \A sk \in Sliders : \A ss \in {s \in Sq : KeepLine(wk, s)} :
                   \A bk \in (IF DENSITY = 1 THEN {0, 7} ELSE {0}) :
                     /\ Emit(<< <<wk, W(King)>>, <<wp, W(Pawn)>>, <<bp, Bl(Pawn)>>, <<ss, Bl(sk)>>,
                                <<bk, Bl(King)>> >>, {}, ep, "ep")
                     /\ IF of \in 0..7 /\ bk = 0 /\ Keep(wk, ss)
                        THEN Emit(<< <<wk, W(King)>>, <<wp, W(Pawn)>>, <<bp, Bl(Pawn)>>, <<ss, Bl(sk)>>,
                                     <<bk, Bl(King)>>, <<SqOf(of, 4), W(Pawn)>> >>, {}, ep, "ep2")
                        ELSE TRUE

(***************************************************************************)
(* castle: king e1, rooks a1/h1, rights {K},{Q},{K,Q}; one black attacker  *)
(* of every kind on every square, optional blockers next to the king path. *)
(***************************************************************************)
FamCastle ==
    \A as \in {s \in Sq : InShard(s)} :
      \A ak \in {Pawn, Knight, Bishop, Rook, Queen, King} :
        \A rights \in {{0}, {1}, {0, 1}} :
          \A blk \in {<<>>, << <<1, W(Knight)>> >>, << <<6, W(Bishop)>> >>, << <<3, W(Queen)>> >>,
                      << <<12, W(Pawn)>> >>, << <<11, W(Pawn)>>, <<13, W(Pawn)>> >>} :
            LET base == << <<4, W(King)>>, <<0, W(Rook)>>, <<7, W(Rook)>> >> \o blk
            IN  IF ak = King
                THEN Emit(base \o << <<as, Bl(King)>> >>, rights, -1, "castle")
                ELSE \A bk \in {60, 56} :
                       Emit(base \o << <<as, Bl(ak)>>, <<bk, Bl(King)>> >>, rights, -1, "castle")

(***************************************************************************)
(* pin: white king, a white piece of each kind on a line through the king, *)
(* a black slider on a line through the king (pins, non-pins, capture of   *)
(* the pinner, movement along the ray, pawns pinned on files and diagonals  *)
(* including the double push), plus a black piece the pinned piece could   *)
(* capture off the ray.                                                    *)
(***************************************************************************)
Aligned(k) == QueenAttacks(k, {})
\* t lies beyond p on the ray from k through p: the geometry of a pin
Beyond(k, p, t) == \E d \in AllDirs : (\E i \in 1..Len(Ray(k, d)) : Ray(k, d)[i] = p)
                                      /\ (\E j \in 1..Len(Ray(p, d)) : Ray(p, d)[j] = t)
FamPin ==
    \A wk \in {s \in Sq : InShard(s)} :
      \A ps \in Aligned(wk) :
        \A pk \in {Pawn, Knight, Bishop, Rook, Queen} :
          \A ts \in {t \in Aligned(wk) : DENSITY = 1 \/ Beyond(wk, ps, t) \/ Keep(ps, t)} :
            \A tk \in Sliders :
              \A bk \in (IF DENSITY = 1 THEN {63, 56} ELSE {IF wk = 63 \/ ps = 63 \/ ts = 63 THEN 56 ELSE 63}) :
                /\ Emit(<< <<wk, W(King)>>, <<ps, W(pk)>>, <<ts, Bl(tk)>>, <<bk, Bl(King)>> >>, {}, -1, "pin")
                /\ IF pk = Pawn /\ Keep(wk, ts)
                   THEN \A cs \in PawnAttacks(0, ps) :
                          Emit(<< <<wk, W(King)>>, <<ps, W(pk)>>, <<ts, Bl(tk)>>, <<bk, Bl(King)>>,
                                  <<cs, Bl(Knight)>> >>, {}, -1, "pin-pawncap")
                   ELSE TRUE

(***************************************************************************)
(* dblchk: two black checkers; a white queen that could capture or block   *)
(* one of them (must not be offered).                                      *)
(***************************************************************************)
CheckSquares(k, kind) ==
    CASE kind = Knight -> KnightAttacks(k)
      [] kind = Bishop -> BishopAttacks(k, {})
      [] kind = Rook -> RookAttacks(k, {})
      [] kind = Queen -> QueenAttacks(k, {})
      [] kind = Pawn -> PawnAttacks(0, k)
FamDblChk ==
    \A wk \in {s \in Sq : InShard(s)} :
      \A k1 \in {Pawn, Knight, Bishop, Rook, Queen} : \A k2 \in {Knight, Bishop, Rook, Queen} :
        \A s1 \in CheckSquares(wk, k1) : \A s2 \in {s \in CheckSquares(wk, k2) : Keep(s1, s)} :
          \A wq \in {27, 36, 18, 45} : \A bk \in {63, 0} :
            Emit(<< <<wk, W(King)>>, <<s1, Bl(k1)>>, <<s2, Bl(k2)>>, <<wq, W(Queen)>>, <<bk, Bl(King)>> >>,
                 {}, -1, "dblchk")

(***************************************************************************)
(* promo: white pawn on its 7th rank; the three squares in front hold      *)
(* nothing / a black knight / a black rook; the white king possibly in     *)
(* check from a black piece of each kind.                                  *)
(***************************************************************************)
FamPromo ==
    \A f \in {x \in 0..7 : InShard(x)} :
      \A c1 \in {0, Knight, Rook} : \A c2 \in {0, Knight} : \A c3 \in {0, Knight, Rook} :
        \A wk \in {s \in Sq : RankOf(s) \in {5, 6, 7, 0} /\ Keep(s, f)} :
          \A ck \in {0, Knight, Bishop, Rook, Queen} :
            \A cs \in (IF ck = 0 THEN {0} ELSE CheckSquares(wk, ck)) :
              \A bk \in {SqOf(7 - f, 2), 24} :
                LET front == (IF c1 # 0 /\ f > 0 THEN << <<SqOf(f - 1, 7), Bl(c1)>> >> ELSE <<>>)
                             \o (IF c2 # 0 THEN << <<SqOf(f, 7), Bl(c2)>> >> ELSE <<>>)
                             \o (IF c3 # 0 /\ f < 7 THEN << <<SqOf(f + 1, 7), Bl(c3)>> >> ELSE <<>>)
                    chk   == IF ck = 0 THEN <<>> ELSE << <<cs, Bl(ck)>> >>
                IN  Emit(<< <<wk, W(King)>>, <<SqOf(f, 6), W(Pawn)>>, <<bk, Bl(King)>> >> \o front \o chk,
                         {}, -1, "promo")

(***************************************************************************)
(* promopin: a pawn on its 7th rank pinned along a diagonal by a bishop or *)
(* queen standing on the promotion rank next to it (capturing the pinner   *)
(* with promotion is legal, pushing is not), or along its file / rank by a *)
(* rook or queen; the king on every square of the pin line behind it.      *)
(* Small and always enumerated completely.                                 *)
(***************************************************************************)
FamPromoPin ==
    \A f \in {x \in 0..7 : InShard(x)} :
      LET ps == SqOf(f, 6) IN
      /\ \A side \in {-1, 1} : \A pk \in {Bishop, Queen} :
           (f + side \in 0..7) =>
              \A k \in 1..6 :
                 (f - side * k \in 0..7 /\ 6 - k \in 0..7) =>
                    \A other \in {0, Knight, Rook} : \A bk \in {SqOf(7 - f, 3), 24} :
                       Emit(<< <<SqOf(f - side * k, 6 - k), W(King)>>, <<ps, W(Pawn)>>,
                               <<SqOf(f + side, 7), Bl(pk)>>, <<bk, Bl(King)>> >>
                            \o (IF other # 0 /\ f - side \in 0..7 THEN << <<SqOf(f - side, 7), Bl(other)>> >> ELSE <<>>),
                            {}, -1, "promopin")
      /\ \A pk \in {Rook, Queen} : \A k \in 1..6 :
           \* pinned on the file: king below the pawn, pinner on the promotion square
           \A cap \in {0, Knight} : \A bk \in {SqOf(7 - f, 3), 24} :
              Emit(<< <<SqOf(f, 6 - k), W(King)>>, <<ps, W(Pawn)>>, <<SqOf(f, 7), Bl(pk)>>, <<bk, Bl(King)>> >>
                   \o (IF cap # 0 /\ f + 1 \in 0..7 THEN << <<SqOf(f + 1, 7), Bl(cap)>> >> ELSE <<>>), {}, -1, "promopin")
      /\ \A pk \in {Rook, Queen} : \A kf \in 0..7 : \A rf \in 0..7 :
           \* pinned on the rank
           ((kf < f /\ rf > f) \/ (kf > f /\ rf < f)) =>
              \A cap \in {0, Knight} :
                 Emit(<< <<SqOf(kf, 6), W(King)>>, <<ps, W(Pawn)>>, <<SqOf(rf, 6), Bl(pk)>>, <<24, Bl(King)>> >>
                      \o (IF cap # 0 /\ f + 1 \in 0..7 THEN << <<SqOf(f + 1, 7), Bl(cap)>> >> ELSE <<>>), {}, -1, "promopin")

(***************************************************************************)
(* kingwalk: the king next to one or two black sliders (stepping along the *)
(* checking ray must not be offered), with a defended black piece beside   *)
(* the king (capturing a defended piece must not be offered).              *)
(***************************************************************************)
FamKingWalk ==
    \A wk \in {s \in Sq : InShard(s)} :
      \A s1 \in Sq : \A k1 \in Sliders :
        /\ \A bk \in {63, 0} :
             Emit(<< <<wk, W(King)>>, <<s1, Bl(k1)>>, <<bk, Bl(King)>> >>, {}, -1, "kingwalk1")
        /\ \A s2 \in {s \in Sq : Keep(s1, s)} : \A k2 \in {Knight, Rook, Bishop, Pawn} :
             Emit(<< <<wk, W(King)>>, <<s1, Bl(k1)>>, <<s2, Bl(k2)>>, <<63, Bl(King)>> >>, {}, -1, "kingwalk2")

(***************************************************************************)
(* evade: single check by each kind; a white piece of each kind that may   *)
(* interpose or capture the checker; pawns interposing by single and       *)
(* double push.                                                            *)
(***************************************************************************)
FamEvade ==
    \A wk \in {s \in Sq : InShard(s)} :
      \A ck \in {Knight, Bishop, Rook, Queen, Pawn} : \A cs \in CheckSquares(wk, ck) :
        \A dk \in {Pawn, Knight, Bishop, Rook, Queen} : \A ds \in {s \in Sq : Keep(cs, s)} :
          \A bk \in {63, 0} :
            Emit(<< <<wk, W(King)>>, <<cs, Bl(ck)>>, <<ds, W(dk)>>, <<bk, Bl(King)>> >>, {}, -1, "evade")

(***************************************************************************)
(* givechk: moves that give check in every way a move can - directly, by   *)
(* unmasking a slider behind the moving piece, by unmasking a slider       *)
(* through the square of the pawn removed en passant, by the rook of a     *)
(* castling move, by the piece a pawn promotes to.  The verdict after      *)
(* PLAYING the move (field gc) is what the family is for.                  *)
(***************************************************************************)
SliderFor(d) == IF d \in OrthoDirs THEN {Rook, Queen} ELSE {Bishop, Queen}
Opp(d) == ((d + 3) % 8) + 1

FamGiveChk ==
    \* (a) en passant: slider and enemy king on one line through the captured pawn's square
    /\ \A f \in {x \in 0..7 : InShard(x)} : \A df \in {-1, 1} :
         LET bf == f + df IN
         IF bf \notin 0..7 THEN TRUE
         ELSE LET wp == SqOf(f, 4)
                  bp == SqOf(bf, 4)
                  ep == SqOf(bf, 5)
              IN  \A d \in AllDirs : \A i \in 1..Len(Ray(bp, d)) : \A j \in 1..Len(Ray(bp, Opp(d))) :
                    \A sk \in SliderFor(d) : \A wk \in {0, 7, 58} :
                      Emit(<< <<wk, W(King)>>, <<wp, W(Pawn)>>, <<bp, Bl(Pawn)>>, <<Ray(bp, d)[i], W(sk)>>,
                              <<Ray(bp, Opp(d))[j], Bl(King)>> >>, {}, ep, "givechk-ep")
    \* (b) castling: the enemy king anywhere (on the rook's file the castling move gives check)
    /\ \A bk \in {s \in Sq : InShard(s)} : \A rights \in {{0}, {1}, {0, 1}} :
         Emit(<< <<4, W(King)>>, <<0, W(Rook)>>, <<7, W(Rook)>>, <<bk, Bl(King)>> >>, rights, -1, "givechk-castle")
    \* (c) promotion: pawn on the 7th, enemy king anywhere, optionally a piece to capture on the 8th
    /\ \A bk \in {s \in Sq : InShard(s)} : \A f \in 0..7 : \A wk \in {0, 7} :
         /\ Emit(<< <<wk, W(King)>>, <<SqOf(f, 6), W(Pawn)>>, <<bk, Bl(King)>> >>, {}, -1, "givechk-promo")
         /\ (f < 7 /\ Keep(bk, f)) =>
               Emit(<< <<wk, W(King)>>, <<SqOf(f, 6), W(Pawn)>>, <<SqOf(f + 1, 7), Bl(Knight)>>, <<bk, Bl(King)>> >>, {}, -1, "givechk-promo")
    \* (d) unmasking: enemy king, a white piece of every kind, a white slider behind it on one line
    /\ \A bk \in {s \in Sq : InShard(s)} : \A d \in AllDirs :
         LET r == Ray(bk, d) IN
         \A i \in 1..Len(r) : \A j \in (i + 1)..Len(r) :
           IF ~Keep(i, j + bk) THEN TRUE
           ELSE \A xk \in {Pawn, Knight, Bishop, Rook, King} : \A sk \in SliderFor(d) :
                  IF xk = King
                  THEN Emit(<< <<r[i], W(King)>>, <<r[j], W(sk)>>, <<bk, Bl(King)>> >>, {}, -1, "givechk-unmask")
                  ELSE IF xk = Pawn /\ RankOf(r[i]) \in {0, 7} THEN TRUE
                  ELSE \A wk \in {0, 63} :
                         Emit(<< <<wk, W(King)>>, <<r[i], W(xk)>>, <<r[j], W(sk)>>, <<bk, Bl(King)>> >>, {}, -1, "givechk-unmask")

(***************************************************************************)
(* noquiet: positions in which every legal move is a capture (a boxed-in   *)
(* king checked by a knight or by an adjacent protected piece): the staged *)
(* picker has to deliver its captures - winning, equal and losing ones -   *)
(* without any quiet move in the list.                                     *)
(***************************************************************************)
EmitIfNoQuiet(pl, tag) ==
    IF ~Distinct(pl) THEN TRUE
    ELSE LET p == PosOf(pl, {}, -1)
         IN  IF ~LegalPosition(p) THEN TRUE
             ELSE LET lm == Legal(p)
                  IN  IF lm # {} /\ \A m \in lm : m.kind \in {1, 2}
                      THEN EmitOne(p, tag) /\ EmitOne(Mirror(p), tag)
                      ELSE TRUE

Near(s) == KingAttacks(s) \cup KnightAttacks(s)
FamNoQuiet ==
    \* box: Kh1, Rg1, pawns h2 (and g2 with the knight); checker: knight f2 / queen or rook g2
    \A box \in {<< << <<7, W(King)>>, <<6, W(Rook)>>, <<14, W(Pawn)>>, <<15, W(Pawn)>>, <<13, Bl(Knight)>> >>, 13>>,
                 << << <<7, W(King)>>, <<6, W(Rook)>>, <<15, W(Pawn)>>, <<14, Bl(Queen)>> >>, 14>>,
                 << << <<7, W(King)>>, <<6, W(Bishop)>>, <<15, W(Pawn)>>, <<14, Bl(Rook)>> >>, 14>>} :
      LET t == box[2]
          far == {t + 32, (t + 36) % 64, 8 + (t % 8), 16 + ((t + 3) % 8), 40, 47}
          cand == (Near(t) \cup far) \ {7}
      IN  \A xs \in {s \in cand : InShard(s)} : \A xk \in {Knight, Bishop, Rook, Queen} :
            \A bk \in {56, 59} :
              /\ EmitIfNoQuiet(box[1] \o << <<xs, W(xk)>>, <<bk, Bl(King)>> >>, "noquiet")
              /\ \A ds \in cand : \A dk \in {Pawn, Knight, Bishop, Rook, Queen} :
                    IF dk = Pawn /\ RankOf(ds) \in {0, 7} THEN TRUE
                    ELSE /\ (bk = 56 \/ Keep(xs, ds)) =>
                               EmitIfNoQuiet(box[1] \o << <<xs, W(xk)>>, <<ds, Bl(dk)>>, <<bk, Bl(King)>> >>, "noquiet")
                         \* a second white capturer of another kind
                         /\ (bk = 56 /\ xk # Queen /\ (xs * 7 + ds * 13) % (6 * DENSITY) = 0) =>
                               \A ys \in KingAttacks(t) : EmitIfNoQuiet(box[1] \o << <<xs, W(xk)>>, <<ys, W(Queen)>>, <<ds, Bl(dk)>>,
                                                                          <<bk, Bl(King)>> >>, "noquiet")

Run ==
    CASE FAMILY = "ep" -> FamEp
      [] FAMILY = "castle" -> FamCastle
      [] FAMILY = "pin" -> FamPin
      [] FAMILY = "dblchk" -> FamDblChk
      [] FAMILY = "promo" -> FamPromo
      [] FAMILY = "promopin" -> FamPromoPin
      [] FAMILY = "kingwalk" -> FamKingWalk
      [] FAMILY = "evade" -> FamEvade
      [] FAMILY = "givechk" -> FamGiveChk
      [] FAMILY = "noquiet" -> FamNoQuiet

ASSUME Run

VARIABLE x
Init == x = 0
Next == x' = x
=============================================================================
