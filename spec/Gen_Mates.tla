------------------------------- MODULE Gen_Mates -------------------------------
(***************************************************************************)
(* Position source for C08 / C04: elementary endings near mate.  Black     *)
(* king on an edge, white king close to it, one or two white pieces (Q, R, *)
(* two bishops, Q+R, promoted extra queens) anywhere; both sides to move.  *)
(* The rule book tags each position: m1 if the side to move has a mate in  *)
(* one, mated if it is checkmated/stalemated (those are not searched).     *)
(* Mate announcements of the engine on these positions are then verified   *)
(* move by move in Trace_Search.                                           *)
(***************************************************************************)
EXTENDS Chess, Json, Reporting

CONSTANTS SHARD, NSHARDS, DENSITY

W(k) == PieceOf(0, k)
Keep(a, b) == DENSITY = 1 \/ (a * 7 + b * 13) % DENSITY = 0
HasMateInOne(p) == \E m \in Legal(p) : IsMate(Make(p, m))

Emit(p, fam) ==
    LET lm == Legal(p)
    IN  IF lm = {} THEN TRUE
        ELSE PrintT("@@GEN " \o ToJson([fam |-> fam, b |-> [i \in 1..64 |-> p.board[i]], stm |-> p.stm, cr |-> 0,
                                        ep |-> -1, hmc |-> 0, pl |-> p.stm, fen |-> FenOf(p),
                                        m1 |-> HasMateInOne(p)]))

Try(S, fam) ==
    IF Cardinality({x[1] : x \in S}) # Cardinality(S) THEN TRUE
    ELSE \A stm \in 0..1 :
           LET p == [board |-> [i \in 1..64 |-> IF \E x \in S : x[1] = i - 1
                                                THEN (CHOOSE x \in S : x[1] = i - 1)[2] ELSE 0],
                     stm |-> stm, castle |-> {}, ep |-> -1, hmc |-> 0, plies |-> stm]
           IN  IF LegalPosition(p) THEN Emit(p, fam) /\ Emit(Mirror(p), fam) ELSE TRUE

Near(k, d) == {s \in Sq : s # k /\ (FileOf(s) - FileOf(k)) \in -d..d /\ (RankOf(s) - RankOf(k)) \in -d..d}
BKs == <<63, 62, 60, 59, 56, 39, 31>>        \* sharded by position in this list

Run ==
    \A bk \in {BKs[i] : i \in {j \in 1..Len(BKs) : j % NSHARDS = SHARD}} : \A wk \in Near(bk, 2) :
      /\ \A q \in {s \in Sq : Keep(wk, s)} :
           /\ Try({<<bk, PieceOf(1, King)>>, <<wk, W(King)>>, <<q, W(Queen)>>}, "KQK")
           /\ Try({<<bk, PieceOf(1, King)>>, <<wk, W(King)>>, <<q, W(Rook)>>}, "KRK")
           /\ \A r \in {s \in Sq : Keep(q + 3, s + wk)} :
                /\ Try({<<bk, PieceOf(1, King)>>, <<wk, W(King)>>, <<q, W(Rook)>>, <<r, W(Rook)>>}, "KRRK")
                /\ (IsLight(q) # IsLight(r) =>
                      Try({<<bk, PieceOf(1, King)>>, <<wk, W(King)>>, <<q, W(Bishop)>>, <<r, W(Bishop)>>}, "KBBK"))
                /\ Try({<<bk, PieceOf(1, King)>>, <<wk, W(King)>>, <<q, W(Queen)>>, <<r, W(Queen)>>,
                        <<(q + r) % 64, W(Queen)>>}, "KQQQK")
                /\ Try({<<bk, PieceOf(1, King)>>, <<wk, W(King)>>, <<q, W(Pawn)>>, <<r, PieceOf(1, Rook)>>}, "KPKR")

ASSUME Run
VARIABLE x
Init == x = 0
Next == x' = x
=============================================================================
