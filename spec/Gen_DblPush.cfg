INIT Init
NEXT Next
