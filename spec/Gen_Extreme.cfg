INIT Init
NEXT Next
