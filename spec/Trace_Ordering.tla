----------------------------- MODULE Trace_Ordering -----------------------------
(***************************************************************************)
(* Trace validation of the real KillersTable / HistoryTable /               *)
(* CountermoveTable against OrderingTables.tla with the engine's constants *)
(* (history cap 999,999,999, decay 8).  Moves 1..3, 0 = none; plies 0, 1    *)
(* (the second stands for ply 254).                                        *)
(***************************************************************************)
EXTENDS Integers, Sequences, FiniteSets, TLC, Json, IOUtils, Reporting

Rec == ndJsonDeserialize(IOEnv.TRACE)
N == Len(Rec)
HistoryMax == 999999999
Decay == 8

VARIABLES killers, history, counter, l
tv == <<killers, history, counter, l>>

Init == /\ killers = <<<<0, 0>>, <<0, 0>>>> /\ history = <<0, 0, 0>> /\ counter = <<0, 0, 0>> /\ l = 1

Expect(e) ==
    CASE e.op = "push" ->
           [k |-> IF killers[e.a + 1][1] = e.b THEN killers
                  ELSE [killers EXCEPT ![e.a + 1] = <<e.b, killers[e.a + 1][1]>>],
            h |-> history, c |-> counter]
      [] e.op = "bonus" ->
           [k |-> killers,
            h |-> [history EXCEPT ![e.a] = IF @ + e.b * e.b > HistoryMax THEN HistoryMax ELSE @ + e.b * e.b],
            c |-> counter]
      [] e.op = "counter" -> [k |-> killers, h |-> history, c |-> [counter EXCEPT ![e.a] = e.b]]
      [] e.op = "newsearch" ->
           [k |-> <<<<0, 0>>, <<0, 0>>>>, h |-> [i \in 1..3 |-> history[i] \div Decay], c |-> <<0, 0, 0>>]
      [] e.op = "reset" -> [k |-> killers, h |-> <<0, 0, 0>>, c |-> counter]

Step ==
    /\ l <= N /\ l' = l + 1
    /\ LET e == Rec[l]
           x == Expect(e)
           got == [k |-> <<<<e.k[1][1], e.k[1][2]>>, <<e.k[2][1], e.k[2][2]>>>>,
                   h |-> <<e.h[1], e.h[2], e.h[3]>>, c |-> <<e.c[1], e.c[2], e.c[3]>>]
       IN  /\ ViolAt(got = x, "ORD", l, "ordering-table-step", [op |-> e.op, a |-> e.a, b |-> e.b, got |-> got, want |-> x])
           \* the other side's scores are never touched by these operations on White's moves
           /\ ViolAt(e.op = "newsearch" \/ e.op = "reset" \/ <<e.hb[1], e.hb[2], e.hb[3]>> = <<0, 0, 0>>, "ORD", l, "other-side-touched", e.hb)
           \* properties of OrderingTables on the observed state
           /\ ViolAt(\A p \in 1..2 : got.k[p][1] = 0 \/ got.k[p][1] # got.k[p][2], "ORD", l, "killers-equal", got.k)
           /\ ViolAt(\A i \in 1..3 : got.h[i] >= 0 /\ got.h[i] <= HistoryMax, "ORD", l, "history-out-of-range", got.h)
           /\ killers' = got.k /\ history' = got.h /\ counter' = got.c

Spec == Init /\ [][Step]_tv
Accepted == TLCGet("stats").diameter = N + 1
=============================================================================
