INIT Init
NEXT Next
