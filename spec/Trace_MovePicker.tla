-------------------------- MODULE Trace_MovePicker --------------------------
(***************************************************************************)
(* C10, trace validation.  Every record is one REAL position with the runs *)
(* of the real MovePicker on it under different table contents:            *)
(*   b, stm, cr, ep, hmc, pl, fen   the position                           *)
(*   prev                           previous move (keys the counter move)  *)
(*   caps, quiets                   what generate_captures / _quiets list  *)
(*   runs[r]: loud, ply, hash, k1, k2, cm (as the picker reads them),      *)
(*            hist (history value per entry of quiets), outcome, out       *)
(*                                                                         *)
(* PropertyView (a failing clause is a VIOLATION), judged by the rule book *)
(* Chess!Legal(pos), never by the engine's own lists:                      *)
(*   full variant   out is duplicate-free and its set is exactly Legal     *)
(*   loud variant   out is duplicate-free, a subset of Legal, and contains *)
(*                  every legal capture (en passant included) and every    *)
(*                  legal promotion to a queen                             *)
(*   both           the run ended by itself (not cut after 400 yields) and *)
(*                  did not panic                                          *)
(* Domain of the property (a failing clause is a malformed trace, id       *)
(* TRACE): the position is legal; the remembered move is legal or absent.  *)
(*                                                                         *)
(* CodeView (a failing clause is DRIFT): the two generated lists are the   *)
(* rule book's {captures, queen promotions} and the rest; out equals       *)
(* MovePicker!ModelOutput for the recorded configuration, the capture      *)
(* scores being derived HERE from See.tla and the MVV/LVA constants        *)
(* (score_tactical is private); where See.tla leaves the exchange verdict  *)
(* open (ties between equal attackers) any of the verdicts is accepted.    *)
(***************************************************************************)
EXTENDS See, MovePicker, Json, IOUtils, Reporting

\* (read once, inside the LET of the final ASSUME: a top-level definition would parse the file
\* again at every reference)
CastleSet(n) == {r \in 0..3 : (n \div (2 ^ r)) % 2 = 1}
EvPos(e) == [board |-> [i \in 1..64 |-> e.b[i]], stm |-> e.stm, castle |-> CastleSet(e.cr),
             ep |-> e.ep, hmc |-> e.hmc, plies |-> e.pl]

Seq2(s) == [i \in 1..Len(s) |-> s[i]]            \* JSON array -> sequence (also the empty one)
Uci(x) == IF x < 0 THEN "-" ELSE UciOf(UnpackMove(x))
UciSet(S) == {Uci(x) : x \in S}

\* what the captures-only variant must contain
LoudMust(L) == {m \in L : m.kind \in {1, 2} \/ m.promo = Queen}

(***************************************************************************)
(* score_tactical (move_ordering.rs) as a set: one value per verdict       *)
(***************************************************************************)
Mvv(k) == 6 * (k - 1)
Lva(k) == 5 - (k - 1)
TacticalScores(pos, m) ==
    LET b == pos.board IN
    IF m.kind = 2 THEN {GOOD + Mvv(Pawn) + Lva(Pawn)}
    ELSE IF m.kind = 1
    THEN {(IF v THEN GOOD ELSE 0) + Mvv(KindOf(At(b, m.to))) + Lva(KindOf(At(b, m.from))) :
             v \in SeeVerdicts(pos, m)}
    ELSE {HISTORY_MAX - Lva(KindOf(At(b, m.from)))}

RECURSIVE Prod(_, _)
Prod(sets, i) == IF i > Len(sets) THEN {<<>>}
                 ELSE {<<x>> \o t : x \in sets[i], t \in Prod(sets, i + 1)}
RECURSIVE ProdSize(_, _)
ProdSize(sets, i) == IF i > Len(sets) THEN 1
                     ELSE LET r == ProdSize(sets, i + 1)
                          IN  IF r > 16 THEN r ELSE Cardinality(sets[i]) * r
MaxVectors == 16

Dups(o) == {o[i] : i \in {j \in 1..Len(o) : \E k \in 1..(j - 1) : o[k] = o[j]}}

RunClauses(e, i, r, LP, must, vecs, cvOK) ==
    LET run == e.runs[r]
        o   == Seq2(run.out)
        os  == RangeOf(o)
        w   == [fen |-> e.fen, run |-> r, loud |-> run.loud, ply |-> run.ply, hash |-> Uci(run.hash),
                k1 |-> Uci(run.k1), k2 |-> Uci(run.k2), cm |-> Uci(run.cm), prev |-> Uci(e.prev)]
        c(sc) == [caps |-> Seq2(e.caps), capScore |-> sc, quiets |-> Seq2(e.quiets), hist |-> Seq2(run.hist),
                  hash |-> run.hash, k1 |-> run.k1, k2 |-> run.k2, cm |-> run.cm, loud |-> run.loud = 1]
        first == RunFull(c(CHOOSE sc \in vecs : TRUE))        \* only evaluated when cvOK
        checks ==
        /\ ViolAt(run.hash = -1 \/ run.hash \in LP, "TRACE", i, "hash-move-outside-domain", w)
        /\ ViolAt(run.loud = 0 \/ run.hash = -1, "TRACE", i, "loud-run-with-hash-move", w)
        /\ ViolAt(run.outcome # "panic", "C10", i, "panic", w)
        /\ ViolAt(run.outcome # "cut", "C10", i, "no-termination",
                  w @@ [yields |-> Len(o), first20 |-> [k \in 1..(IF Len(o) < 20 THEN Len(o) ELSE 20) |-> Uci(o[k])]])
        /\ IF run.outcome # "ok" THEN TRUE
           ELSE /\ ViolAt(NoDup(o), "C10", i, "move-yielded-twice",
                          w @@ [twice |-> UciSet(Dups(o)), stream |-> [k \in 1..Len(o) |-> Uci(o[k])]])
                /\ ViolAt(os \subseteq LP, "C10", i, "illegal-move-yielded",
                          w @@ [illegal |-> UciSet(os \ LP), stream |-> [k \in 1..Len(o) |-> Uci(o[k])]])
                /\ IF run.loud = 0
                   THEN ViolAt(LP \subseteq os, "C10", i, "legal-move-missing",
                               w @@ [missing |-> UciSet(LP \ os), stream |-> [k \in 1..Len(o) |-> Uci(o[k])]])
                   ELSE ViolAt(must \subseteq os, "C10", i, "loud-misses-capture-or-queen-promotion",
                               w @@ [missing |-> UciSet(must \ os), stream |-> [k \in 1..Len(o) |-> Uci(o[k])]])
                /\ IF ~cvOK \/ run.mut = 1 THEN TRUE
                   ELSE DriftAt(first.out = o \/ \E sc \in vecs : ModelOutput(c(sc)) = o,
                                "C10", i, "stream-differs-from-model",
                                w @@ [stream |-> [k \in 1..Len(o) |-> Uci(o[k])],
                                      model |-> [k \in 1..Len(first.out) |-> Uci(first.out[k])]])
        \* (the reports evaluate to TRUE; what is returned is bookkeeping: was the run compared with
        \* the model, and which branches of the model does this real run exercise)
    IN  IF checks /\ cvOK /\ run.outcome = "ok" /\ run.mut = 0
        THEN [cv |-> 1, edges |-> IF first.out = o THEN first.labs ELSE {}]
        ELSE [cv |-> 0, edges |-> {}]

Clauses(e, i) ==
    LET p     == EvPos(e)
        L     == Legal(p)
        LP    == {PackMove(m) : m \in L}
        must  == {PackMove(m) : m \in LoudMust(L)}
        caps  == Seq2(e.caps)
        qs    == Seq2(e.quiets)
        lists == /\ NoDup(caps) /\ RangeOf(caps) = must
                 /\ NoDup(qs) /\ RangeOf(qs) = LP \ must
        sets  == [j \in 1..Len(caps) |-> TacticalScores(p, UnpackMove(caps[j]))]
        few   == ProdSize(sets, 1) <= MaxVectors
        cvOK  == lists /\ few
        vecs  == IF cvOK THEN Prod(sets, 1) ELSE {}
        RECURSIVE Runs(_, _)
        Runs(r, acc) ==
            IF r > Len(e.runs) THEN acc
            ELSE LET x == RunClauses(e, i, r, LP, must, vecs, cvOK)
                 IN  Runs(r + 1, [cv |-> acc.cv + x.cv, edges |-> acc.edges \cup x.edges])
        checks ==
        /\ ViolAt(LegalPosition(p), "TRACE", i, "not-a-legal-position", [fen |-> e.fen])
        /\ DriftAt(lists, "C10", i, "generated-lists-differ-from-rule-book-split",
                   [fen |-> e.fen, caps |-> UciSet(RangeOf(caps)), quiets |-> UciSet(RangeOf(qs)),
                    captures_and_queen_promotions |-> UciSet(must), others |-> UciSet(LP \ must)])
        /\ (IF lists /\ ~few THEN Stat("cvskip", [fen |-> e.fen]) ELSE TRUE)
        /\ (IF cvOK /\ Cardinality(vecs) > 1 THEN Stat("seeopen", [fen |-> e.fen, n |-> Cardinality(vecs)]) ELSE TRUE)
    IN  IF checks THEN Runs(1, [cv |-> 0, edges |-> {}]) @@ [legal |-> Cardinality(L), runs |-> Len(e.runs)]
        ELSE [cv |-> 0, edges |-> {}, legal |-> 0, runs |-> 0]

\* Bookkeeping over the file in TLC register 1 (a recursive fold with an accumulator record costs
\* quadratic time in TLC): positions, runs examined, legal moves by the rule book, runs compared
\* with the model, model branches exercised by real runs.
Tally(x) == TLCSet(1, [positions |-> TLCGet(1).positions + 1, cv |-> TLCGet(1).cv + x.cv,
                       edges |-> TLCGet(1).edges \cup x.edges, legal |-> TLCGet(1).legal + x.legal,
                       runs |-> TLCGet(1).runs + x.runs])

ASSUME TLCSet(1, [positions |-> 0, cv |-> 0, edges |-> {}, legal |-> 0, runs |-> 0])
ASSUME LET rec == ndJsonDeserialize(IOEnv.TRACE)
       IN  \A i \in 1..Len(rec) : Tally(Clauses(rec[i], i))
ASSUME Stat("picker", TLCGet(1))

\* the variables of MovePicker are not used by this module
TInit == InitWith([caps |-> <<>>, capScore |-> <<>>, quiets |-> <<>>, hist |-> <<>>, hash |-> Absent,
                   k1 |-> Absent, k2 |-> Absent, cm |-> Absent, loud |-> FALSE])
TNext == UNCHANGED vars
=============================================================================
