------------------------------ MODULE ChessGame ------------------------------
(***************************************************************************)
(* The game as a state machine: a position, the stack of saved states, the *)
(* position key as a set of active components, the evaluation accumulator  *)
(* and the three redundant board views.                                    *)
(*                                                                         *)
(* Two layers (DESIGN.md 1.3):                                             *)
(*   PropertyView  - what the rules prescribe: Chess!Make, pop on undo,    *)
(*                   FullKey / FullAcc / views derived from the position.  *)
(*   CodeView      - a transcription of Game::make_move / undo_move /      *)
(*                   make_null_move / undo_null_move micro-step by         *)
(*                   micro-step, each micro-step touching the mailbox, the *)
(*                   by-kind and by-colour sets, the key and the           *)
(*                   accumulator together exactly as Game::set_at /        *)
(*                   Game::remove_at / Board::set_at / Board::remove_at do.*)
(* The actions below ARE the CodeView; the invariants say CodeView agrees  *)
(* with PropertyView in every reachable state.                             *)
(***************************************************************************)
EXTENDS Draws

VARIABLES pos,      \* Chess!Position
          stack,    \* sequence of saved [pos, key, acc, mv, captured]
          key,      \* set of component ids (XOR of words == symmetric difference of sets)
          acc,      \* [phase, bag, ok]
          views     \* [kinds : 1..6 -> SUBSET Sq, cols : 0..1 -> SUBSET Sq]

gvars == <<pos, stack, key, acc, views>>

SD(A, B) == (A \ B) \cup (B \ A)
NullMv == [from |-> -1, to |-> -1, promo |-> 0, kind |-> -1]

(***************************************************************************)
(* Key components.  Ids coincide with indices into the dumped word table.  *)
(***************************************************************************)
CompPiece(p, s) == (p - 1) * 64 + s + 1          \* 1..768
CompRight(r)    == 769 + r                       \* 769..772
CompEp(e)       == IF e = -1 THEN 837 ELSE 773 + e
CompStm         == 838

FullKey(p) ==
    {CompPiece(At(p.board, s), s) : s \in Occ(p.board)}
    \cup {CompRight(r) : r \in p.castle}
    \cup {CompEp(p.ep)}
    \cup (IF p.stm = 1 THEN {CompStm} ELSE {})

PhaseW(k) == CASE k \in {Pawn, King} -> 0 [] k \in {Knight, Bishop} -> 1
               [] k = Rook -> 2 [] k = Queen -> 4

RECURSIVE SumPhase(_, _)
SumPhase(b, i) == IF i > 64 THEN 0
                  ELSE (IF b[i] = 0 THEN 0 ELSE PhaseW(KindOf(b[i]))) + SumPhase(b, i + 1)

FullAcc(p) == [phase |-> SumPhase(p.board, 1),
               bag   |-> {CompPiece(At(p.board, s), s) : s \in Occ(p.board)},
               ok    |-> TRUE]

FullViews(b) ==
    [kinds |-> [k \in 1..6 |-> {s \in Sq : KindOf(At(b, s)) = k}],
     cols  |-> [c \in 0..1 |-> {s \in Sq : At(b, s) # 0 /\ ColourOf(At(b, s)) = c}]]

(***************************************************************************)
(* Micro-steps.  st = [b, kinds, cols, key, acc]                           *)
(***************************************************************************)
\* Board::remove_at : XOR on the by-kind set, clear on the by-colour set, mailbox := None.
BoardRemove(st, s) ==
    LET p == At(st.b, s)
    IN  IF p = 0 THEN st
        ELSE [st EXCEPT !.b = [st.b EXCEPT ![s + 1] = 0],
                        !.kinds = [st.kinds EXCEPT ![KindOf(p)] = SD(@, {s})],
                        !.cols = [st.cols EXCEPT ![ColourOf(p)] = @ \ {s}]]

\* Board::set_at : OR into both sets, mailbox := piece; nothing is cleared.
BoardSet(st, s, p) ==
    [st EXCEPT !.b = [st.b EXCEPT ![s + 1] = p],
               !.kinds = [st.kinds EXCEPT ![KindOf(p)] = @ \cup {s}],
               !.cols = [st.cols EXCEPT ![ColourOf(p)] = @ \cup {s}]]

\* Game::remove_at (unwraps the piece: an empty square is a crash, recorded in acc.ok)
GameRemove(st, s) ==
    LET p  == At(st.b, s)
        s1 == BoardRemove(st, s)
    IN  IF p = 0 THEN [st EXCEPT !.acc.ok = FALSE]
        ELSE [s1 EXCEPT !.key = SD(st.key, {CompPiece(p, s)}),
                        !.acc = [phase |-> st.acc.phase - PhaseW(KindOf(p)),
                                 bag   |-> st.acc.bag \ {CompPiece(p, s)},
                                 ok    |-> st.acc.ok /\ CompPiece(p, s) \in st.acc.bag]]

GameSet(st, s, p) ==
    LET s1 == BoardSet(st, s, p)
    IN  [s1 EXCEPT !.key = SD(st.key, {CompPiece(p, s)}),
                   !.acc = [phase |-> st.acc.phase + PhaseW(KindOf(p)),
                            bag   |-> st.acc.bag \cup {CompPiece(p, s)},
                            ok    |-> st.acc.ok /\ CompPiece(p, s) \notin st.acc.bag]]

St == [b |-> pos.board, kinds |-> views.kinds, cols |-> views.cols, key |-> key, acc |-> acc]

\* squares::castle_squares(player, king_moved_to)
CastleRook(c, to) ==
    CASE to = 6 + 56 * c -> <<7 + 56 * c, 5 + 56 * c>>
      [] to = 2 + 56 * c -> <<56 * c, 3 + 56 * c>>
      [] OTHER -> <<-1, -1>>

\* try_remove_castle_rights: the word is toggled only when the right is actually lost.
DropRight(cs, r) == [castle |-> cs.castle \ {r},
                     key |-> IF r \in cs.castle THEN SD(cs.key, {CompRight(r)}) ELSE cs.key]

(***************************************************************************)
(* CodeView of Game::make_move                                             *)
(***************************************************************************)
MakeCV(m) ==
    LET c      == pos.stm
        o      == Other(c)
        capt   == At(pos.board, m.to)
        s1     == GameRemove(St, m.from)
        moved  == At(pos.board, m.from)
        s2     == IF capt # 0 THEN GameRemove(s1, m.to) ELSE s1
        s3     == GameSet(s2, m.to, IF m.promo # 0 THEN PieceOf(c, m.promo) ELSE moved)
        vic    == m.to - 8 * PawnDir(c)
        s4     == IF m.kind = 2 THEN GameRemove(s3, vic) ELSE s3
        \* new en-passant target, computed on the board after the capture steps
        dbl    == /\ KindOf(moved) = Pawn
                  /\ RankOf(m.from) = StartRank(c)
                  /\ RankOf(m.to) = (IF c = 0 THEN 3 ELSE 4)
        beside == {t \in {m.to - 1, m.to + 1} : t \in Sq /\ RankOf(t) = RankOf(m.to)}
        newEp  == IF dbl /\ \E t \in beside : At(s4.b, t) = PieceOf(o, Pawn)
                  THEN m.from + 8 * PawnDir(c) ELSE -1
        k5     == SD(SD(s4.key, {CompEp(pos.ep)}), {CompEp(newEp)})
        rk     == CastleRook(c, m.to)
        s6     == IF m.kind = 3 /\ rk[1] # -1
                  THEN GameSet(GameRemove([s4 EXCEPT !.key = k5], rk[1]), rk[2], PieceOf(c, Rook))
                  ELSE [s4 EXCEPT !.key = k5]
        cs0    == [castle |-> pos.castle, key |-> s6.key]
        cs1    == IF KindOf(moved) = King /\ m.from = KingHome(c)
                  THEN DropRight(DropRight(cs0, 2 * c), 2 * c + 1)
                  ELSE IF KindOf(moved) = Rook /\ m.from = RookHome(2 * c) THEN DropRight(cs0, 2 * c)
                  ELSE IF KindOf(moved) = Rook /\ m.from = RookHome(2 * c + 1) THEN DropRight(cs0, 2 * c + 1)
                  ELSE cs0
        cs2    == IF capt # 0 /\ m.to = RookHome(2 * o) THEN DropRight(cs1, 2 * o)
                  ELSE IF capt # 0 /\ m.to = RookHome(2 * o + 1) THEN DropRight(cs1, 2 * o + 1)
                  ELSE cs1
    IN  [pos   |-> [board |-> s6.b, stm |-> o, castle |-> cs2.castle, ep |-> newEp,
                    hmc |-> IF capt # 0 \/ KindOf(moved) = Pawn THEN 0 ELSE pos.hmc + 1,
                    plies |-> pos.plies + 1],
         key   |-> SD(cs2.key, {CompStm}),
         acc   |-> s6.acc,
         views |-> [kinds |-> s6.kinds, cols |-> s6.cols],
         saved |-> [pos |-> pos, key |-> key, acc |-> acc, mv |-> m, captured |-> capt]]

(***************************************************************************)
(* CodeView of Game::undo_move : scalar fields and key/accumulator from    *)
(* the saved record, the board by reversing the steps.                     *)
(***************************************************************************)
UndoCV ==
    LET h   == stack[Len(stack)]
        m   == h.mv
        c   == Other(pos.stm)            \* the player who made the move
        o   == pos.stm
        s0  == [b |-> pos.board, kinds |-> views.kinds, cols |-> views.cols,
                key |-> key, acc |-> acc]
        rk  == CastleRook(c, m.to)
        s1  == IF m.kind = 3 /\ rk[1] # -1
               THEN BoardSet(BoardRemove(s0, rk[2]), rk[1], PieceOf(c, Rook)) ELSE s0
        s2  == IF m.kind = 2 THEN BoardSet(s1, m.to - 8 * PawnDir(c), PieceOf(o, Pawn)) ELSE s1
        mvd == At(s2.b, m.to)
        s3  == BoardRemove(s2, m.to)
        s4  == IF h.captured # 0 THEN BoardSet(s3, m.to, h.captured) ELSE s3
        s5  == BoardSet(s4, m.from, IF m.promo # 0 THEN PieceOf(c, Pawn) ELSE mvd)
    IN  [pos   |-> [board |-> s5.b, stm |-> c, castle |-> h.pos.castle, ep |-> h.pos.ep,
                    hmc |-> h.pos.hmc, plies |-> pos.plies - 1],
         key   |-> h.key,
         acc   |-> h.acc,
         views |-> [kinds |-> s5.kinds, cols |-> s5.cols]]

(***************************************************************************)
(* Actions                                                                 *)
(***************************************************************************)
Load(p) ==
    /\ pos' = p
    /\ stack' = <<>>
    /\ key' = FullKey(p)
    /\ acc' = FullAcc(p)
    /\ views' = FullViews(p.board)

\* r is the record produced by MakeCV / NullCV
Apply(r) ==
    /\ pos' = r.pos
    /\ key' = r.key
    /\ acc' = r.acc
    /\ views' = r.views
    /\ stack' = Append(stack, r.saved)

Move(m) ==
    /\ m \in Legal(pos)
    /\ Apply(MakeCV(m))

\* A search passes only when it is not in check.
NullCV ==
    [pos   |-> [pos EXCEPT !.stm = Other(pos.stm), !.ep = -1, !.plies = pos.plies + 1],
     key   |-> SD(SD(SD(key, {CompEp(pos.ep)}), {CompEp(-1)}), {CompStm}),
     acc   |-> acc,
     views |-> views,
     saved |-> [pos |-> pos, key |-> key, acc |-> acc, mv |-> NullMv, captured |-> 0]]

Null ==
    /\ ~InCheck(pos)
    /\ Apply(NullCV)

Undo ==
    /\ stack # <<>>
    /\ stack[Len(stack)].mv.kind # -1
    /\ LET r == UndoCV
       IN  /\ pos' = r.pos
           /\ key' = r.key
           /\ acc' = r.acc
           /\ views' = r.views
    /\ stack' = SubSeq(stack, 1, Len(stack) - 1)

\* undo_null_move restores key, target, clock and accumulator; rights and board are untouched.
UndoNull ==
    /\ stack # <<>>
    /\ stack[Len(stack)].mv.kind = -1
    /\ LET h == stack[Len(stack)]
       IN  /\ pos' = [pos EXCEPT !.stm = Other(pos.stm), !.ep = h.pos.ep,
                                 !.hmc = h.pos.hmc, !.plies = pos.plies - 1]
           /\ key' = h.key
           /\ acc' = h.acc
    /\ UNCHANGED views
    /\ stack' = SubSeq(stack, 1, Len(stack) - 1)

(***************************************************************************)
(* PropertyView: invariants and action properties                          *)
(***************************************************************************)
KeyConsistent   == key = FullKey(pos)                       \* C03
AccConsistent   == acc = FullAcc(pos)                       \* C15
ViewsAgree      == views = FullViews(pos.board)             \* C02 (three views)
OppNotInCheck   == ~InCheckB(pos.board, Other(pos.stm))
OneKingEach     == /\ Cardinality(SquaresOf(pos.board, PieceOf(0, King))) = 1
                   /\ Cardinality(SquaresOf(pos.board, PieceOf(1, King))) = 1
RightsConsistent == \A r \in pos.castle : RightConsistent(pos.board, r)
EpOK            == EpConsistent(pos)
StackSaved      == \A i \in 1..Len(stack) :
                      /\ stack[i].key = FullKey(stack[i].pos)
                      /\ stack[i].acc = FullAcc(stack[i].pos)

\* C02: a real move produces exactly the position the rule book prescribes.
MakeFollowsRules ==
    \A m \in Legal(pos) : MakeCV(m).pos = Make(pos, m)

\* C02: taking back restores every observable aspect (action property).
UndoRestores ==
    [][(Len(stack') = Len(stack) - 1) =>
          /\ pos' = stack[Len(stack)].pos
          /\ key' = stack[Len(stack)].key
          /\ acc' = stack[Len(stack)].acc]_gvars

(***************************************************************************)
(* Repetition and the fifty-move rule (C11)                                *)
(***************************************************************************)
\* Irreversible, RepScan, RepeatedPV (the rule-book definitions) live in Draws.tla.

\* CodeView: any of the last `halfmove clock' saved keys equals the current key.
RepeatedCV(p, k, st) ==
    \E i \in 1..Len(st) : i > Len(st) - p.hmc /\ st[i].key = k


\* On null-free histories whose saved clocks are consistent with their length the window
\* rule coincides with the rule-book definition.
WindowRule == NullFree(stack) => (RepeatedCV(pos, key, stack) <=> RepeatedPV(pos, stack))
WindowSound == RepeatedCV(pos, key, stack) => EarlierIdentical(pos, stack)

=============================================================================
