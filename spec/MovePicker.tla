----------------------------- MODULE MovePicker -----------------------------
(***************************************************************************)
(* C10.  The staged move generator of the search (move_picker.rs) as a     *)
(* state machine over an ABSTRACT CONFIGURATION:                           *)
(*                                                                         *)
(*   caps      what generate_captures lists, in generation order           *)
(*   capScore  the score of each of them (>= GOOD: winning capture)        *)
(*   quiets    what generate_quiets lists, in generation order             *)
(*   hist      the history value of each quiet move                        *)
(*   hash      the remembered best move: a listed move or Absent           *)
(*   k1,k2,cm  the two killers of the ply and the counter move: ANY value  *)
(*             (a listed move, Absent, or a move that is not listed -      *)
(*             Foreign stands for the latter in the bounded model)         *)
(*   loud      TRUE for the captures-only variant (MovePicker::new_loud)   *)
(*                                                                         *)
(* Moves are integers >= 0 (in traces: the packed move of Chess.tla).      *)
(* The configuration is a constant of every behaviour: it is chosen by the *)
(* initial predicate InitWith(c) of the model at hand and never changes    *)
(* (variable cfg, ConfigFrozen).  It is a variable rather than a CONSTANT  *)
(* declaration only because TLC must range over millions of them in one    *)
(* run: the MC module enumerates all configurations within bounds as       *)
(* initial states, the trace module evaluates ModelOutput(c) for recorded  *)
(* configurations.                                                         *)
(*                                                                         *)
(* One operator per `if self.stage == X` block of MovePicker::next, each   *)
(* mapping the cursor state to its successor and naming the branch taken;  *)
(* cursors are 0-based as in the code, sequences 1-based (At0).            *)
(* The actions of the state machine and ModelOutput are both defined from  *)
(* these operators, so what is model-checked is what predicts the stream.  *)
(***************************************************************************)
EXTENDS Integers, Sequences, FiniteSets, TLC

Absent  == -1          \* Option::None
Foreign == -2          \* a Move value that is not in the lists (bounded model)
None    == -1          \* first_bad_capture: Option<usize>

\* move_ordering.rs
GOOD        == 1000000000          \* GOOD_CAPTURE_SCORE
HISTORY_MAX == GOOD - 1            \* HISTORY_MAX_SCORE
QUIET       == 100000000           \* QUIET_SCORE

At0(seq, i) == seq[i + 1]
Swap0(seq, i, j) == IF i = j THEN seq ELSE [seq EXCEPT ![i + 1] = seq[j + 1], ![j + 1] = seq[i + 1]]
RangeOf(seq) == {seq[i] : i \in 1..Len(seq)}
NoDup(seq) == Cardinality(RangeOf(seq)) = Len(seq)
Zeros(n) == [i \in 1..n |-> 0]

ConfigOK(c) ==
    /\ Len(c.capScore) = Len(c.caps) /\ Len(c.hist) = Len(c.quiets)
    /\ NoDup(c.caps \o c.quiets)
    /\ \A i \in 1..Len(c.caps) : c.caps[i] >= 0
    /\ \A i \in 1..Len(c.quiets) : c.quiets[i] >= 0
    /\ c.loud => c.hash = Absent                      \* new_loud() has no remembered move

Listed(c) == RangeOf(c.caps) \cup RangeOf(c.quiets)

\* score_quiet: QUIET_SCORE + history value of the move
HistOf(c, m) == c.hist[CHOOSE j \in 1..Len(c.quiets) : c.quiets[j] = m]

(***************************************************************************)
(* next_best_move(limit): one step of a selection sort over [idx, limit)   *)
(* that skips the remembered move.                                         *)
(***************************************************************************)
\* index of the FIRST maximum of sc over [i, limit), given the best so far (strict >)
RECURSIVE ArgMax(_, _, _, _, _)
ArgMax(sc, i, limit, bi, bs) ==
    IF i >= limit THEN bi
    ELSE IF At0(sc, i) > bs THEN ArgMax(sc, i + 1, limit, i, At0(sc, i))
    ELSE ArgMax(sc, i + 1, limit, bi, bs)

RECURSIVE NextBest(_, _, _, _, _)
NextBest(hash, mv, sc, ix, limit) ==
    IF ix = limit
    THEN [found |-> FALSE, moves |-> mv, scores |-> sc, idx |-> ix, move |-> Absent, score |-> 0]
    ELSE LET b    == ArgMax(sc, ix + 1, limit, ix, At0(sc, ix))
             best == At0(mv, b)
             bs   == At0(sc, b)
             mv2  == Swap0(mv, ix, b)          \* moves.swap(idx, best) ; scores.swap(idx, best)
             sc2  == Swap0(sc, ix, b)
         IN  IF best = hash                    \* already handed out first: skip it
             THEN NextBest(hash, mv2, sc2, ix + 1, limit)
             ELSE [found |-> TRUE, moves |-> mv2, scores |-> sc2, idx |-> ix + 1, move |-> best, score |-> bs]

(***************************************************************************)
(* The loop of the Killer1 / Killer2 / CounterMove blocks:                 *)
(*   for i in first_quiet..moves.len() { if moves[i] == k {                *)
(*       moves.swap(first_quiet, i); first_quiet += 1;                     *)
(*       if Some(k) != previous_best_move { return Some(k) } } }           *)
(* (the range is evaluated once; first_quiet moves while the loop runs)    *)
(***************************************************************************)
RECURSIVE KLoop(_, _, _, _, _, _, _)
KLoop(k, hash, mv, fq, i, n, hit) ==
    IF i >= n THEN [moves |-> mv, fq |-> fq, yield |-> FALSE, hit |-> hit]
    ELSE IF At0(mv, i) = k
         THEN IF k # hash
              THEN [moves |-> Swap0(mv, fq, i), fq |-> fq + 1, yield |-> TRUE, hit |-> TRUE]
              ELSE KLoop(k, hash, Swap0(mv, fq, i), fq + 1, i + 1, n, TRUE)
         ELSE KLoop(k, hash, mv, fq, i + 1, n, hit)

(***************************************************************************)
(* Stage blocks.  s is the cursor state, the result is [lab, st].          *)
(***************************************************************************)
InitState ==
    [stage |-> "BestMove", idx |-> 0, capturesEnd |-> 0, firstBad |-> None, firstQuiet |-> 0,
     moves |-> <<>>, scores |-> <<>>, out |-> <<>>]

BestBlk(c, s) ==
    IF c.hash # Absent
    THEN [lab |-> "yield", st |-> [s EXCEPT !.stage = "GenCaptures", !.out = Append(@, c.hash)]]
    ELSE [lab |-> "none",  st |-> [s EXCEPT !.stage = "GenCaptures"]]

GenCapsBlk(c, s) ==
    [lab |-> "gen",
     st  |-> [s EXCEPT !.stage = "GoodCaptures", !.moves = s.moves \o c.caps,
                       !.scores = s.scores \o c.capScore,
                       !.capturesEnd = Len(s.moves) + Len(c.caps),
                       !.firstQuiet = Len(s.moves) + Len(c.caps)]]

\* leaving GoodCaptures
LeaveGood(c, t) ==
    IF c.loud
    THEN IF t.firstBad = None THEN [t EXCEPT !.stage = "Done"]
         ELSE [t EXCEPT !.idx = t.firstBad, !.stage = "BadCaptures"]
    ELSE [t EXCEPT !.stage = "GenQuiets"]

GoodBlk(c, s) ==
    LET r  == NextBest(c.hash, s.moves, s.scores, s.idx, s.capturesEnd)
        s1 == [s EXCEPT !.moves = r.moves, !.scores = r.scores, !.idx = r.idx]
        sfx == IF c.loud THEN "L" ELSE ""
    IN  IF r.found /\ r.score >= GOOD
        THEN [lab |-> "yield", st |-> [s1 EXCEPT !.out = Append(@, r.move)]]
        ELSE IF r.found
        THEN \* the best remaining capture is a losing one: park it and all the others
             [lab |-> "park" \o sfx,
              st  |-> LeaveGood(c, [s1 EXCEPT !.firstBad = r.idx - 1, !.idx = s.capturesEnd])]
        ELSE [lab |-> "exh" \o sfx, st |-> LeaveGood(c, s1)]

GenQuietsBlk(c, s) ==
    [lab |-> "gen",
     st  |-> [s EXCEPT !.stage = "Killer1", !.moves = s.moves \o c.quiets,
                       !.scores = s.scores \o Zeros(Len(c.quiets))]]

\* shared by Killer1, Killer2 and CounterMove; s already carries the stage to continue with
KBlk(c, s, k, sfx) ==
    IF k = Absent THEN [lab |-> "none" \o sfx, st |-> s]
    ELSE LET r == KLoop(k, c.hash, s.moves, s.firstQuiet, s.firstQuiet, Len(s.moves), FALSE)
         IN  [lab |-> (IF r.yield THEN "yield" ELSE IF r.hit THEN "skip" ELSE "miss") \o sfx,
              st  |-> [s EXCEPT !.moves = r.moves, !.firstQuiet = r.fq,
                                !.out = IF r.yield THEN Append(@, k) ELSE @]]

K1Blk(c, s) == KBlk(c, [s EXCEPT !.stage = "Killer2"], c.k1, "")
K2Blk(c, s) == KBlk(c, [s EXCEPT !.stage = "CounterMove"], c.k2, "")
CMBlk(c, s) ==
    IF s.firstBad = None
    THEN KBlk(c, [s EXCEPT !.stage = "ScoreQuiets"], c.cm, "S")
    ELSE KBlk(c, [s EXCEPT !.idx = s.firstBad, !.stage = "BadCaptures"], c.cm, "B")

BadBlk(c, s) ==
    LET r  == NextBest(c.hash, s.moves, s.scores, s.idx, s.capturesEnd)
        s1 == [s EXCEPT !.moves = r.moves, !.scores = r.scores, !.idx = r.idx]
    IN  IF r.found THEN [lab |-> "yield", st |-> [s1 EXCEPT !.out = Append(@, r.move)]]
        ELSE IF c.loud THEN [lab |-> "exhL", st |-> [s1 EXCEPT !.stage = "Done"]]
        ELSE [lab |-> "exh", st |-> [s1 EXCEPT !.stage = "ScoreQuiets"]]

ScoreQBlk(c, s) ==
    [lab |-> "score",
     st  |-> [s EXCEPT !.stage = "Quiets", !.idx = s.firstQuiet,
                       !.scores = [i \in 1..Len(s.moves) |->
                                      IF i - 1 >= s.firstQuiet THEN QUIET + HistOf(c, s.moves[i])
                                      ELSE s.scores[i]]]]

QuietsBlk(c, s) ==
    LET r  == NextBest(c.hash, s.moves, s.scores, s.idx, Len(s.moves))
        s1 == [s EXCEPT !.moves = r.moves, !.scores = r.scores, !.idx = r.idx]
    IN  IF r.found THEN [lab |-> "yield", st |-> [s1 EXCEPT !.out = Append(@, r.move)]]
        ELSE [lab |-> "exh", st |-> [s1 EXCEPT !.stage = "Done"]]

Blk(c, s) ==
    CASE s.stage = "BestMove"     -> BestBlk(c, s)
      [] s.stage = "GenCaptures"  -> GenCapsBlk(c, s)
      [] s.stage = "GoodCaptures" -> GoodBlk(c, s)
      [] s.stage = "GenQuiets"    -> GenQuietsBlk(c, s)
      [] s.stage = "Killer1"      -> K1Blk(c, s)
      [] s.stage = "Killer2"      -> K2Blk(c, s)
      [] s.stage = "CounterMove"  -> CMBlk(c, s)
      [] s.stage = "BadCaptures"  -> BadBlk(c, s)
      [] s.stage = "ScoreQuiets"  -> ScoreQBlk(c, s)
      [] s.stage = "Quiets"       -> QuietsBlk(c, s)

(***************************************************************************)
(* The deterministic stream of a configuration (used by trace validation), *)
(* together with the set of branches "Stage:label" taken on the way.       *)
(* fuel bounds the number of blocks: a model that fails to reach Done      *)
(* answers <<-1>>, which is not a stream of moves.                         *)
(***************************************************************************)
RECURSIVE RunFrom(_, _, _, _)
RunFrom(c, s, fuel, labs) ==
    IF s.stage = "Done" THEN [out |-> s.out, labs |-> labs]
    ELSE IF fuel = 0 THEN [out |-> <<-1>>, labs |-> labs]
    ELSE LET r == Blk(c, s) IN RunFrom(c, r.st, fuel - 1, labs \cup {s.stage \o ":" \o r.lab})
RunFull(c) == RunFrom(c, InitState, 2 * (Len(c.caps) + Len(c.quiets)) + 16, {})
ModelOutput(c) == RunFull(c).out

(***************************************************************************)
(* The state machine                                                       *)
(***************************************************************************)
VARIABLES cfg, stage, idx, capturesEnd, firstBad, firstQuiet, moves, scores, out
cursor == <<stage, idx, capturesEnd, firstBad, firstQuiet, moves, scores, out>>
vars == <<cfg, stage, idx, capturesEnd, firstBad, firstQuiet, moves, scores, out>>

Cur == [stage |-> stage, idx |-> idx, capturesEnd |-> capturesEnd, firstBad |-> firstBad,
        firstQuiet |-> firstQuiet, moves |-> moves, scores |-> scores, out |-> out]
Set(s) == /\ stage' = s.stage /\ idx' = s.idx /\ capturesEnd' = s.capturesEnd
          /\ firstBad' = s.firstBad /\ firstQuiet' = s.firstQuiet
          /\ moves' = s.moves /\ scores' = s.scores /\ out' = s.out

InitWith(c) ==
    /\ cfg = c
    /\ stage = InitState.stage /\ idx = InitState.idx /\ capturesEnd = InitState.capturesEnd
    /\ firstBad = InitState.firstBad /\ firstQuiet = InitState.firstQuiet
    /\ moves = InitState.moves /\ scores = InitState.scores /\ out = InitState.out

\* take the block of the current stage if it ends in the branch named l
Take(l) == LET r == Blk(cfg, Cur) IN r.lab = l /\ Set(r.st) /\ UNCHANGED cfg

BBestYield      == stage = "BestMove" /\ Take("yield")      \* the remembered move goes out first, unchecked
BBestNone       == stage = "BestMove" /\ Take("none")
BGenCaps        == stage = "GenCaptures" /\ Take("gen")
BGoodYield      == stage = "GoodCaptures" /\ Take("yield")
BGoodPark       == stage = "GoodCaptures" /\ Take("park")   \* best remaining capture loses: park the rest
BGoodParkLoud   == stage = "GoodCaptures" /\ Take("parkL")
BGoodExh        == stage = "GoodCaptures" /\ Take("exh")
BGoodExhLoud    == stage = "GoodCaptures" /\ Take("exhL")
BGenQuiets      == stage = "GenQuiets" /\ Take("gen")
BK1None         == stage = "Killer1" /\ Take("none")
BK1Miss         == stage = "Killer1" /\ Take("miss")        \* killer not among the quiet moves
BK1Skip         == stage = "Killer1" /\ Take("skip")        \* killer = remembered move: moved, not yielded
BK1Yield        == stage = "Killer1" /\ Take("yield")
BK2None         == stage = "Killer2" /\ Take("none")
BK2Miss         == stage = "Killer2" /\ Take("miss")
BK2Skip         == stage = "Killer2" /\ Take("skip")
BK2Yield        == stage = "Killer2" /\ Take("yield")
BCMNoneS        == stage = "CounterMove" /\ Take("noneS")   \* ..S: no parked captures, on to ScoreQuiets
BCMMissS        == stage = "CounterMove" /\ Take("missS")
BCMSkipS        == stage = "CounterMove" /\ Take("skipS")
BCMYieldS       == stage = "CounterMove" /\ Take("yieldS")
BCMNoneB        == stage = "CounterMove" /\ Take("noneB")   \* ..B: back to the parked captures
BCMMissB        == stage = "CounterMove" /\ Take("missB")
BCMSkipB        == stage = "CounterMove" /\ Take("skipB")
BCMYieldB       == stage = "CounterMove" /\ Take("yieldB")
BBadYield       == stage = "BadCaptures" /\ Take("yield")
BBadExh         == stage = "BadCaptures" /\ Take("exh")
BBadExhLoud     == stage = "BadCaptures" /\ Take("exhL")
BScoreQ         == stage = "ScoreQuiets" /\ Take("score")
BQuietsYield    == stage = "Quiets" /\ Take("yield")
BQuietsExh      == stage = "Quiets" /\ Take("exh")
BDone           == stage = "Done" /\ UNCHANGED vars   \* next() keeps answering None

Next ==
    \/ BBestYield \/ BBestNone \/ BGenCaps
    \/ BGoodYield \/ BGoodPark \/ BGoodParkLoud \/ BGoodExh \/ BGoodExhLoud
    \/ BGenQuiets
    \/ BK1None \/ BK1Miss \/ BK1Skip \/ BK1Yield
    \/ BK2None \/ BK2Miss \/ BK2Skip \/ BK2Yield
    \/ BCMNoneS \/ BCMMissS \/ BCMSkipS \/ BCMYieldS
    \/ BCMNoneB \/ BCMMissB \/ BCMSkipB \/ BCMYieldB
    \/ BBadYield \/ BBadExh \/ BBadExhLoud
    \/ BScoreQ \/ BQuietsYield \/ BQuietsExh
    \/ BDone       \* so that with deadlock checking on, a branch without an action is reported

ActionNames == <<"BBestYield", "BBestNone", "BGenCaps", "BGoodYield", "BGoodPark", "BGoodParkLoud",
    "BGoodExh", "BGoodExhLoud", "BGenQuiets", "BK1None", "BK1Miss", "BK1Skip", "BK1Yield", "BK2None",
    "BK2Miss", "BK2Skip", "BK2Yield", "BCMNoneS", "BCMMissS", "BCMSkipS", "BCMYieldS", "BCMNoneB",
    "BCMMissB", "BCMSkipB", "BCMYieldB", "BBadYield", "BBadExh", "BBadExhLoud", "BScoreQ",
    "BQuietsYield", "BQuietsExh">>

\* The same relation without the branch names (one evaluation of the block per state):
\* used for the large shapes, where the per-branch actions would cost a factor.
NextPlain == stage # "Done" /\ Set(Blk(cfg, Cur).st) /\ UNCHANGED cfg

ConfigFrozen == [][cfg' = cfg]_vars

(***************************************************************************)
(* PropertyView                                                            *)
(***************************************************************************)
\* C10, full variant: the stream is exactly the listed moves, each once.
\* C10, loud variant: duplicate-free, nothing that is not listed, every listed capture
\* (the capture list is what the rule book calls captures and queen promotions: the trace
\* module checks that against Chess!Legal).
PermOf(c, o) ==
    IF c.loud
    THEN NoDup(o) /\ RangeOf(o) \subseteq Listed(c) /\ RangeOf(c.caps) \subseteq RangeOf(o)
    ELSE Len(o) = Len(c.caps) + Len(c.quiets) /\ RangeOf(o) = Listed(c)
Perm == stage = "Done" => PermOf(cfg, out)

\* Safety half of "each once" that holds at every instant, not only at Done.
NeverTwice == NoDup(out) /\ RangeOf(out) \subseteq (Listed(cfg) \cup {cfg.hash})

\* Termination: every step moves to a later stage or advances the cursor inside a stage,
\* and the cursor is bounded; hence Done is reached after finitely many steps.
StageRank(s) ==
    CASE s = "BestMove" -> 0 [] s = "GenCaptures" -> 1 [] s = "GoodCaptures" -> 2 [] s = "GenQuiets" -> 3
      [] s = "Killer1" -> 4 [] s = "Killer2" -> 5 [] s = "CounterMove" -> 6 [] s = "BadCaptures" -> 7
      [] s = "ScoreQuiets" -> 8 [] s = "Quiets" -> 9 [] s = "Done" -> 10
Progress == [][StageRank(stage') > StageRank(stage) \/ (stage' = stage /\ idx' > idx)]_vars
Terminates == <>(stage = "Done")

(***************************************************************************)
(* CodeView sanity: what the transcription relies on                       *)
(***************************************************************************)
CapScoreOf(c, m) == c.capScore[CHOOSE j \in 1..Len(c.caps) : c.caps[j] = m]
TypeOK ==
    /\ stage = "BestMove" => ConfigOK(cfg)       \* cfg never changes
    /\ stage \in {"BestMove", "GenCaptures", "GoodCaptures", "GenQuiets", "Killer1", "Killer2",
                  "CounterMove", "BadCaptures", "ScoreQuiets", "Quiets", "Done"}
    /\ idx \in 0..Len(moves) /\ Len(scores) = Len(moves)
    /\ capturesEnd <= firstQuiet /\ firstQuiet <= Len(moves)
    /\ firstBad = None \/ (firstBad >= 0 /\ firstBad < capturesEnd)
\* the shared list always holds exactly what was generated, captures before quiets
ListIntact ==
    /\ StageRank(stage) >= 2 => RangeOf(SubSeq(moves, 1, capturesEnd)) = RangeOf(cfg.caps)
    /\ StageRank(stage) >= 4 /\ ~cfg.loud => RangeOf(SubSeq(moves, capturesEnd + 1, Len(moves))) = RangeOf(cfg.quiets)
    /\ NoDup(moves)
\* scores travel with their moves
ScoresAligned ==
    /\ \A i \in 1..capturesEnd : scores[i] = CapScoreOf(cfg, moves[i])
    /\ stage \in {"Quiets", "Done"} /\ ~cfg.loud =>
          \A i \in (firstQuiet + 1)..Len(moves) : scores[i] = QUIET + HistOf(cfg, moves[i])
\* everything from the first parked capture on is a losing capture
ParkedAreBad ==
    firstBad # None /\ stage # "GoodCaptures" =>
        \A i \in (firstBad + 1)..capturesEnd : scores[i] < GOOD
\* loud: exactly the capture list
LoudExact == stage = "Done" /\ cfg.loud => RangeOf(out) = RangeOf(cfg.caps)

InvCore == TypeOK /\ Perm /\ NeverTwice /\ LoudExact
Inv == InvCore /\ ListIntact /\ ScoresAligned /\ ParkedAreBad
=============================================================================
