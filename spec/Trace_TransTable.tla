--------------------------- MODULE Trace_TransTable ---------------------------
(***************************************************************************)
(* C19, binding direction A (and the validation half of direction B):      *)
(* operation sequences executed on the REAL                                *)
(* TranspositionTable<SearchTranspositionTableData> by `harness tt`,       *)
(* validated against TransTable.                                           *)
(*                                                                         *)
(* Line 1 of the trace is the key pool (64-bit keys as four 16-bit limbs,  *)
(* the slot of a key is computed HERE from the limbs), the entry size and  *)
(* whether the build panics on overflow.  Every further line is one        *)
(* operation with its arguments, its outcome and the content observable    *)
(* after it: `get` on every key of the pool, `occupied`, `occupancy()`,    *)
(* `generation`.                                                           *)
(*                                                                         *)
(* A trace step takes the successor state from the observation (the ghost  *)
(* search number of an observed entry is that of the model entry it        *)
(* coincides with) and then asks two questions about the step:             *)
(*     PVStep                 else  VIOL   (C19 is violated)               *)
(*     CodeStep(operation)    else  DRIFT  (the code no longer does what   *)
(*                                          the CodeView says)             *)
(* so that validation continues from the observed state after a mismatch.  *)
(* A panic is a step into st = "crash"; the harness then starts a fresh    *)
(* table.                                                                  *)
(***************************************************************************)
EXTENDS TransTable, TLC, Json, IOUtils, Reporting

VARIABLES l, acc
tvars == <<slot, search, occupied, size, bulk, st, ret, l, acc>>

Rec == ndJsonDeserialize(IOEnv.TRACE)
Hd  == Rec[1]
NEv == Len(Rec)

(***************************************************************************)
(* The constants of TransTable for the real table                          *)
(***************************************************************************)
TKeys == 1..Len(Hd.keys)
TN(sz) == (sz * 1048576) \div Hd.entry_bytes       \* calculate_number_of_entries
TGenMod == 256
\* CodeView knob GEN_OVERFLOW (set by tools/p_c19.py): "panic" = `generation += 1` panics in a build with
\* overflow checks (the code before /repo fec6e7e), "wrap" = it wraps in every build (wrapping_add)
TChecked == Hd.checked /\ IOEnv.GEN_OVERFLOW = "panic"

\* (2^64-bit key given by limbs k[1] (lowest) .. k[4]) mod n in 32-bit arithmetic, n <= 2^26
Mul16(r, n) == (((((((r * 16) % n) * 16) % n) * 16) % n) * 16) % n
KeyMod(k, n) ==
    LET a == k[4] % n
        b == (Mul16(a, n) + k[3]) % n
        c == (Mul16(b, n) + k[2]) % n
    IN  (Mul16(c, n) + k[1]) % n
SlotCounts == {TN(Rec[i].n) : i \in {j \in 2..NEv : Rec[j].op \in {"new", "resize"}}} \ {0}
SlotTab == [n \in SlotCounts |-> [id \in TKeys |-> KeyMod(Hd.keys[id], n)]]
TSlotOf(id, n) == SlotTab[n][id]

(***************************************************************************)
(* Reading an event                                                        *)
(***************************************************************************)
ObsData(x) == [bound |-> x[1], depth |-> x[2], age |-> x[3], tag |-> x[4], mv |-> x[5]]
EvData(e)  == [bound |-> e.bound, depth |-> e.depth, tag |-> e.tag, mv |-> e.mv]

\* the label of the operation, in the shape of TransTable's `ret`
Label(e) ==
    CASE e.op = "new"       -> [op |-> "new", n |-> e.n]
      [] e.op = "insert"    -> [op |-> "insert", k |-> e.k, d |-> EvData(e)]
      [] e.op = "probe"     -> [op |-> "probe", k |-> e.k, res |-> ObsData(e.res)]
      [] e.op = "newsearch" -> [op |-> "newsearch", times |-> e.times]
      [] e.op = "reset"     -> [op |-> "reset"]
      [] e.op = "resize"    -> [op |-> "resize", n |-> e.n]
      [] e.op = "fill"      -> [op |-> "fill", cnt |-> e.cnt]

CrashLabel(e) == IF e.op = "probe" THEN [op |-> "probe", k |-> e.k, res |-> NoData] ELSE Label(e)

\* pool keys that `get` finds, by slot
Hits(e, s, n) == {id \in TKeys : TSlotOf(id, n) = s /\ e.c[id][1] >= 0}

\* The table the observation shows, for size setting sz, when the model table before the step is f0
\* (of size sz0), the current search is sr, and cand is the entry an insert tried to store (or None).
\* Ghost reconstruction: an observed entry that coincides (age aside) with the candidate is the
\* candidate; one that coincides with the model's old entry of that slot is that entry.
FromObs(e, sz, f0, sz0, sr, cand) ==
    [s \in Dom(sz) |->
        LET h == Hits(e, s, N(sz))
        IN  IF h = {} THEN None
            ELSE LET id == CHOOSE i \in h : \A j \in h : i <= j
                     x  == ObsData(e.c[id])
                     o  == [key |-> id, bound |-> x.bound, depth |-> x.depth, age |-> x.age,
                            search |-> sr, tag |-> x.tag, mv |-> x.mv]
                     old == IF sz = sz0 THEN f0[s] ELSE None
                 IN  IF cand # None /\ Pv(o) = Pv(cand) THEN [o EXCEPT !.search = cand.search]
                     ELSE IF old # None /\ Pv([o EXCEPT !.search = old.search]) = Pv(old)
                          THEN [o EXCEPT !.search = old.search]
                     ELSE o]

Viol(c, what, detail)  == ViolAt(c, "C19", l, what, detail)
Drift(c, what, detail) == DriftAt(c, "C19", l, what, detail)

Brief(x) == IF x = None THEN <<>> ELSE <<x.key, x.bound, x.depth, x.search, x.tag>>

(***************************************************************************)
(* The two questions                                                       *)
(***************************************************************************)
\* which clause of the PropertyView an insert step breaks (for the report)
InsertVerdict(e) ==
    LET n   == N(size)
        s   == TSlotOf(e.k, n)
        old == slot[s]
        new == Entry(e.k, EvData(e), search)
        got == slot'[s]
    IN  IF ~(\A t \in DOMAIN slot : t # s => Pv(slot'[t]) = Pv(slot[t])) THEN "insert-disturbs-other-slot"
        ELSE IF MustAdmit(old, new) /\ old # None /\ Pv(got) = Pv(old) THEN "earlier-search-entry-kept"
        ELSE IF MustAdmit(old, new) THEN "insert-not-stored"
        ELSE IF MustKeep(old, new) /\ Pv(got) = Pv(new) THEN "exact-entry-displaced"
        ELSE "insert-stores-something-else"

InsertDetail(e) ==
    LET s == TSlotOf(e.k, N(size))
    IN  [op |-> "insert", size |-> size, search |-> search, key |-> e.k, slot |-> s,
         old |-> Brief(slot[s]), new |-> Brief(Entry(e.k, EvData(e), search)), got |-> Brief(slot'[s]),
         distance |-> IF slot[s] = None THEN 0 ELSE search - slot[s].search]

Judge(e) ==
    /\ IF e.op = "insert" /\ N(size) > 0
       THEN Viol(PVData, InsertVerdict(e), InsertDetail(e))
       ELSE Viol(PVData, IF e.op = "probe" THEN "probe-returns-wrong-data" ELSE "content-changed-by-" \o e.op,
                 [op |-> e.op, size |-> size, search |-> search, key |-> e.k, n |-> e.n])
    /\ Viol(\A s \in Dom(size') : Cardinality(Hits(e, s, N(size'))) <= 1, "two-keys-in-one-slot",
            [op |-> e.op, size |-> size'])
    /\ Viol(PermilleOK(e.pm, slot', bulk', N(size')), "fill-indicator",
            [op |-> e.op, size |-> size', permille |-> e.pm, filled |-> Filled(slot') + bulk', slots |-> N(size')])
    /\ Drift(CodeStep(ret'), "codeview-" \o e.op,
             [size |-> size, search |-> search, key |-> e.k, occ |-> e.occ])
    /\ Drift(e.gen = search' % GenMod, "generation", [gen |-> e.gen, search |-> search'])

\* a step whose successor is what the harness observed
Observed(e, sz, sr, bk, cand) ==
    /\ slot' = (IF N(sz) = 0 THEN Empty(sz) ELSE FromObs(e, sz, slot, size, sr, cand))
    /\ size' = sz /\ search' = sr /\ bulk' = bk /\ occupied' = e.occ /\ st' = "ok" /\ ret' = Label(e)

\* a panic: inside the operation ("panic") or in one of the harness's own `get`s afterwards
Crashed(e) ==
    /\ st' = "crash" /\ ret' = CrashLabel(e) /\ UNCHANGED <<slot, search, occupied, size, bulk>>
    /\ Viol(FALSE, "crash",
            [op |-> IF e.out = "panic" THEN e.op ELSE "probe-after-" \o e.op, size |-> IF e.op = "new" THEN e.n ELSE size,
             slots |-> N(IF e.op = "new" THEN e.n ELSE size),
             search |-> search, gen |-> e.gen, done |-> e.done, msg |-> e.msg, profile |-> Hd.profile])
    /\ Drift(e.out = "panic" /\ CodeStep(ret'), "codeview-crash-" \o e.op, [size |-> size, search |-> search])

(***************************************************************************)
(* Trace actions                                                           *)
(***************************************************************************)
IsEvent(op) == l <= NEv /\ Rec[l].op = op /\ l' = l + 1
Count(f) == acc' = [acc EXCEPT ![f] = @ + 1]
Count2(f, g) == acc' = [acc EXCEPT ![f] = @ + 1, ![g] = @ + 1]
Panic(e) == e.out # "ok"

TraceNew ==
    /\ IsEvent("new")
    /\ LET e == Rec[l]
       IN  IF Panic(e) THEN Crashed(e) /\ Count("panics")
           ELSE Observed(e, e.n, 0, 0, None) /\ Judge(e) /\ Count("tables")

TraceInsert ==
    /\ IsEvent("insert")
    /\ LET e == Rec[l]
       IN  IF Panic(e) THEN Crashed(e) /\ Count("panics")
           ELSE /\ Observed(e, size, search, bulk, IF N(size) = 0 THEN None ELSE Entry(e.k, EvData(e), search))
                /\ Judge(e)
                /\ IF N(size) = 0 THEN Count("inserts")
                   ELSE LET old == slot[TSlotOf(e.k, N(size))]
                            new == Entry(e.k, EvData(e), search)
                        IN  IF old = None THEN Count("inserts")
                            ELSE IF MustAdmit(old, new)
                                 THEN IF (new.search - old.search) % GenMod = 0
                                      THEN Count2("inserts", "aliased") ELSE Count2("inserts", "forced")
                            ELSE IF MustKeep(old, new) THEN Count2("inserts", "forbidden")
                            ELSE Count2("inserts", "free")

TraceProbe ==
    /\ IsEvent("probe")
    /\ LET e == Rec[l]
       IN  IF Panic(e) THEN Crashed(e) /\ Count("panics")
           ELSE /\ Observed(e, size, search, bulk, None) /\ Judge(e)
                /\ IF e.res[1] >= 0 THEN Count2("probes", "hits") ELSE Count("probes")

TraceNewSearch ==
    /\ IsEvent("newsearch")
    /\ LET e == Rec[l]
       IN  IF Panic(e) THEN Crashed(e) /\ Count("panics")
           ELSE /\ Observed(e, size, search + e.times, bulk, None) /\ Judge(e)
                /\ IF (search % GenMod) + e.times >= GenMod THEN Count2("newsearches", "wraps")
                   ELSE Count("newsearches")

TraceReset ==
    /\ IsEvent("reset")
    /\ LET e == Rec[l]
       IN  IF Panic(e) THEN Crashed(e) /\ Count("panics")
           ELSE Observed(e, size, 0, 0, None) /\ Judge(e) /\ Count("resets")

TraceResize ==
    /\ IsEvent("resize")
    /\ LET e == Rec[l]
       IN  IF Panic(e) THEN Crashed(e) /\ Count("panics")
           ELSE /\ IF e.n = size THEN Observed(e, size, search, bulk, None)
                   ELSE Observed(e, e.n, 0, 0, None)
                /\ Judge(e) /\ Count("resizes")

TraceFill ==
    /\ IsEvent("fill")
    /\ LET e == Rec[l]
       IN  IF Panic(e) THEN Crashed(e) /\ Count("panics")
           ELSE /\ Observed(e, size, search, bulk + e.cnt, None) /\ Judge(e)
                \* the harness must fill fresh slots that no pool key maps to
                /\ ViolAt(\A s \in Dom(size) : s < e.from \/ s >= e.from + e.cnt, "TRACE", l, "fill-hits-pool-slot", e.from)
                /\ Count("fills")

Zero == [tables |-> 0, inserts |-> 0, forced |-> 0, forbidden |-> 0, free |-> 0, aliased |-> 0,
         probes |-> 0, hits |-> 0, newsearches |-> 0, wraps |-> 0, resets |-> 0, resizes |-> 0,
         fills |-> 0, panics |-> 0]

TraceInit ==
    /\ l = 2 /\ acc = Zero
    /\ slot = Empty(0) /\ search = 0 /\ occupied = 0 /\ size = 0 /\ bulk = 0 /\ st = "crash"
    /\ ret = [op |-> "none"]

\* after the last event: the counters collected along the way
TraceFinish ==
    /\ l = NEv + 1 /\ l' = l + 1
    /\ Stat("ttcounts", acc)
    /\ UNCHANGED <<slot, search, occupied, size, bulk, st, ret, acc>>

TraceNext == TraceNew \/ TraceInsert \/ TraceProbe \/ TraceNewSearch \/ TraceReset \/ TraceResize \/ TraceFill
             \/ TraceFinish

TraceSpec == TraceInit /\ [][TraceNext]_tvars

\* the harness starts a fresh table after every panic; a trace starts with a fresh table
WellFormed == \A i \in 2..NEv : (i = 2 \/ Rec[i - 1].out # "ok") => Rec[i].op = "new"
ASSUME ViolAt(Hd.op = "pool" /\ WellFormed, "TRACE", 1, "malformed-trace", NEv)

TraceAccepted ==
    /\ Stat("tt", [events |-> NEv - 1, diameter |-> TLCGet("stats").diameter,
                   pool |-> Len(Hd.keys), checked |-> Hd.checked, profile |-> Hd.profile,
                   sizes |-> {Rec[i].n : i \in {j \in 2..NEv : Rec[j].op \in {"new", "resize"}}}])
    /\ TLCGet("stats").diameter = NEv + 1
=============================================================================
