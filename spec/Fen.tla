--------------------------------- MODULE Fen ---------------------------------
(***************************************************************************)
(* FEN as a grammar over sequences of character codes (the harness maps    *)
(* text to code points, a lossless transformation; TLA+ strings cannot be  *)
(* indexed).                                                               *)
(*   FenCodes(pos)  the writer: canonical text of a position               *)
(*   FenRead(cs)    the reader: [ok, pos]; ok only for texts the grammar   *)
(*                  accepts (six fields, the two counters optional, fields *)
(*                  separated by blanks, trailing blanks allowed)          *)
(*   RanksOK(cs)    the board field has eight ranks of exactly eight       *)
(*                  squares each                                           *)
(***************************************************************************)
EXTENDS Chess

SP == 32  SLASH == 47  DASH == 45
Digit(c) == c \in 48..57
DigitVal(c) == c - 48
\* code of the piece letter, indexed by piece 1..12: P N B R Q K p n b r q k
PieceCode == <<80, 78, 66, 82, 81, 75, 112, 110, 98, 114, 113, 107>>
PieceOfCode(c) == IF \E p \in 1..12 : PieceCode[p] = c
                  THEN CHOOSE p \in 1..12 : PieceCode[p] = c ELSE 0

(***************************************************************************)
(* Writer                                                                  *)
(***************************************************************************)
RECURSIVE NatCodes(_)
NatCodes(n) == IF n < 10 THEN <<48 + n>> ELSE NatCodes(n \div 10) \o <<48 + (n % 10)>>

RECURSIVE RankCodes(_, _, _, _)
RankCodes(b, r, f, run) ==
    IF f = 8 THEN (IF run > 0 THEN <<48 + run>> ELSE <<>>)
    ELSE LET p == At(b, SqOf(f, r))
         IN  IF p = 0 THEN RankCodes(b, r, f + 1, run + 1)
             ELSE (IF run > 0 THEN <<48 + run>> ELSE <<>>) \o <<PieceCode[p]>> \o RankCodes(b, r, f + 1, 0)

RECURSIVE BoardCodes(_, _)
BoardCodes(b, r) == IF r = 0 THEN RankCodes(b, 0, 0, 0)
                    ELSE RankCodes(b, r, 0, 0) \o <<SLASH>> \o BoardCodes(b, r - 1)

CastleCodes(cs) ==
    IF cs = {} THEN <<DASH>>
    ELSE (IF 0 \in cs THEN <<75>> ELSE <<>>) \o (IF 1 \in cs THEN <<81>> ELSE <<>>) \o
         (IF 2 \in cs THEN <<107>> ELSE <<>>) \o (IF 3 \in cs THEN <<113>> ELSE <<>>)

FenCodes(pos) ==
    BoardCodes(pos.board, 7) \o <<SP>> \o <<IF pos.stm = 0 THEN 119 ELSE 98>> \o <<SP>> \o
    CastleCodes(pos.castle) \o <<SP>> \o
    (IF pos.ep = -1 THEN <<DASH>> ELSE <<97 + FileOf(pos.ep), 49 + RankOf(pos.ep)>>) \o <<SP>> \o
    NatCodes(pos.hmc) \o <<SP>> \o NatCodes(pos.plies \div 2 + 1)

(***************************************************************************)
(* Reader                                                                  *)
(***************************************************************************)
\* Split cs at every occurrence of sep (empty pieces are kept).
RECURSIVE SplitR(_, _, _, _)
SplitR(cs, sep, i, cur) ==
    IF i > Len(cs) THEN <<cur>>
    ELSE IF cs[i] = sep THEN <<cur>> \o SplitR(cs, sep, i + 1, <<>>)
    ELSE SplitR(cs, sep, i + 1, Append(cur, cs[i]))
Split(cs, sep) == SplitR(cs, sep, 1, <<>>)

\* Blank-separated tokens: maximal runs of non-blank codes.
Tokens(cs) == SelectSeq(Split(cs, SP), LAMBDA t : t # <<>>)

RECURSIVE RankWidthR(_, _)
RankWidthR(t, i) ==
    IF i > Len(t) THEN 0
    ELSE (IF PieceOfCode(t[i]) # 0 THEN 1
          ELSE IF t[i] \in 49..56 THEN DigitVal(t[i])
          ELSE 1000) + RankWidthR(t, i + 1)
RankWidth(t) == RankWidthR(t, 1)

BoardFieldOK(t) ==
    LET rs == Split(t, SLASH)
    IN  Len(rs) = 8 /\ \A i \in 1..8 : rs[i] # <<>> /\ RankWidth(rs[i]) = 8

\* The board field is the text up to the first blank (space or tab).
RECURSIVE PrefixR(_, _)
PrefixR(cs, i) == IF i > Len(cs) \/ cs[i] \in {SP, 9} THEN <<>> ELSE <<cs[i]>> \o PrefixR(cs, i + 1)
RanksOK(cs) == BoardFieldOK(PrefixR(cs, 1))

\* squares of one rank text, left to right, as piece codes
RECURSIVE RankPiecesR(_, _)
RankPiecesR(t, i) ==
    IF i > Len(t) THEN <<>>
    ELSE (IF PieceOfCode(t[i]) # 0 THEN <<PieceOfCode(t[i])>>
          ELSE [k \in 1..DigitVal(t[i]) |-> 0]) \o RankPiecesR(t, i + 1)

BoardOfField(t) ==
    LET rs == Split(t, SLASH)
        rows == [i \in 1..8 |-> RankPiecesR(rs[i], 1)]     \* rows[1] is rank 8
    IN  [i \in 1..64 |-> rows[8 - ((i - 1) \div 8)][((i - 1) % 8) + 1]]

AllDigits(t) == t # <<>> /\ \A i \in 1..Len(t) : Digit(t[i])
RECURSIVE NatOfR(_, _, _)
NatOfR(t, i, acc) == IF i > Len(t) THEN acc ELSE NatOfR(t, i + 1, acc * 10 + DigitVal(t[i]))
NatOf(t) == NatOfR(t, 1, 0)
\* counters the specification commits to: at most nine digits (fits every integer width involved)
CounterOK(t) == AllDigits(t) /\ Len(t) <= 9

CastleFieldOK(t) ==
    \/ t = <<DASH>>
    \/ /\ t # <<>>
       /\ \A i \in 1..Len(t) : t[i] \in {75, 81, 107, 113}
       /\ \A i, j \in 1..Len(t) : i # j => t[i] # t[j]
CastleOfField(t) ==
    IF t = <<DASH>> THEN {}
    ELSE {r \in 0..3 : \E i \in 1..Len(t) : t[i] = <<75, 81, 107, 113>>[r + 1]}

EpFieldOK(t) == t = <<DASH>> \/ (Len(t) = 2 /\ t[1] \in 97..104 /\ t[2] \in 49..56)
EpOfField(t) == IF t = <<DASH>> THEN -1 ELSE SqOf(t[1] - 97, t[2] - 49)

NoPos == [board |-> [i \in 1..64 |-> 0], stm |-> 0, castle |-> {}, ep |-> -1, hmc |-> 0, plies |-> 0]

FenRead(cs) ==
    LET ts == Tokens(cs)
        n  == Len(ts)
        ok == /\ cs # <<>> /\ cs[1] # SP
              /\ \A i \in 1..Len(cs) : cs[i] # 9           \* blanks are spaces only
              /\ n \in 4..6
              /\ BoardFieldOK(ts[1])
              /\ ts[2] \in {<<119>>, <<98>>}
              /\ CastleFieldOK(ts[3])
              /\ EpFieldOK(ts[4])
              /\ (n >= 5 => CounterOK(ts[5]))
              /\ (n = 6 => CounterOK(ts[6]) /\ NatOf(ts[6]) >= 1)
    IN  IF ~ok THEN [ok |-> FALSE, pos |-> NoPos]
        ELSE LET stm == IF ts[2] = <<119>> THEN 0 ELSE 1
                 fm  == IF n = 6 THEN NatOf(ts[6]) ELSE 1
             IN  [ok |-> TRUE,
                  pos |-> [board |-> BoardOfField(ts[1]), stm |-> stm, castle |-> CastleOfField(ts[3]),
                           ep |-> EpOfField(ts[4]), hmc |-> IF n >= 5 THEN NatOf(ts[5]) ELSE 0,
                           plies |-> (fm - 1) * 2 + stm]]
=============================================================================
