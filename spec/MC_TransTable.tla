---------------------------- MODULE MC_TransTable ----------------------------
(***************************************************************************)
(* Bounded exhaustive check  CodeView => PropertyView  for TransTable      *)
(* (C19), and the generator of operation sequences for direction B.        *)
(*                                                                         *)
(* Model: sizes 0 / 1 / 2 with 0 / 3 / 2 slots, keys 0..NKeys-1 with       *)
(* SlotOf(k, n) = k mod n (five keys: at 3 slots the pairs {0,3} and {1,4} *)
(* collide, at 2 slots {0,2,4} and {1,3}), depths 0..2, the three bounds,  *)
(* GenMod = 4 stored ages instead of 256 so that the wrap of the age is    *)
(* inside the bound.  Spec: every interleaving of Insert / Probe /         *)
(* NewSearch / Reset / Resize; `ret`, the label of the last operation, is  *)
(* hidden by the VIEW so that states reached by different operations       *)
(* coincide.  The search number is bounded by MaxSearch (NewSearch is not  *)
(* offered beyond it), which makes the state space finite: with            *)
(* MaxLen = 1000 operation sequences of every length are explored.  A      *)
(* smaller MaxLen bounds the number of operations through TLC's level      *)
(* (exact with one worker only).  Checked against it:                      *)
(*    INVARIANT NoCrash            "keeps working for every advertised     *)
(*                                  size and for any number of searches"   *)
(*    PROPERTY  PVHolds            the PropertyView of every step that did *)
(*                                  not crash (action property)            *)
(*    INVARIANT Inv                counter exact, fill indicator, no       *)
(*                                  confusion of keys, age = search mod G  *)
(* The knobs  Sizes (does the zero-slot table exist: advertised minimum),  *)
(* MaxSearch (how many searches without emptying) and Checked (overflow    *)
(* panics or wraps) select the configurations run by tools/p_c19.py:       *)
(*    holds          >= 1 slot, MaxSearch = GenMod-1          no error     *)
(*    zero-slot      Sizes contains 0                         NoCrash      *)
(*    overflow       Checked, MaxSearch unbounded             NoCrash      *)
(*                   (only while the code panics on the overflow)          *)
(*    aliasing       ~Checked, MaxSearch = GenMod+1           PVHolds      *)
(*    only-aliasing  as aliasing, PVHoldsUpToAliasing         no error     *)
(* The configuration file next to this module is `holds`.                  *)
(*                                                                         *)
(* GenSpec (-simulate): the specification chooses the operations itself    *)
(* and prints per behaviour one line with the operations and the content   *)
(* it expects to be observable after each (replayed on the real table).    *)
(***************************************************************************)
EXTENDS TransTable, TLC, Json, Reporting

CONSTANTS
    NKeys,       \* keys 0 .. NKeys-1
    Sizes,       \* size settings in play, subset of {0, 1, 2}
    Depths,      \* depths of inserted data
    Tags,        \* payloads of inserted data
    MaxLen,      \* mc: number of operations; gen: operations per behaviour
    MaxSearch    \* NewSearch is offered while search < MaxSearch

VARIABLES hist, done     \* gen mode only (constant in mc mode)
mvars == <<slot, search, occupied, size, bulk, st, ret, hist, done>>

MCKeys == 0..(NKeys - 1)
MCN(sz) == CASE sz = 0 -> 0 [] sz = 1 -> 3 [] sz = 2 -> 2
MCSlotOf(k, n) == k % n
InitSize == 1

Datas == [bound : Bounds, depth : Depths, tag : Tags, mv : {-1}]

NoGen == UNCHANGED <<hist, done>>
MCInsert    == NoGen /\ \E k \in Keys, d \in Datas : Insert(k, d)
MCProbe     == NoGen /\ \E k \in Keys : Probe(k)
MCNewSearch == NoGen /\ search < MaxSearch /\ NewSearch
MCReset     == NoGen /\ Reset
MCResize    == NoGen /\ \E n \in Sizes : Resize(n)

(***************************************************************************)
(* gen mode                                                                *)
(***************************************************************************)
Contents == IF N(size) = 0 THEN [k \in Keys |-> NoData]
            ELSE [k \in Keys |-> ProbeOf(slot, k, N(size))]
Obs == [ret |-> ret, st |-> st, c |-> Contents, occ |-> occupied, pm |-> CodePermille, gen |-> Gen,
        search |-> search, size |-> size]

GenOp ==
    \E r \in {RandomElement(1..100)} :
        IF r <= 52 THEN \E k \in {RandomElement(Keys)}, d \in {RandomElement(Datas)} : Insert(k, d)
        ELSE IF r <= 62 THEN \E k \in {RandomElement(Keys)} : Probe(k)
        ELSE IF r <= 90 THEN IF search < MaxSearch THEN NewSearch ELSE Reset
        ELSE IF r <= 93 THEN Reset
        ELSE \E n \in {RandomElement(Sizes)} : Resize(n)

GenStep == GenOp /\ hist' = Append(hist, Obs') /\ UNCHANGED done
Finish  == done' = TRUE /\ UNCHANGED <<slot, search, occupied, size, bulk, st, ret, hist>>

Init == InitWith(InitSize) /\ hist = <<>> /\ done = FALSE

\* mc mode: one named action per operation (so that -coverage shows each of them taken)
Next == MCInsert \/ MCProbe \/ MCNewSearch \/ MCReset \/ MCResize
Spec == Init /\ [][Next]_mvars

GenNext == /\ ~done
           /\ IF Len(hist) >= MaxLen \/ st # "ok" THEN Finish ELSE GenStep
GenSpec == Init /\ [][GenNext]_mvars

\* one line per finished behaviour
Emit == done => PrintT("@@GEN " \o ToJson([steps |-> hist]))

(***************************************************************************)
(* mc mode                                                                 *)
(***************************************************************************)
View == <<slot, search, occupied, size, bulk, st>>
\* the initial state has level 1: states reached by MaxLen operations are generated and checked,
\* not expanded
Bound == TLCGet("level") <= MaxLen

\* PropertyView of the data, on every step that did not crash (the crash itself is NoCrash)
PVHolds == [][st' = "ok" => PVData]_vars

\* Diagnostic (configuration "only-aliasing"): the PropertyView with the one clause excused that a stored
\* age of GenMod values cannot keep - an entry whose search number differs from the current one by a
\* multiple of GenMod is treated as an entry of the current search.  If this holds where PVHolds fails,
\* age aliasing is the only way the data clauses fail within the bound.
Aliased(old, new) == old # None /\ old.search < new.search /\ (new.search - old.search) % GenMod = 0
PVInsertUpToAliasing ==
    LET n == N(size)
        s == SlotOf(ret'.k, n)
        old == slot[s]
        new == Entry(ret'.k, ret'.d, search)
    IN  IF n > 0 /\ Aliased(old, new)
        THEN /\ search' = search /\ size' = size /\ bulk' = bulk /\ DOMAIN slot' = DOMAIN slot
             /\ Pv(slot'[s]) \in (IF MustKeep([old EXCEPT !.search = new.search], new)
                                  THEN {Pv(old)} ELSE {Pv(old), Pv(new)})
             /\ \A t \in DOMAIN slot : t # s => Pv(slot'[t]) = Pv(slot[t])
        ELSE PVInsert
PVHoldsUpToAliasing ==
    [][st' = "ok" => IF ret'.op = "insert" THEN PVInsertUpToAliasing ELSE PVData]_vars

TypeOK ==
    /\ size \in Sizes \cup {InitSize}
    /\ DOMAIN slot = Dom(size)
    /\ st \in {"ok", "crash"}
    /\ bulk = 0
    /\ \A s \in DOMAIN slot : slot[s] = None \/
          (slot[s].key \in Keys /\ slot[s].bound \in Bounds /\ slot[s].depth \in Depths
           /\ slot[s].tag \in Tags /\ slot[s].age \in 0..(GenMod - 1))

Inv ==
    /\ TypeOK
    /\ CounterExact
    /\ FillIndicator
    /\ NoConfusion
    /\ AgeIsSearchMod
    /\ NoFutureEntry
=============================================================================
