----------------------------- MODULE Trace_Session -----------------------------
(***************************************************************************)
(* Replays recorded command logs (several processes, one after the other)  *)
(* through Session.tla and rejects a second, different observation for one *)
(* abstract state.                                                         *)
(* Event: [cmd, i, v, p, d, out, proc]  with cmd in start / newgame /      *)
(* setoption / position / go / analyse (go infinite .. stop) / idlestop.    *)
(***************************************************************************)
EXTENDS Session, Json, IOUtils, Reporting

VARIABLES l, seen
tvars == <<opts, hist, cur, l, seen>>

Rec == ndJsonDeserialize(IOEnv.TRACE)
N == Len(Rec)

\* seen: function from abstract state to the first observation <<output, process>> made in it (a function, not a set
\* of triples: membership in its domain is a search in a sorted structure, which keeps long traces linear-ish)
TraceInit == opts = DefaultOpts /\ hist = <<>> /\ cur = "startpos" /\ l = 1 /\ seen = <<>>

ASSUME TLCSet(2, 0)

Step ==
    /\ l <= N
    /\ l' = l + 1
    /\ LET e == Rec[l]
       IN  CASE e.cmd = "start" -> Start /\ UNCHANGED seen
             [] e.cmd = "newgame" -> NewGame /\ UNCHANGED seen
             [] e.cmd = "setoption" -> SetOption(e.i, e.v) /\ UNCHANGED seen
             [] e.cmd = "position" -> Position(e.p) /\ UNCHANGED seen
             [] e.cmd = "analyse" -> Analyse(e.p) /\ UNCHANGED seen
             [] e.cmd = "idlestop" -> IdleStop /\ UNCHANGED seen
             [] e.cmd = "go" ->
                   /\ Go(e.d)
                   /\ LET k == <<opts, Append(hist, <<cur, e.d>>)>>
                          known == k \in DOMAIN seen
                      IN  /\ ViolAt(~known \/ seen[k][1] = e.out, "C12", l, "same-state-different-output",
                                    [proc |-> e.proc, position |-> cur, depth |-> e.d, history_length |-> Len(hist),
                                     got |-> e.out,
                                     first |-> IF known THEN seen[k][1] ELSE "",
                                     first_proc |-> IF known THEN seen[k][2] ELSE ""])
                          /\ seen' = IF known THEN seen ELSE (k :> <<e.out, e.proc>>) @@ seen
                          /\ TLCSet(2, TLCGet(2) + 1)

\* statistics are printed from the last step (a postcondition cannot read variables)
Last == l = N => Stat("session", [events |-> N, observations |-> TLCGet(2), states |-> Cardinality(DOMAIN seen')])

\* the memo is a history variable: kept out of the fingerprint
TraceView == <<opts, hist, cur, l>>

TraceSpec == TraceInit /\ [][Step /\ Last]_tvars

TraceAccepted == TLCGet("stats").diameter = N + 1
=============================================================================
