----------------------------- MODULE Trace_Session -----------------------------
(***************************************************************************)
(* Replays recorded command logs (several processes, one after the other)  *)
(* through Session.tla and rejects a second, different observation for one *)
(* abstract state.                                                         *)
(* Event: [cmd, i, v, p, d, out, proc]  with cmd in start / newgame /      *)
(* setoption / position / go.                                              *)
(***************************************************************************)
EXTENDS Session, Json, IOUtils, Reporting

VARIABLES l, seen
tvars == <<opts, hist, cur, l, seen>>

Rec == ndJsonDeserialize(IOEnv.TRACE)
N == Len(Rec)

TraceInit == opts = DefaultOpts /\ hist = <<>> /\ cur = "startpos" /\ l = 1 /\ seen = {}

Step ==
    /\ l <= N
    /\ l' = l + 1
    /\ LET e == Rec[l]
       IN  CASE e.cmd = "start" -> Start /\ UNCHANGED seen
             [] e.cmd = "newgame" -> NewGame /\ UNCHANGED seen
             [] e.cmd = "setoption" -> SetOption(e.i, e.v) /\ UNCHANGED seen
             [] e.cmd = "position" -> Position(e.p) /\ UNCHANGED seen
             [] e.cmd = "go" ->
                   /\ Go(e.d)
                   /\ LET k == <<opts, Append(hist, <<cur, e.d>>)>>
                          clash == {x \in seen : x[1] = k /\ x[2] # e.out}
                      IN  /\ ViolAt(clash = {}, "C12", l, "same-state-different-output",
                                    [proc |-> e.proc, position |-> cur, depth |-> e.d, history_length |-> Len(hist),
                                     got |-> e.out,
                                     first |-> IF clash = {} THEN "" ELSE (CHOOSE x \in clash : TRUE)[2],
                                     first_proc |-> IF clash = {} THEN "" ELSE (CHOOSE x \in clash : TRUE)[3]])
                          /\ seen' = seen \cup {<<k, e.out, e.proc>>}

\* statistics are printed from the last step (a postcondition cannot read variables)
Last == l = N => Stat("session", [events |-> N, observations |-> Cardinality(seen'),
                                  states |-> Cardinality({x[1] : x \in seen'})])

TraceSpec == TraceInit /\ [][Step /\ Last]_tvars

TraceAccepted == TLCGet("stats").diameter = N + 1
=============================================================================
