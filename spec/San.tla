--------------------------------- MODULE San ---------------------------------
(***************************************************************************)
(* Standard algebraic notation of a legal move, from the rule book:        *)
(* piece letter, minimal disambiguation (nothing; the file if it alone     *)
(* separates the movers of that kind to that square; otherwise the rank;   *)
(* otherwise both), capture mark, destination, promotion, castling, and a  *)
(* suffix exactly when the move gives check (castling included).           *)
(* SanTexts(pos, m) is the set of acceptable texts: "+" and "#" are both   *)
(* accepted when the move mates (PropertyView treats them as equivalent).  *)
(***************************************************************************)
EXTENDS Chess

KindLetter(k) == CASE k = Knight -> "N" [] k = Bishop -> "B" [] k = Rook -> "R"
                   [] k = Queen -> "Q" [] k = King -> "K"
RankChar(s) == ToString(RankOf(s) + 1)

Rivals(pos, m, lm) ==
    {r \in lm : /\ r.to = m.to
                /\ r.from # m.from
                /\ KindOf(At(pos.board, r.from)) = KindOf(At(pos.board, m.from))}

Disamb(pos, m, lm) ==
    LET rv == Rivals(pos, m, lm)
    IN  IF rv = {} THEN ""
        ELSE IF \A r \in rv : FileOf(r.from) # FileOf(m.from) THEN FileChar[FileOf(m.from) + 1]
        ELSE IF \A r \in rv : RankOf(r.from) # RankOf(m.from) THEN RankChar(m.from)
        ELSE SqName(m.from)

SanBase(pos, m, lm) ==
    LET k   == KindOf(At(pos.board, m.from))
        cap == m.kind \in {1, 2}
    IN  IF m.kind = 3 THEN (IF m.to > m.from THEN "O-O" ELSE "O-O-O")
        ELSE IF k = Pawn
             THEN (IF cap THEN FileChar[FileOf(m.from) + 1] \o "x" ELSE "") \o SqName(m.to)
                  \o (IF m.promo # 0 THEN "=" \o KindLetter(m.promo) ELSE "")
        ELSE KindLetter(k) \o Disamb(pos, m, lm) \o (IF cap THEN "x" ELSE "") \o SqName(m.to)

\* lm must be Legal(pos) (passed in so that it is computed once per position)
SanTexts(pos, m, lm) ==
    LET nx   == Make(pos, m)
        base == SanBase(pos, m, lm)
    IN  IF ~InCheck(nx) THEN {base}
        ELSE IF Legal(nx) = {} THEN {base \o "+", base \o "#"}
        ELSE {base \o "+"}
=============================================================================
