------------------------------ MODULE BlendApa ------------------------------
(* Symbolic discharge (Apalache) of the blend clause of C16 for ALL 16-bit mg, eg and all phases 0..200. *)
EXTENDS Integers

VARIABLES
    \* @type: Int;
    mg,
    \* @type: Int;
    eg,
    \* @type: Int;
    ph

Min2(a, b) == IF a <= b THEN a ELSE b
Max2(a, b) == IF a >= b THEN a ELSE b
TruncDiv(a, b) == IF a >= 0 THEN a \div b ELSE -((-a) \div b)
BlendClamped == TruncDiv(mg * Min2(ph, 24) + eg * (24 - Min2(ph, 24)), 24)
BlendFound == TruncDiv(mg * Min2(ph, 24) + eg * (24 - ph), 24)

Init == mg \in -32768..32767 /\ eg \in -32768..32767 /\ ph \in 0..200
Next == UNCHANGED <<mg, eg, ph>>

BetweenClamped == Min2(mg, eg) <= BlendClamped /\ BlendClamped <= Max2(mg, eg)
BetweenFound == Min2(mg, eg) <= BlendFound /\ BlendFound <= Max2(mg, eg)
=============================================================================
