------------------------------- MODULE Draws -------------------------------
(***************************************************************************)
(* Rule-book draw definitions over a history of saved states (C11), as     *)
(* constant-level operators so that every trace specification can use them *)
(* (ChessGame.tla for the game state machine, Trace_Nodes.tla for the      *)
(* nodes of the tree search).  A history is a sequence of records with     *)
(* fields pos (the position BEFORE the move) and mv (kind -1: null move).  *)
(***************************************************************************)
EXTENDS Chess

Irreversible(h) == h.mv.kind # -1 /\ (h.mv.kind \in {1, 2} \/ KindOf(At(h.pos.board, h.mv.from)) = Pawn)

\* PropertyView: an identical position occurred earlier since the last capture or
\* pawn move.  Scans the saved states from the most recent backwards and stops at the
\* first irreversible move.
RECURSIVE RepScan(_, _, _)
RepScan(p, st, i) ==
    IF i = 0 THEN FALSE
    ELSE IF Irreversible(st[i]) THEN FALSE
    ELSE IF Identity(st[i].pos) = Identity(p) THEN TRUE
    ELSE RepScan(p, st, i - 1)
RepeatedPV(p, st) == RepScan(p, st, Len(st))

NullFree(st) == \A i \in 1..Len(st) : st[i].mv.kind # -1
EarlierIdentical(p, st) == \E i \in 1..Len(st) : Identity(st[i].pos) = Identity(p)
FiftyPV(p) == p.hmc >= 100 /\ Legal(p) # {}
=============================================================================
