------------------------------- MODULE Gen_Draws -------------------------------
(***************************************************************************)
(* Position source for C08: positions in which the best line ENDS IN AN    *)
(* IMMEDIATE DRAW that the search recognises without searching further     *)
(* (dead material after a capture; the fifty-move rule on the next ply),   *)
(* so that reported lines contain moves whose child returned early.        *)
(*  "deadcap"  Black (K + knight) to move captures White's last pawn and   *)
(*             leaves K + minor v K; White has K + B or N + pawn           *)
(*  "fifty"    elementary endings with the halfmove clock at 99 and the    *)
(*             weaker side to move: any quiet move draws at once           *)
(***************************************************************************)
EXTENDS Chess, Json, Reporting

CONSTANTS SHARD, NSHARDS, DENSITY

Keep(a, b) == DENSITY = 1 \/ (a * 7 + b * 13) % DENSITY = 0
Emit(p, fam) ==
    IF LegalPosition(p) /\ Legal(p) # {}
    THEN PrintT("@@GEN " \o ToJson([fam |-> fam, b |-> [i \in 1..64 |-> p.board[i]], stm |-> p.stm, cr |-> 0, ep |-> -1,
                                    hmc |-> p.hmc, pl |-> p.plies, fen |-> FenOf(p), m1 |-> FALSE]))
    ELSE TRUE
PosS(S, stm, hmc) ==
    [board |-> [i \in 1..64 |-> IF \E x \in S : x[1] = i - 1 THEN (CHOOSE x \in S : x[1] = i - 1)[2] ELSE 0],
     stm |-> stm, castle |-> {}, ep |-> -1, hmc |-> hmc, plies |-> 120 + stm]
Distinct(S) == Cardinality({x[1] : x \in S}) = Cardinality(S)

DeadCap ==
    \A pw \in {s \in Sq : RankOf(s) \in 1..5 /\ s % NSHARDS = SHARD} :
      \A bn \in KnightAttacks(pw) : \A wm \in {Bishop, Knight} : \A ws \in {s \in Sq : Keep(pw, s)} :
        \A wk \in {0, 7, 28} : \A bk \in {63, 56, 35} :
          LET S == {<<pw, PieceOf(0, Pawn)>>, <<bn, PieceOf(1, Knight)>>, <<ws, PieceOf(0, wm)>>,
                    <<wk, PieceOf(0, King)>>, <<bk, PieceOf(1, King)>>}
          IN  IF Distinct(S) THEN Emit(PosS(S, 1, 3), "deadcap") /\ Emit(Mirror(PosS(S, 1, 3)), "deadcap") ELSE TRUE

Fifty ==
    \A bk \in {s \in Sq : s % NSHARDS = SHARD} : \A wk \in {s \in Sq : Keep(bk, s)} :
      \A q \in {s \in Sq : Keep(wk + 1, s)} : \A kind \in {Queen, Rook} :
          LET S == {<<bk, PieceOf(1, King)>>, <<wk, PieceOf(0, King)>>, <<q, PieceOf(0, kind)>>}
          IN  IF Distinct(S) THEN Emit(PosS(S, 1, 99), "fifty") /\ Emit(Mirror(PosS(S, 1, 99)), "fifty")
                                   /\ Emit(PosS(S, 0, 98), "fifty") ELSE TRUE

ASSUME DeadCap /\ Fifty
VARIABLE x
Init == x = 0
Next == x' = x
=============================================================================
