---------------------------- MODULE MC_MovePicker ----------------------------
(***************************************************************************)
(* C10, bounded exhaustive check of the staged generator (CodeView =>      *)
(* PropertyView): ALL configurations with NCmin..NCmax capture-list        *)
(* entries and NQmin..NQmax quiet moves are initial states:                *)
(*   - every weak ordering of the capture scores (ties included) combined  *)
(*     with every position of the winning/losing threshold,                *)
(*   - every weak ordering of the history values of the quiet moves,       *)
(*   - remembered move: any listed move or none (the property's domain),   *)
(*   - killer 1, killer 2, counter move: independently any listed move     *)
(*     (so also captures, equal to each other, equal to the remembered     *)
(*     move), none, or a move that is not listed,                          *)
(*   - the captures-only variant for every capture configuration.          *)
(* Score grids are defined here because .cfg files reject negative and     *)
(* structured literals.                                                    *)
(***************************************************************************)
EXTENDS MovePicker

CONSTANTS NCmin, NCmax, NQmin, NQmax,
          Shard, NShards      \* the configurations are dealt out to NShards independent TLC runs

\* Weak orderings of n items as dense rank vectors: the values used are exactly 0..k-1.
Dense(n) ==
    {f \in [1..n -> 0..(n - 1)] :
        \A v \in 1..(n - 1) : (\E i \in 1..n : f[i] = v) => (\E i \in 1..n : f[i] = v - 1)}
Levels(f, n) == IF n = 0 THEN 0 ELSE 1 + (CHOOSE v \in 0..(n - 1) : (\E i \in 1..n : f[i] = v)
                                                     /\ \A i \in 1..n : f[i] <= v)
\* ranks below the threshold t are losing captures, the others winning ones
CapScores(n) ==
    UNION {{[i \in 1..n |-> IF f[i] >= t THEN GOOD + f[i] ELSE f[i]] : t \in 0..Levels(f, n)} : f \in Dense(n)}

MkCfg(n, m, cs, hs, h, a, b, c, l) ==
    [caps |-> [i \in 1..n |-> i], capScore |-> cs, quiets |-> [j \in 1..m |-> n + j], hist |-> hs,
     hash |-> h, k1 |-> a, k2 |-> b, cm |-> c, loud |-> l]

MCInit ==
    \E n \in NCmin..NCmax, m \in NQmin..NQmax :
      \E cs \in CapScores(n), hs \in Dense(m) :
        LET any == (1..(n + m)) \cup {Absent, Foreign} IN
        \/ \E h \in (1..(n + m)) \cup {Absent}, a \in any, b \in any, c \in any :
              /\ (h + 2 + 3 * (a + 2) + 7 * (b + 2) + 11 * (c + 2)) % NShards = Shard
              /\ InitWith(MkCfg(n, m, cs, hs, h, a, b, c, FALSE))
        \/ /\ hs = Zeros(m) /\ Shard = 0
           /\ InitWith(MkCfg(n, m, cs, hs, Absent, Absent, Absent, Absent, TRUE))

MCSpec == MCInit /\ [][Next]_vars
MCFairSpec == MCSpec /\ WF_vars(Next)

\* The domain of the property: the remembered move is a listed move or absent.
Domain == cfg.hash \in Listed(cfg) \cup {Absent}
MCInv == Domain /\ Inv
MCInvCore == Domain /\ InvCore
MCPlainSpec == MCInit /\ [][NextPlain]_vars
=============================================================================
