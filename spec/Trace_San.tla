------------------------------- MODULE Trace_San -------------------------------
(***************************************************************************)
(* C18: for every recorded position, the engine's SAN text of every legal  *)
(* move and what its reader makes of that text, judged by San.tla.         *)
(* Event: position fields, moves = sequence of [mv, san, back] where back  *)
(* is the packed move read back, -1 for a reported error, -2 for a panic   *)
(* of the reader, and san = "<panic>" if the writer panicked.              *)
(***************************************************************************)
EXTENDS San, Json, IOUtils, Reporting

Rec == ndJsonDeserialize(IOEnv.TRACE)
N == Len(Rec)
CastleSet(n) == {r \in 0..3 : (n \div (2 ^ r)) % 2 = 1}
EvPos(e) == [board |-> [i \in 1..64 |-> e.b[i]], stm |-> e.stm, castle |-> CastleSet(e.cr),
             ep |-> e.ep, hmc |-> e.hmc, plies |-> e.pl]

Clauses(i) ==
    LET e   == Rec[i]
        p   == EvPos(e)
        lm  == Legal(p)
        n   == Len(e.moves)
        txt == {e.moves[j].san : j \in 1..n}
    IN  IF ~LegalPosition(p) THEN ViolAt(FALSE, "ROOT", i, "illegal-position", [fen |-> e.fen]) ELSE
        /\ \A j \in 1..n :
              LET x == e.moves[j]
                  m == UnpackMove(x.mv)
              IN  IF m \notin lm THEN TRUE     \* a move-list defect is C01's business
                  ELSE /\ ViolAt(x.san \in SanTexts(p, m, lm), "C18", i, "text",
                                 [fen |-> e.fen, mv |-> UciOf(m), got |-> x.san, want |-> SanTexts(p, m, lm)])
                       /\ ViolAt(x.back = x.mv, "C18", i, "read-back",
                                 [fen |-> e.fen, mv |-> UciOf(m), san |-> x.san, back |-> x.back])
        \* the text names this move and no other legal move of the position
        /\ ViolAt(Cardinality(txt) = n, "C18", i, "not-injective", [fen |-> e.fen])

ASSUME \A i \in 1..N : Clauses(i)
ASSUME Stat("san", [positions |-> N])
VARIABLE x
Init == x = 0
Next == x' = x
=============================================================================
