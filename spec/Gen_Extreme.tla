------------------------------ MODULE Gen_Extreme ------------------------------
(***************************************************************************)
(* Position source for C16: material far outside normal play.  Both sides  *)
(* keep a wall of eight pawns on their fourth rank (so no piece attacks    *)
(* across and every arrangement behind the walls is a legal position) and *)
(* fill the three ranks behind it with a king and a chosen composition of  *)
(* queens, rooks, bishops and knights: up to nine queens, ten rooks, ten   *)
(* bishops or ten knights a side, bare kings, and lopsided pairings.  The  *)
(* game phase of these positions reaches several times its nominal         *)
(* maximum.  Printed for both sides to move.                               *)
(***************************************************************************)
EXTENDS Chess, Json, Reporting

\* <<queens, rooks, bishops, knights>>
Comps == << <<9, 2, 2, 2>>, <<0, 10, 2, 2>>, <<0, 2, 10, 2>>, <<0, 2, 2, 10>>, <<1, 2, 2, 2>>, <<0, 0, 0, 0>>,
            <<5, 5, 2, 2>>, <<9, 0, 0, 0>>, <<4, 4, 4, 3>>, <<0, 0, 1, 0>>, <<2, 0, 0, 0>>, <<3, 3, 3, 3>> >>

\* pieces of one side as a sequence of kinds, king first (Order 1) or last (Order 2)
Rep(k, n) == [i \in 1..n |-> k]
Kinds(c, order) ==
    LET body == Rep(Queen, c[1]) \o Rep(Rook, c[2]) \o Rep(Bishop, c[3]) \o Rep(Knight, c[4])
    IN  IF order = 1 THEN <<King>> \o body ELSE body \o <<King>>

\* white fills a1, b1, ... c3 upwards; black fills a8, b8, ... downwards
BoardOf(wc, bc, wo, bo) ==
    LET wk == Kinds(wc, wo)
        bk == Kinds(bc, bo)
    IN  [i \in 1..64 |->
            LET s == i - 1
            IN  IF RankOf(s) = 3 THEN PieceOf(0, Pawn)
                ELSE IF RankOf(s) = 4 THEN PieceOf(1, Pawn)
                ELSE IF RankOf(s) <= 2 THEN (IF s + 1 <= Len(wk) THEN PieceOf(0, wk[s + 1]) ELSE 0)
                ELSE LET t == (7 - RankOf(s)) * 8 + FileOf(s)
                     IN  IF t + 1 <= Len(bk) THEN PieceOf(1, bk[t + 1]) ELSE 0]

Emit(p) == PrintT("@@GEN " \o ToJson([fam |-> "extreme", b |-> [i \in 1..64 |-> p.board[i]], stm |-> p.stm, cr |-> 0,
                                      ep |-> -1, hmc |-> 0, pl |-> p.stm, fen |-> FenOf(p)]))

Run ==
    \A i \in 1..Len(Comps) : \A j \in 1..Len(Comps) : \A wo \in 1..2 : \A stm \in 0..1 :
        LET p == [board |-> BoardOf(Comps[i], Comps[j], wo, 3 - wo), stm |-> stm, castle |-> {}, ep |-> -1,
                  hmc |-> 0, plies |-> stm]
        IN  IF LegalPosition(p) THEN Emit(p) ELSE PrintT(<<"not legal?", FenOf(p)>>)

ASSUME Run
VARIABLE x
Init == x = 0
Next == x' = x
=============================================================================
