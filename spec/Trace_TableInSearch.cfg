CONSTANTS
  Keys <- TKeys
  N <- TN
  SlotOf <- TSlotOf
  GenMod <- TGenMod
  Checked <- TChecked
SPECIFICATION TraceSpec
INVARIANT TraceInv
POSTCONDITION TraceAccepted
CHECK_DEADLOCK FALSE
