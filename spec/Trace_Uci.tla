------------------------------- MODULE Trace_Uci -------------------------------
(***************************************************************************)
(* Direction A for C05: the sequence of step labels logged by the hooked   *)
(* binary (sequence numbers taken under the hook's lock at each step's     *)
(* linearization point) must be a behaviour of Uci.tla.  Every event is    *)
(* one action of the model; the hook label "M:setoption" stands for any of *)
(* the three option actions.                                               *)
(***************************************************************************)
EXTENDS Uci, Json, IOUtils, Reporting

VARIABLE l
tvars == <<mpc, control, latch, mutex, th, nextSlot, outstanding, hashZero, crashed, ncmd, lbl, l>>

Rec == ndJsonDeserialize(IOEnv.TRACE)
N == Len(Rec)

SlotOf(id) == ((id - 1) % 3) + 1
Matches(lb, e) ==
    IF e.k = "S" THEN lb = <<"S", SlotOf(e.id), e.w>>
    ELSE IF e.w = "setoption" THEN lb \in {<<"M", "setoption">>, <<"M", "sethash">>, <<"M", "sethash0">>}
    ELSE IF e.w \in {"uci", "other"} THEN FALSE
    ELSE lb = <<"M", e.w>>

\* uci / debug commands have no counterpart in the model: consumed as stuttering steps
Skip == l <= N /\ Rec[l].k = "M" /\ Rec[l].w \in {"uci", "other"} /\ l' = l + 1 /\ UNCHANGED vars

TraceInit == Init /\ l = 1
TraceNext ==
    \/ (l <= N /\ Next /\ Matches(lbl', Rec[l]) /\ l' = l + 1)
    \/ Skip
TraceSpec == TraceInit /\ [][TraceNext]_tvars

\* the longest matched prefix, kept in a TLC register (single worker)
Progress == TLCSet(1, IF TLCGet(1) > l THEN TLCGet(1) ELSE l)
ASSUME TLCSet(1, 0)

TraceAccepted ==
    LET reached == TLCGet(1) - 1
    IN  /\ Stat("uci-trace", [events |-> N, matched |-> reached])
        /\ ViolAt(reached = N, "C05T", reached + 1, "event-not-a-model-step",
                  IF reached < N THEN Rec[reached + 1] ELSE [k |-> "-", w |-> "-", id |-> 0])
=============================================================================
