------------------------------ MODULE TransTable ------------------------------
(***************************************************************************)
(* C19  The transposition table never confuses positions and keeps honest  *)
(* statistics.                                                             *)
(*                                                                         *)
(* An explicit state machine of /repo/src/engine/transposition_table.rs    *)
(* with the replacement policy of search/transposition.rs, in two layers   *)
(* (DESIGN.md 1.3):                                                        *)
(*                                                                         *)
(*   CodeView      the actions Insert / Probe / NewSearch / Reset / Resize *)
(*                 / Fill / New below: what the code does, line by line:   *)
(*                 slot = key mod entries, one entry per slot, the four-   *)
(*                 line replacement rule on the stored 8-bit age           *)
(*                 (age = search mod GenMod), `occupied` counted on the    *)
(*                 first fill of a slot, `key % 0` on a zero-slot table    *)
(*                 and (Checked = TRUE: the code before /repo fec6e7e) the *)
(*                 `generation += 1` overflow as a Crash state.            *)
(*                                                                         *)
(*   PropertyView  the predicates PV* : exactly what C19 states.  They     *)
(*                 speak about the true search number (a ghost the code    *)
(*                 does not have), never about the stored age.             *)
(*                                                                         *)
(* MC_TransTable checks  CodeView => PropertyView  on a bounded model,     *)
(* Trace_TransTable evaluates both layers on recorded executions of the    *)
(* real table.                                                             *)
(***************************************************************************)
EXTENDS Integers, FiniteSets, Sequences

CONSTANTS
    Keys,          \* the keys operations are issued on (any values)
    N(_),          \* size setting (megabytes in the code) -> number of slots
    SlotOf(_, _),  \* (key, number of slots > 0) -> slot index;  key mod n in the code
    GenMod,        \* number of distinct stored ages: 256 in the code (u8)
    Checked        \* TRUE: `generation += 1` panics on overflow (checked build of the code before the
                   \* repair /repo fec6e7e); FALSE: it wraps (wrapping_add; any optimised build)

VARIABLES
    slot,      \* [tracked slot indices -> None or entry]
    search,    \* GHOST: true number of searches begun since the table was last emptied
    occupied,  \* the code's counter of filled slots
    size,      \* the size setting the table currently has
    bulk,      \* number of filled slots outside the tracked ones (Fill; always 0 in the bounded model)
    st,        \* "ok" | "crash"
    ret        \* the last operation with its arguments and what it returned

vars == <<slot, search, occupied, size, bulk, st, ret>>

Exact == 0      \* NodeBound::Exact / Upper / Lower in declaration order
Upper == 1
Lower == 2
Bounds == {Exact, Upper, Lower}

\* An entry: what was stored (key, bound, depth, tag, mv: tag stands for the score and mv for the
\* best move), the age the code stamps on it, and the ghost `search` it was stored in.
None == [key |-> -1, bound |-> -1, depth |-> -1, age |-> -1, search |-> -1, tag |-> -1, mv |-> -1]
Entry(k, d, s) == [key |-> k, bound |-> d.bound, depth |-> d.depth, age |-> s % GenMod, search |-> s,
                   tag |-> d.tag, mv |-> d.mv]
\* What a probe hands out (the code returns a reference to the stored data, age included).
NoData == [bound |-> -1, depth |-> -1, age |-> -1, tag |-> -1, mv |-> -1]
Data(e) == IF e = None THEN NoData
           ELSE [bound |-> e.bound, depth |-> e.depth, age |-> e.age, tag |-> e.tag, mv |-> e.mv]

\* The slot indices that can ever be non-empty through operations on Keys.
Dom(sz) == IF N(sz) = 0 THEN {} ELSE {SlotOf(k, N(sz)) : k \in Keys}
Empty(sz) == [s \in Dom(sz) |-> None]
Filled(f) == Cardinality({s \in DOMAIN f : f[s] # None})
Gen == search % GenMod            \* the code's `generation` (CodeView)

(***************************************************************************)
(* PropertyView                                                            *)
(***************************************************************************)
\* The stored age is the table's own bookkeeping: the property never mentions it.
Pv(e)  == [e EXCEPT !.age = 0]
PvD(d) == [d EXCEPT !.age = 0]
SameContent(f, g) == DOMAIN f = DOMAIN g /\ \A s \in DOMAIN f : Pv(f[s]) = Pv(g[s])

\* "entries from earlier searches always give way" (and an empty slot takes anything)
MustAdmit(old, new) == old = None \/ old.search < new.search
\* "within one search an exact result is displaced only by another exact result or a deeper one"
MustKeep(old, new) == /\ old # None /\ old.search = new.search
                      /\ old.bound = Exact /\ new.bound # Exact /\ new.depth <= old.depth
\* the property is silent otherwise: either outcome is admissible
Allowed(old, new) == IF MustAdmit(old, new) THEN {new}
                     ELSE IF MustKeep(old, new) THEN {old}
                     ELSE {old, new}

\* what a probe for k returns when the table content is f: "data only if it was stored under exactly
\* the same key", and then "the latest entry the replacement policy admitted for that slot".  (Read as
\* an equality: a probe for the key the slot holds does return it - otherwise "give way" and "displaced"
\* would say nothing observable.)
ProbeOf(f, k, n) == IF n = 0 THEN NoData
                    ELSE LET e == f[SlotOf(k, n)] IN IF e # None /\ e.key = k THEN Data(e) ELSE NoData

\* "the fill indicator equals the fraction of occupied slots" (float-derived: tolerance 1, DESIGN 7)
TruePermille(f, b, n) == (1000 * (Filled(f) + b)) \div n
PermilleOK(p, f, b, n) == n = 0 \/ (p >= TruePermille(f, b, n) - 1 /\ p <= TruePermille(f, b, n) + 1)

\* PropertyView of one step, as a predicate on a pair of states; the step is identified by ret'.
PVNew ==
    /\ size' = ret'.n /\ slot' = Empty(ret'.n) /\ bulk' = 0
PVInsert ==
    LET k == ret'.k
        n == N(size)
    IN  /\ search' = search /\ size' = size /\ bulk' = bulk
        /\ IF n = 0 THEN slot' = slot
           ELSE LET s == SlotOf(k, n)
                IN  /\ DOMAIN slot' = DOMAIN slot
                    /\ Pv(slot'[s]) \in {Pv(a) : a \in Allowed(slot[s], Entry(k, ret'.d, search))}
                    /\ \A t \in DOMAIN slot : t # s => Pv(slot'[t]) = Pv(slot[t])
PVProbe ==
    /\ SameContent(slot', slot) /\ search' = search /\ size' = size /\ bulk' = bulk
    /\ PvD(ret'.res) = PvD(ProbeOf(slot, ret'.k, N(size)))
PVNewSearch == SameContent(slot', slot) /\ size' = size /\ bulk' = bulk /\ search' = search + ret'.times
PVReset     == slot' = Empty(size) /\ size' = size /\ bulk' = 0
PVResize    == /\ size' = ret'.n
               /\ IF ret'.n # size THEN slot' = Empty(ret'.n) /\ bulk' = 0
                  \* "resize" means the size changes (DESIGN 7): otherwise the property is silent
                  ELSE \/ SameContent(slot', slot) /\ bulk' = bulk
                       \/ slot' = Empty(size) /\ bulk' = 0
PVFill      == SameContent(slot', slot) /\ search' = search /\ size' = size /\ bulk' = bulk + ret'.cnt

\* "keeps working for every advertised size and for any number of searches"
PVNoCrash == st' = "ok"

PVData ==
    CASE ret'.op = "new"       -> PVNew
      [] ret'.op = "insert"    -> PVInsert
      [] ret'.op = "probe"     -> PVProbe
      [] ret'.op = "newsearch" -> PVNewSearch
      [] ret'.op = "reset"     -> PVReset
      [] ret'.op = "resize"    -> PVResize
      [] ret'.op = "fill"      -> PVFill
      [] OTHER -> FALSE

PVStep == PVNoCrash /\ PVData

\* The whole PropertyView as a temporal formula over the variables above (the fill indicator is the
\* state predicate FillIndicator below).
PropertyView == [][PVStep]_vars

(***************************************************************************)
(* CodeView                                                                *)
(***************************************************************************)
\* SearchTranspositionTableData::should_overwrite_with, in the order of the code
CodeOverwrite(old, new) ==
    IF new.age # old.age THEN TRUE            \* "Always prioritise results from new searches"
    ELSE IF new.depth > old.depth THEN TRUE   \* deeper
    ELSE IF new.bound = Exact THEN TRUE       \* new exact
    ELSE old.bound # Exact                    \* "Don't overwrite exact nodes"
CodeStore(old, new) == IF old = None \/ CodeOverwrite(old, new) THEN new ELSE old

\* occupancy(): (occupied as f32 / len as f32 * 1000.0) as usize; 0/0 = NaN casts to 0
CodePermille == IF N(size) = 0 THEN 0 ELSE (1000 * occupied) \div N(size)

Live == st = "ok"
Crash(r) == st' = "crash" /\ ret' = r /\ UNCHANGED <<slot, search, occupied, size, bulk>>

Insert(k, d) ==
    /\ Live
    /\ LET r == [op |-> "insert", k |-> k, d |-> d]
       IN  IF N(size) = 0 THEN Crash(r)                    \* get_entry_idx: key % 0
           ELSE LET s   == SlotOf(k, N(size))
                    old == slot[s]
                    new == Entry(k, d, search)
                IN  /\ slot' = [slot EXCEPT ![s] = CodeStore(old, new)]
                    /\ occupied' = IF old = None THEN occupied + 1 ELSE occupied
                    /\ ret' = r
                    /\ UNCHANGED <<search, size, bulk, st>>

Probe(k) ==
    /\ Live
    /\ IF N(size) = 0 THEN Crash([op |-> "probe", k |-> k, res |-> NoData])
       ELSE /\ ret' = [op |-> "probe", k |-> k, res |-> ProbeOf(slot, k, N(size))]
            /\ UNCHANGED <<slot, search, occupied, size, bulk, st>>

\* new_generation on the u8 counter, t times in a row: wrapping_add(1); before /repo fec6e7e `+= 1`,
\* which panics in a checked build in the call that would leave GenMod - 1 (Checked = TRUE)
NewSearches(t) ==
    /\ Live
    /\ LET r == [op |-> "newsearch", times |-> t]
       IN  IF Checked /\ Gen + t >= GenMod THEN Crash(r)
           ELSE /\ search' = search + t                     \* Gen' = (Gen + t) mod GenMod
                /\ ret' = r
                /\ UNCHANGED <<slot, occupied, size, bulk, st>>
NewSearch == NewSearches(1)

Reset ==
    /\ Live
    /\ slot' = Empty(size) /\ search' = 0 /\ occupied' = 0 /\ bulk' = 0
    /\ ret' = [op |-> "reset"]
    /\ UNCHANGED <<size, st>>

Resize(n) ==
    /\ Live
    /\ ret' = [op |-> "resize", n |-> n]
    /\ IF n = size THEN UNCHANGED <<slot, search, occupied, size, bulk, st>>
       ELSE /\ slot' = Empty(n) /\ search' = 0 /\ occupied' = 0 /\ bulk' = 0 /\ size' = n
            /\ UNCHANGED st

\* cnt inserts of fresh keys into empty, untracked slots (only used to reach real fill levels on
\* the real table; the caller guarantees freshness)
Fill(cnt) ==
    /\ Live /\ N(size) > 0
    /\ bulk' = bulk + cnt /\ occupied' = occupied + cnt
    /\ ret' = [op |-> "fill", cnt |-> cnt]
    /\ UNCHANGED <<slot, search, size, st>>

\* TranspositionTable::new(n)
New(n) ==
    /\ slot' = Empty(n) /\ search' = 0 /\ occupied' = 0 /\ size' = n /\ bulk' = 0 /\ st' = "ok"
    /\ ret' = [op |-> "new", n |-> n]

InitWith(sz) ==
    /\ slot = Empty(sz) /\ search = 0 /\ occupied = 0 /\ size = sz /\ bulk = 0 /\ st = "ok"
    /\ ret = [op |-> "new", n |-> sz]

\* the CodeView action that belongs to an operation label
CodeStep(r) ==
    CASE r.op = "new"       -> New(r.n)
      [] r.op = "insert"    -> Insert(r.k, r.d)
      [] r.op = "probe"     -> Probe(r.k)
      [] r.op = "newsearch" -> NewSearches(r.times)
      [] r.op = "reset"     -> Reset
      [] r.op = "resize"    -> Resize(r.n)
      [] r.op = "fill"      -> Fill(r.cnt)
      [] OTHER -> FALSE

(***************************************************************************)
(* State invariants connecting the layers                                  *)
(***************************************************************************)
NoCrash        == st = "ok"
CounterExact   == occupied = Filled(slot) + bulk
FillIndicator  == PermilleOK(CodePermille, slot, bulk, N(size))
NoConfusion    == \A s \in DOMAIN slot : slot[s] # None => SlotOf(slot[s].key, N(size)) = s
AgeIsSearchMod == \A s \in DOMAIN slot : slot[s] # None => slot[s].age = slot[s].search % GenMod
NoFutureEntry  == \A s \in DOMAIN slot : slot[s] # None => slot[s].search <= search
=============================================================================
