--------------------------- MODULE Trace_SearchCtl ---------------------------
(***************************************************************************)
(* Binds SearchCtl.tla (iterative deepening x aspiration windows, the      *)
(* model in which TLC found the window overflow F2) to the code: the root  *)
(* level of recorded node traces (hook H6) must be a behaviour of the      *)
(* specification's own actions.  IOEnv.TRACE: ND-JSON projection written   *)
(* by tools/nodes.py from the `nodes` traces:                              *)
(*   start            a search begins                                      *)
(*   N0 (a, b, d)     negamax entered at the root with this window, depth  *)
(*   O0 (v)           the root returned v                                  *)
(*   X                a poll inside the tree observed the stop request     *)
(*   end              the search is over                                   *)
(* Every line must be explained by StartSearch / StartIteration /          *)
(* TreeReturns / TreeAborts / EndSearch with the logged numbers; a window  *)
(* re-entered at the same depth must be the widened window the             *)
(* specification computed.  CodeView: a rejected line is drift.            *)
(***************************************************************************)
EXTENDS SearchCtl, Json, IOUtils, TLC, Sequences

Rec == ndJsonDeserialize(IOEnv.TRACE)
N == Len(Rec)
VARIABLES l, entered        \* entered: the root has been entered with the current window
tvars == <<gen, nsearch, phase, depth, prev, a, b, w, hasPv, ovf, l, entered>>

IsEvent(k) == l <= N /\ Rec[l].e = k /\ l' = l + 1
E == Rec[l]

TStart == IsEvent("start") /\ StartSearch /\ entered' = FALSE

\* first entry of an iteration: the specification opens the window, the code must have entered with it
TIterate ==
    /\ IsEvent("N0") /\ phase = "iter"
    /\ StartIteration
    /\ depth' = E.d /\ a' = E.a /\ b' = E.b
    /\ entered' = TRUE

\* re-entry after a fail-low / fail-high: same depth, the window the specification widened to
TRetry ==
    /\ IsEvent("N0") /\ phase = "asp" /\ ~entered
    /\ depth = E.d /\ a = E.a /\ b = E.b
    /\ entered' = TRUE
    /\ UNCHANGED svars

TReturn ==
    /\ IsEvent("O0") /\ entered
    /\ TreeReturns(E.v)
    /\ entered' = FALSE

TAbort ==
    /\ IsEvent("X") /\ phase = "asp" /\ entered
    /\ phase' = "done" /\ entered' = FALSE
    /\ UNCHANGED <<gen, nsearch, depth, prev, a, b, w, hasPv, ovf>>

TEnd ==
    /\ IsEvent("end")
    /\ IF phase = "iter" THEN EndSearch ELSE (phase = "done" /\ UNCHANGED svars)
    /\ UNCHANGED entered

TNext == TStart \/ TIterate \/ TRetry \/ TReturn \/ TAbort \/ TEnd
TInit == Init /\ l = 1 /\ entered = FALSE
TraceSpec == TInit /\ [][TNext]_tvars

Accepted ==
    LET d == TLCGet("stats").diameter
    IN  /\ PrintT("@@STAT " \o ToJson([name |-> "searchctl", v |-> [events |-> N, matched |-> d - 1,
                   first_unmatched |-> IF d - 1 < N THEN Rec[d] ELSE [e |-> "none"]]]))
        /\ TRUE
=============================================================================
