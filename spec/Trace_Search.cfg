INIT Init
NEXT Next
