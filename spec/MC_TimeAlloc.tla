---------------------------- MODULE MC_TimeAlloc ----------------------------
(***************************************************************************)
(* C14, bounded exhaustive runs.                                           *)
(*                                                                         *)
(* GSpec: every clock situation of a dense grid is one initial state; the  *)
(* engine then either allocates its limits by the CodeView formula or      *)
(* crashes (Duration / 0).  Invariants: CodeView => PropertyView in the    *)
(* property's domain, and no crash inside the domain.  Units: milliseconds *)
(* with exact mixed-number rationals (TimeAlloc.tla, "Units and ranges");  *)
(* the grid stays below 10^7 ms, 10^4 moves.  With GRIDOUT set the same    *)
(* grid is written as ND-JSON for the harness, so the real TimeStrategy is *)
(* run on exactly the situations that were model-checked.                  *)
(*                                                                         *)
(* TSpec: the timed poll model of TimeAlloc.tla (abstract time units).     *)
(***************************************************************************)
EXTENDS TimeAlloc, TLC, Json, IOUtils, FiniteSets, SequencesExt

CONSTANTS Dense,      \* TRUE: thorough grid
          Shard, NShards

RemBase == {-50, 0, 1, 2, 3, 5, 7, 10, 15, 20, 30, 50, 70, 100, 149, 150, 151, 199, 200, 201, 250, 300, 400,
            500, 700, 999, 1000, 1001, 1500, 2000, 3000, 5000, 7000, 10000, 15000, 20000, 30000, 50000,
            60000, 70000, 100000, 150000, 180000, 200000, 300000, 500000, 600000, 700000, 1000000,
            1500000, 2000000, 3000000, 3600000, 5000000, 7000000, 9999999, 10000000}
RemDense == RemBase \cup {m * 10 ^ k : m \in 1..9, k \in 0..6} \cup {10 ^ k + d : k \in 1..6, d \in {-1, 1}}
            \cup {2 ^ k * 1000 + d : k \in 0..13, d \in {-1, 0, 1}}   \* float exponent changes of as_secs_f32
RemGrid  == IF Dense THEN RemDense ELSE RemBase
RemShard == {r \in RemGrid : Cardinality({x \in RemGrid : x < r}) % NShards = Shard}

IncGrid == {NotSent, 0, 1, 10, 100, 1000, 2000, 5000, 10000, 60000, 1000000, 10000000}
MtgGrid == IF Dense THEN {NotSent} \cup 1..100
           ELSE {NotSent, 1, 2, 3, 4, 5, 8, 10, 16, 20, 25, 30, 40, 50, 64, 99, 100}
\* in the domain: 0 .. rem/2;  two values outside it (the formula must still be defined there)
OvhGrid(r) == LET h == Pos(r) \div 2
              IN  {x \in {0, 1, 10, 30, 50, 100, 300, 1000, h, h - 1, h \div 2} : 0 <= x /\ x <= h} \cup {h + 1, Pos(r) + 1000}

Sent(x) == IF x = NotSent THEN 0 ELSE 1
Sit(r, ownSent, i, m, t, o, other) ==
    [rem |-> r, inc |-> i, mtg |-> m, mt |-> t, ovh |-> o, has |-> <<ownSent, Sent(i), Sent(m), Sent(t), other>>]

Other(i, m) == IF (m + 2 + (Pos(i) % 7)) % 3 = 0 THEN 0 ELSE 1   \* the opponent's clock is sent in 2 of 3 lines
\* only the opponent's clock / only a movetime / both a clock and a movetime / nothing / movestogo 0 (outside
\* the domain: the coded formula divides by it)
Few == IF Shard # 0 THEN {} ELSE
       {Sit(NotSent, 0, i, m, t, o, 1) : i \in {NotSent, 0, 1000}, m \in {NotSent, 0, 1, 40}, t \in {NotSent, 100},
                                         o \in {0, 10}}
       \cup {Sit(NotSent, 0, i, m, t, o, 0) : i \in {NotSent, 1000}, m \in {NotSent, 0, 40},
                                             t \in {NotSent, -5, 0, 1, 100, 1000, 12345, 10000000}, o \in {0, 50}}
       \cup {Sit(r, 1, i, NotSent, t, o, 1) : r \in {0, 200, 1000, 60000}, i \in {NotSent, 1000},
                                             t \in {0, 50, 100, 100000}, o \in {0, 10}}
       \cup {Sit(r, 1, i, 0, NotSent, o, 1) : r \in {0, 1, 200, 1000, 60000, 10000000}, i \in {NotSent, 0, 1000},
                                             o \in {0, 10}}


VARIABLES sit, phase, lim
gvars == <<sit, phase, lim>>
NoLim == [soft |-> QInt(0), hard |-> QInt(0)]
Idle  == /\ now = 0 /\ nextPoll = 0 /\ stopped = FALSE /\ clk = [rem |-> 0, soft |-> 0, hard |-> 0, t0 |-> 0]

\* Written with quantifiers: TLC evaluates constant definitions eagerly and builds a UNION of record sets by
\* linear search (quadratic), so the grid is never defined as one set.
GInit == /\ \/ \E r \in RemShard : \E i \in IncGrid, m \in MtgGrid, o \in OvhGrid(r) :
                 sit = Sit(r, 1, i, m, NotSent, o, Other(i, m))
            \/ sit \in Few
         /\ phase = "asked" /\ lim = NoLim /\ Idle

Allocate == /\ phase = "asked" /\ ~CodeCrashes(sit)
            /\ phase' = "allocated" /\ lim' = CodeLimits(sit)
            /\ UNCHANGED <<sit, tvars>>
Crash    == /\ phase = "asked" /\ CodeCrashes(sit)
            /\ phase' = "crashed"
            /\ UNCHANGED <<sit, lim, tvars>>
GNext == Allocate \/ Crash
GSpec == GInit /\ [][GNext]_<<gvars, tvars>>

CodeImpliesProperty == (phase = "allocated" /\ InDomain(sit)) => PVLimitsQ(sit, lim.soft, lim.hard)
NoCrashInDomain     == phase = "crashed" => ~InDomain(sit)
SoftNeverAboveHard  == phase = "allocated" => QLe(lim.soft, lim.hard)      \* holds outside the domain too
Normalised          == lim.soft.n < lim.soft.d /\ lim.hard.n < lim.hard.d /\ lim.soft.w >= 0 /\ lim.hard.w >= 0

----------------------------------------------------------------------------
(* The grid as the harness reads it.  The other side's clock is made much   *)
(* larger than the mover's, so an implementation that looks at the wrong    *)
(* side's clock breaks PropertyView on these lines.                         *)
Line(s) ==
    [rem |-> s.rem, inc |-> s.inc, mtg |-> s.mtg, mt |-> s.mt, ovh |-> s.ovh,
     orem |-> 3 * Pos(s.rem) + 977, oinc |-> 2 * Pos(s.inc) + 777,
     has |-> s.has \o <<s.has[2]>>,
     stm |-> IF (Pos(s.rem) + Pos(s.mtg) + s.ovh) % 2 = 0 THEN "w" ELSE "b"]

\* One file per remaining-time value (sequences by index arithmetic: no big set has to be built and sorted).
IncSeq == SetToSeq(IncGrid)
MtgSeq == SetToSeq(MtgGrid)
LinesOf(r) ==
    LET os == SetToSeq(OvhGrid(r))
        ni == Len(IncSeq)
        nm == Len(MtgSeq)
    IN  [k \in 1..(ni * nm * Len(os)) |->
            LET i == IncSeq[((k - 1) % ni) + 1]
                m == MtgSeq[(((k - 1) \div ni) % nm) + 1]
                o == os[((k - 1) \div (ni * nm)) + 1]
            IN  Line(Sit(r, 1, i, m, NotSent, o, Other(i, m)))]

ASSUME IOEnv.GRIDOUT = "" \/
       /\ \A r \in RemShard : ndJsonSerialize(IOEnv.GRIDOUT \o "." \o ToString(r), LinesOf(r))
       /\ ndJsonSerialize(IOEnv.GRIDOUT \o ".few", SetToSeq({Line(s) : s \in Few}))
ASSUME PrintT("@@STAT " \o ToJson([name |-> "grid", v |-> [rems |-> RemShard, few |-> Cardinality(Few)]]))

----------------------------------------------------------------------------
TimedInit == TInit /\ sit = Sit(0, 0, NotSent, NotSent, NotSent, 0, 0) /\ phase = "timed" /\ lim = NoLim
\* unit ticks only: Advance(dt) is dt steps of Advance(1) through states in which the same polls and boundaries
\* are enabled, so nothing is lost and the transition count stays linear in MaxPollGap
TAdvance  == Advance(1) /\ UNCHANGED gvars
TPoll     == Poll /\ UNCHANGED gvars
TBoundary == IterationBoundary /\ UNCHANGED gvars
TimedNext == TAdvance \/ TPoll \/ TBoundary
TimedSpec == TimedInit /\ [][TimedNext]_<<gvars, tvars>>
             /\ WF_tvars(Advance(1)) /\ WF_tvars(Poll)
=============================================================================
