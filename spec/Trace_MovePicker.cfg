INIT TInit
NEXT TNext
