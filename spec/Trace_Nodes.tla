------------------------------ MODULE Trace_Nodes ------------------------------
(***************************************************************************)
(* The tree search, node by node (DESIGN.md 10.1, hook H6).                *)
(*                                                                         *)
(* IOEnv.TRACE is an ND-JSON file written by the harness (`nodes`): for    *)
(* every recorded search a `root` line (base position, moves played to     *)
(* reach the root), one line per step of every node of negamax /           *)
(* quiescence, and an `end` line.  Steps (p = ply of the node):            *)
(*   N  entry of negamax (alpha, beta, depth)      Q  entry of quiescence  *)
(*   X  the poll observed the stop request         D  draw recognised      *)
(*   L  depth 0: continue as quiescence            T  table entry usable   *)
(*   S  static evaluation (eval, depth after check extension, in check)    *)
(*   F  reverse futility return                    M0 / R0  null move made *)
(*   M  move made (count, alpha, move)             / its result            *)
(*   R  result of the move                         P  line updated         *)
(*   Z  no move was searched (mate / stalemate)    O  ordinary return      *)
(*   QM quiescence at the ply limit                                        *)
(*                                                                         *)
(* The specification replays the steps on a stack of frames, refining the  *)
(* abstract search of Negamax.tla: every frame holds the rule-book         *)
(* position of its node (obtained with Chess!Make from the root), so each  *)
(* step is judged in the position where it happened.                       *)
(*                                                                         *)
(* PropertyView (VIOL):                                                    *)
(*   C04  every move the search makes is legal in the node's position;     *)
(*        the search ends with a legal move of the root                    *)
(*   C10  no node searches a move twice                                    *)
(*   C01  the in-check verdict used at a node agrees with the rule book    *)
(*   C08  a node returns "mated" / "stalemate" only without legal moves;   *)
(*        a line is the move just searched followed by the line of the     *)
(*        child that produced the score (so lines are playable by          *)
(*        induction)                                                       *)
(*   C11  a draw is recognised inside the search only where the history    *)
(*        makes it one (repetition per Draws.tla, fifty-move, material)    *)
(*   C09  once a poll has observed the stop request no further step of     *)
(*        any node happens                                                 *)
(* CodeView (DRIFT, id NODES): window discipline of principal-variation    *)
(*   search, depth bookkeeping, value propagation (a result is minus the   *)
(*   value the child returned; the returned value is the maximum of the    *)
(*   results; bounds), conditions of the table / futility / null-move      *)
(*   returns as coded.                                                     *)
(***************************************************************************)
EXTENDS Draws, Json, IOUtils, Reporting, FiniteSets

Rec == ndJsonDeserialize(IOEnv.TRACE)
N == Len(Rec)

VARIABLES l, st, path, mode, rootpos, rootpv, rootlines, cnt
vars == <<l, st, path, mode, rootpos, rootpv, rootlines, cnt>>

MinE == -32768
MaxE == 32767
MateV == 32000
None == 99999                                 \* "no value"
Neg(x) == IF x = MinE THEN MaxE ELSE -x       \* Eval::neg saturates
MaxOf(a, b) == IF a >= b THEN a ELSE b

CastleSet(n) == {r \in 0..3 : (n \div (2 ^ r)) % 2 = 1}
EvPos(e) == [board |-> [i \in 1..64 |-> e.b[i]], stm |-> e.stm, castle |-> CastleSet(e.cr),
             ep |-> e.ep, hmc |-> e.hmc, plies |-> e.pl]
NullMv == [from |-> -1, to |-> -1, promo |-> 0, kind |-> -1]
NullPos(p) == [p EXCEPT !.stm = Other(p.stm), !.ep = -1, !.plies = p.plies + 1]

Viol(c, id, what, detail) == ViolAt(c, id, l, what, detail)
Drift(c, what, detail) == DriftAt(c, "NODES", l, what, detail)

\* history from the base position through the moves played before the root: <<stack, position>>
RECURSIVE PlayPre(_, _, _, _)
PlayPre(p, ms, i, acc) ==
    IF i > Len(ms) THEN <<acc, p>>
    ELSE LET m == UnpackMove(ms[i])
         IN  PlayPre(Make(p, m), ms, i + 1, Append(acc, [pos |-> p, mv |-> m]))

Top == st[Len(st)]
Kinds == {"N", "Q", "X", "D", "L", "T", "S", "F", "M0", "R0", "M", "R", "P", "Z", "O", "QM"}
Returned == {"D", "T", "F", "R0", "Z", "O", "QM"}     \* a frame whose last step is one of these has returned

NewFrame(p, q, pos, a, b, d, pv) ==
    [ply |-> p, q |-> q, pos |-> pos, a |-> a, a0 |-> a, b |-> b, d |-> d, deff |-> d, chk |-> FALSE, se |-> None,
     last |-> IF q THEN "Q" ELSE "N", lv |-> <<0, 0, 0>>,
     legal |-> {-1}, tried |-> {}, cur |-> -1, curAlpha |-> 0, childPos |-> pos, nchild |-> 0,
     best |-> MinE, cut |-> FALSE, raised |-> FALSE, expectP |-> FALSE,
     nodePv |-> <<>>, pv |-> pv, fresh |-> pv]

IsPv(f) == f.a0 # f.b - 1

\* value a returned frame hands to its caller (None: the frame has not returned)
ValueOf(f) ==
    CASE f.last = "D"  -> 0
      [] f.last = "T"  -> f.lv[3]
      [] f.last = "F"  -> f.lv[1]
      [] f.last = "R0" -> f.lv[1]
      [] f.last = "Z"  -> IF f.lv[1] = 1 THEN -MateV + f.ply ELSE 0
      [] f.last = "O"  -> f.lv[1]
      [] f.last = "QM" -> f.lv[1]
      [] f.last = "S" /\ f.q -> f.lv[1]                 \* stand-pat cut-off
      [] OTHER -> None

\* conditions, as coded, under which the last step of a returned frame is a return
ReturnAsCoded(f) ==
    CASE f.last = "T" -> f.lv[1] = 0 \/ (f.lv[1] = 1 /\ f.lv[2] <= f.a) \/ (f.lv[1] = 2 /\ f.lv[2] >= f.b)
      [] f.last = "R0" -> f.lv[1] >= f.b
      [] f.last = "S" -> f.q /\ f.lv[1] >= f.b
      [] OTHER -> TRUE

\* the stack after its top frame has returned to the frame below: the value and the line buffer are handed down
Closed(s) ==
    LET c == s[Len(s)]
        k == Len(s) - 1
    IN  IF k = 0 THEN <<>>
        ELSE [i \in 1..k |-> IF i < k THEN s[i]
                              ELSE [s[k] EXCEPT !.nchild = @ + 1,
                                                !.nodePv = IF s[k].cur = -2 THEN @ ELSE c.pv]]
\* (the null-move child gets a buffer of its own; a quiescence frame never writes to the buffer it was handed)

Bump(k) == cnt' = [cnt EXCEPT ![k] = @ + 1]

IsStep(k) == l <= N /\ Rec[l].e = k /\ l' = l + 1
E == Rec[l]

CloseClauses(c) ==
    /\ Drift(ValueOf(c) # None, "frame-left-without-a-return-step", [ply |-> c.ply, last |-> c.last])
    /\ Drift(ReturnAsCoded(c), "return-condition", [ply |-> c.ply, last |-> c.last, lv |-> c.lv, a |-> c.a, b |-> c.b])

(***************************************************************************)
(* root / end                                                              *)
(***************************************************************************)
Root ==
    /\ IsStep("root")
    /\ LET h == PlayPre(EvPos(E), E.pre, 1, <<>>)
       IN  /\ Viol(LegalPosition(h[2]) /\ Legal(h[2]) # {}, "ROOT", "terminal-or-illegal-root", [fen |-> E.fen])
           /\ Viol(FenOf(h[2]) = E.fen, "ROOT", "root-differs", [fen |-> E.fen, spec |-> FenOf(h[2])])
           /\ path' = h[1]
           /\ rootpos' = h[2]
    /\ Drift(mode = "idle", "root-inside-a-search", [mode |-> mode])
    /\ st' = <<>>
    /\ mode' = "run"
    /\ rootpv' = <<>>
    /\ rootlines' = {}
    /\ Bump("root")

End ==
    /\ IsStep("end")
    /\ LET legal == {PackMove(m) : m \in Legal(rootpos)}
       IN  /\ Viol(E.out = "move", "C04", "no-move-returned", [fen |-> FenOf(rootpos), out |-> E.out, msg |-> E.msg])
           /\ E.out = "move" => Viol(E.best \in legal, "C04", "illegal-bestmove", [fen |-> FenOf(rootpos), best |-> E.best])
           /\ \A j \in 1..Len(E.infos) :
                 \* CodeView: as coded, a reported line is the root's line buffer at the end of an iteration (what C08
                 \* demands of reported lines - playable, mates true - is judged on the lines themselves by Trace_Search)
                 Drift(E.infos[j].pv \in rootlines, "reported-line-was-never-the-line-of-the-root",
                       [fen |-> FenOf(rootpos), depth |-> E.infos[j].d, pv |-> E.infos[j].pv])
    /\ mode = "run" /\ st # <<>> =>
          /\ Drift(Len(st) = 1, "search-ended-inside-the-tree", [depth |-> Len(st)])
          /\ CloseClauses(Top)
    /\ st' = <<>>
    /\ mode' = "idle"
    /\ UNCHANGED <<path, rootpos, rootpv, rootlines>>
    /\ Bump("end")

(***************************************************************************)
(* entries                                                                 *)
(***************************************************************************)
\* the frame below the new one, after a returned sibling (re-search) has been closed
Below(p) == IF st # <<>> /\ Top.ply = p THEN Closed(st) ELSE st

Enter(p, q, a, b, d) ==
    LET s == Below(p)
    IN  /\ Viol(mode # "aborted", "C09", "node-entered-after-the-stop-was-observed", [ply |-> p, fen |-> FenOf(rootpos)])
        /\ (st # <<>> /\ Top.ply = p) => CloseClauses(Top)
        /\ IF p = 0
           THEN /\ Drift(s = <<>>, "root-entered-inside-the-tree", [depth |-> Len(s)])
                /\ LET pvnow == IF st # <<>> /\ Top.ply = 0 THEN Top.pv ELSE rootpv
                   IN  /\ st' = <<NewFrame(0, q, rootpos, a, b, d, pvnow)>>
                       /\ rootpv' = pvnow
           ELSE /\ Drift(s # <<>> /\ s[Len(s)].ply = p - 1 /\ s[Len(s)].cur # -1, "entry-without-a-move-made", [ply |-> p])
                /\ IF s # <<>> /\ s[Len(s)].ply = p - 1 /\ s[Len(s)].cur # -1
                   THEN LET f == s[Len(s)]
                            na == Neg(f.curAlpha)
                            nb == Neg(f.b)
                        IN  /\ IF f.cur = -2
                               THEN Drift(a = nb /\ b = nb + 1, "null-move-window", [ply |-> p, a |-> a, b |-> b, pb |-> f.b])
                               ELSE IF f.q
                               THEN Drift(a = nb /\ b = na, "quiescence-window", [ply |-> p, a |-> a, b |-> b])
                               ELSE /\ Drift((a = nb /\ b = na) \/ (a = na - 1 /\ b = na), "pvs-window",
                                             [ply |-> p, a |-> a, b |-> b, pa |-> f.curAlpha, pb |-> f.b])
                                    /\ Drift(Cardinality(f.tried) = 1 => (a = nb /\ b = na), "first-move-full-window", [ply |-> p])
                                    /\ Drift(f.nchild = 1 => (a = nb /\ b = na), "re-search-full-window", [ply |-> p])
                                    /\ Drift(f.nchild <= 1, "third-search-of-one-move", [ply |-> p])
                            /\ ~q => Drift(d <= f.deff - 1, "depth-does-not-decrease", [ply |-> p, d |-> d, parent |-> f.deff])
                            /\ st' = Append(s, NewFrame(p, q, f.childPos, a, b, d, IF f.cur = -2 THEN <<>> ELSE f.nodePv))
                   ELSE st' = st          \* cannot place the node: keep the stack (reported above)
                /\ UNCHANGED rootpv

EnterN ==
    /\ IsStep("N")
    /\ Enter(E.p, FALSE, E.v[1], E.v[2], E.v[3])
    /\ UNCHANGED <<path, mode, rootpos, rootlines>>
    /\ Bump("N")

\* quiescence: either the negamax frame of the same ply continues as quiescence (after L), or a child of a quiescence frame
EnterQ ==
    /\ IsStep("Q")
    /\ IF st # <<>> /\ Top.ply = E.p /\ Top.last = "L"
       THEN /\ Viol(mode # "aborted", "C09", "node-entered-after-the-stop-was-observed", [ply |-> E.p, fen |-> FenOf(rootpos)])
            /\ Drift(E.v[1] = Top.a /\ E.v[2] = Top.b, "quiescence-entered-with-another-window", [ply |-> E.p])
            /\ st' = [st EXCEPT ![Len(st)].q = TRUE, ![Len(st)].last = "Q", ![Len(st)].a = E.v[1], ![Len(st)].b = E.v[2]]
            /\ UNCHANGED rootpv
       ELSE Enter(E.p, TRUE, E.v[1], E.v[2], 0)
    /\ UNCHANGED <<path, mode, rootpos, rootlines>>
    /\ Bump("Q")

(***************************************************************************)
(* steps inside the top frame                                              *)
(***************************************************************************)
InTop(k) == /\ IsStep(k)
            /\ Viol(mode # "aborted", "C09", "step-after-the-stop-was-observed", [step |-> k, ply |-> E.p, fen |-> FenOf(rootpos)])
            /\ Drift(st # <<>> /\ Top.ply = E.p, "step-outside-the-top-frame", [step |-> k, ply |-> E.p])

Set(f) == st' = [st EXCEPT ![Len(st)] = f]
Keep == UNCHANGED <<path, mode, rootpos, rootpv, rootlines>>
Ok == st # <<>> /\ Top.ply = E.p

\* the first step of a node after its entry, other than D: the node has not been recognised as drawn, so the history
\* must not make it a draw (repetition only on null-free histories, where the engine's window rule is exact)
Drawn(p) == \/ NullFree(path) /\ RepeatedPV(p, path)
            \/ p.hmc >= 100 /\ Legal(p) # {}
            \/ InsufficientPV(p.board) = "T"
NotDrawn(f) ==
    (f.last \in {"N", "Q"} /\ f.ply > 0) =>
        Viol(~Drawn(f.pos), "C11", "draw-not-recognised-in-the-search",
             [fen |-> FenOf(f.pos), root |-> FenOf(rootpos), ply |-> f.ply, quiescence |-> f.q])

\* The position the search stands on when it observes the stop is printed: the driver uses it to build the adversarial
\* follow-up "tables that hold an entry for exactly that position, then the same stopped search again" (nothing that
\* belongs to the abandoned line may leak into the answer).
CastleMask(cs) == (IF 0 \in cs THEN 1 ELSE 0) + (IF 1 \in cs THEN 2 ELSE 0) + (IF 2 \in cs THEN 4 ELSE 0) + (IF 3 \in cs THEN 8 ELSE 0)
Abort ==
    /\ IsStep("X")
    /\ IF st # <<>>
       THEN LET p == Top.pos
            IN  PrintT("@@GEN " \o ToJson([kind |-> "dirty", b |-> p.board, stm |-> p.stm, cr |-> CastleMask(p.castle), ep |-> p.ep,
                                           hmc |-> p.hmc, pl |-> p.plies, fen |-> FenOf(p), root |-> FenOf(rootpos),
                                           ply |-> Top.ply, terminal |-> (Legal(p) = {}), at |-> l]))
       ELSE TRUE
    /\ mode' = "aborted"
    /\ UNCHANGED <<st, path, rootpos, rootpv, rootlines>>
    /\ Bump("X")

DrawStep ==
    /\ InTop("D")
    /\ IF Ok
       THEN LET f == Top
                rep == IF NullFree(path) THEN RepeatedPV(f.pos, path) ELSE EarlierIdentical(f.pos, path)
            IN  /\ Viol(rep \/ f.pos.hmc >= 100 \/ InsufficientPV(f.pos.board) # "F", "C11",
                        "draw-recognised-in-the-search-without-a-draw", [fen |-> FenOf(f.pos), root |-> FenOf(rootpos), ply |-> f.ply])
                /\ Drift(f.ply > 0, "draw-at-the-root", [fen |-> FenOf(f.pos)])
                /\ Drift(f.last \in {"N", "Q"}, "draw-after-other-steps", [last |-> f.last])
                /\ Set([f EXCEPT !.last = "D"])
       ELSE UNCHANGED st
    /\ Keep /\ Bump("D")

LeafStep ==
    /\ InTop("L")
    /\ IF Ok THEN /\ NotDrawn(Top)
                  /\ Drift(Top.last = "N" /\ ~Top.q, "leaf-after-other-steps", [last |-> Top.last])
                  /\ Set([Top EXCEPT !.last = "L"])
       ELSE UNCHANGED st
    /\ Keep /\ Bump("L")

TableStep ==
    /\ InTop("T")
    /\ IF Ok THEN /\ NotDrawn(Top)
                  /\ Drift(Top.last = "N" /\ Top.ply > 0 /\ ~IsPv(Top), "table-return-in-a-pv-or-root-node", [ply |-> Top.ply])
                  \* a stored mate score counts from the node it was stored at: read back, it counts from the root again
                  /\ Drift(E.v[3] = (IF E.v[2] > MateV - 100 THEN E.v[2] - Top.ply
                                     ELSE IF E.v[2] < 100 - MateV THEN E.v[2] + Top.ply ELSE E.v[2]),
                           "table-score-mate-distance", [ply |-> Top.ply, stored |-> E.v[2], used |-> E.v[3]])
                  /\ Set([Top EXCEPT !.last = "T", !.lv = <<E.v[1], E.v[2], E.v[3]>>])
       ELSE UNCHANGED st
    /\ Keep /\ Bump("T")

StaticStep ==
    /\ InTop("S")
    /\ IF Ok
       THEN LET f == Top
            IN  /\ Viol(E.v[1] > -31900 /\ E.v[1] < 31900, "C16", "static-evaluation-in-the-mate-range",
                        [fen |-> FenOf(f.pos), eval |-> E.v[1], root |-> FenOf(rootpos)])
                /\ IF f.q
                   THEN /\ NotDrawn(f)
                        /\ Set([f EXCEPT !.last = "S", !.lv = <<E.v[1], 0, 0>>, !.se = E.v[1], !.best = E.v[1],
                                         !.a = IF E.v[1] < f.b /\ E.v[1] > f.a THEN E.v[1] ELSE f.a])
                   ELSE LET chk == InCheck(f.pos)
                        IN  /\ NotDrawn(f)
                            /\ Viol((E.v[3] = 1) = chk, "C01", "check-verdict-at-a-search-node",
                                    [fen |-> FenOf(f.pos), engine |-> E.v[3] = 1, rule_book |-> chk, root |-> FenOf(rootpos)])
                            /\ Drift(E.v[2] = f.d + (IF chk /\ f.d < 255 THEN 1 ELSE 0), "check-extension", [d |-> f.d, deff |-> E.v[2]])
                            /\ Drift(E.v[2] > 0, "search-continues-at-depth-0", [ply |-> f.ply])
                            /\ Set([f EXCEPT !.last = "S", !.se = E.v[1], !.deff = E.v[2], !.chk = (E.v[3] = 1)])
       ELSE UNCHANGED st
    /\ Keep /\ Bump("S")

FutilityStep ==
    /\ InTop("F")
    /\ IF Ok THEN LET f == Top
                  IN  /\ Drift(f.last = "S" /\ f.ply > 0 /\ ~IsPv(f) /\ ~f.chk /\ f.deff <= 4 /\ f.se - 150 * f.deff > f.b /\ E.v[1] = f.b,
                               "reverse-futility-condition", [ply |-> f.ply, se |-> f.se, deff |-> f.deff, b |-> f.b])
                      /\ Set([f EXCEPT !.last = "F", !.lv = <<E.v[1], 0, 0>>])
       ELSE UNCHANGED st
    /\ Keep /\ Bump("F")

NullMade ==
    /\ InTop("M0")
    /\ IF Ok THEN LET f == Top
                  IN  /\ Drift(f.last = "S" /\ f.ply > 0 /\ ~IsPv(f) /\ ~f.chk /\ f.deff >= 3 /\ f.se >= f.b
                               /\ (path = <<>> \/ path[Len(path)].mv.kind # -1),
                               "null-move-condition", [ply |-> f.ply, se |-> f.se, deff |-> f.deff, b |-> f.b, chk |-> f.chk])
                      /\ Set([f EXCEPT !.last = "M0", !.cur = -2, !.childPos = NullPos(f.pos), !.nchild = 0])
                      /\ path' = Append(path, [pos |-> f.pos, mv |-> NullMv])
       ELSE UNCHANGED <<st, path>>
    /\ UNCHANGED <<mode, rootpos, rootpv, rootlines>> /\ Bump("M0")

\* the result of a move or of the null move: the child frame (or frames) above have returned
ResultOf(k) ==
    /\ IsStep(k)
    /\ Viol(mode # "aborted", "C09", "step-after-the-stop-was-observed", [step |-> k, ply |-> E.p, fen |-> FenOf(rootpos)])
    /\ IF Len(st) >= 2 /\ Top.ply = E.p + 1 /\ st[Len(st) - 1].ply = E.p
       THEN LET c == Top
                s == Closed(st)
                f == s[Len(s)]
                v == E.v[1]
            IN  /\ CloseClauses(c)
                /\ Viol(v >= -MateV /\ v <= MateV, "C04", "score-outside-the-mate-range",
                        [ply |-> E.p, score |-> v, root |-> FenOf(rootpos)])
                /\ ValueOf(c) # None => Drift(v = Neg(ValueOf(c)), "result-is-not-minus-the-value-returned",
                                              [ply |-> E.p, result |-> v, returned |-> ValueOf(c), how |-> c.last])
                /\ Drift((k = "R0") = (f.cur = -2), "result-of-another-kind-of-move", [ply |-> E.p])
                /\ path' = SubSeq(path, 1, Len(path) - 1)
                /\ IF k = "R0"
                   THEN st' = [s EXCEPT ![Len(s)].last = "R0", ![Len(s)].lv = <<v, 0, 0>>, ![Len(s)].cur = -1]
                   ELSE st' = [s EXCEPT ![Len(s)].last = "R", ![Len(s)].lv = <<v, 0, 0>>,
                                        ![Len(s)].best = MaxOf(f.best, v),
                                        ![Len(s)].cut = (v >= f.b),
                                        ![Len(s)].a = IF v < f.b /\ v > f.a THEN v ELSE f.a,
                                        ![Len(s)].raised = f.raised \/ (v < f.b /\ v > f.a),
                                        ![Len(s)].expectP = ~f.q /\ v < f.b /\ v > f.a]
       ELSE /\ Drift(FALSE, "result-without-a-returned-child", [step |-> k, ply |-> E.p])
            /\ UNCHANGED <<st, path>>
    /\ UNCHANGED <<mode, rootpos, rootpv, rootlines>>
    /\ Bump(k)

MoveMade ==
    /\ InTop("M")
    /\ IF Ok
       THEN LET f == Top
                mv == E.m[1]
                legal == IF f.legal = {-1} THEN {PackMove(m) : m \in Legal(f.pos)} ELSE f.legal
            IN  /\ Viol(mv \in legal, "C04", "search-made-an-illegal-move",
                        [fen |-> FenOf(f.pos), move |-> UciOf(UnpackMove(mv)), packed |-> mv, root |-> FenOf(rootpos), ply |-> f.ply])
                /\ Viol(mv \notin f.tried, "C10", "move-searched-twice-at-one-node",
                        [fen |-> FenOf(f.pos), move |-> UciOf(UnpackMove(mv)), root |-> FenOf(rootpos), quiescence |-> f.q])
                /\ Drift(~f.cut, "move-after-a-cut-off", [ply |-> f.ply])
                /\ Drift(~f.expectP, "line-not-updated-after-alpha-was-raised", [ply |-> f.ply])
                /\ Drift(E.v[2] = f.a, "alpha-bookkeeping", [ply |-> f.ply, logged |-> E.v[2], spec |-> f.a])
                /\ ~f.q => Drift(E.v[1] = Cardinality(f.tried) + 1, "move-count", [ply |-> f.ply])
                /\ Set([f EXCEPT !.last = "M", !.legal = legal, !.tried = @ \cup {mv}, !.cur = mv, !.curAlpha = E.v[2],
                                 !.childPos = IF mv \in legal THEN Make(f.pos, UnpackMove(mv)) ELSE f.pos,
                                 !.nchild = 0, !.nodePv = <<>>, !.expectP = FALSE])
                /\ path' = Append(path, [pos |-> f.pos, mv |-> UnpackMove(mv)])
       ELSE UNCHANGED <<st, path>>
    /\ UNCHANGED <<mode, rootpos, rootpv, rootlines>> /\ Bump("M")

LineStep ==
    /\ InTop("P")
    /\ IF Ok
       THEN LET f == Top
            IN  /\ Viol(E.m = <<f.cur>> \o f.nodePv, "C08", "line-is-not-the-move-followed-by-the-line-of-its-child",
                        [fen |-> FenOf(f.pos), root |-> FenOf(rootpos), ply |-> f.ply, line |-> E.m, move |-> f.cur, child_line |-> f.nodePv])
                /\ Drift(f.expectP /\ f.last = "R", "line-updated-without-alpha-raised", [ply |-> f.ply])
                /\ Set([f EXCEPT !.pv = E.m, !.expectP = FALSE])
       ELSE UNCHANGED st
    /\ Keep /\ Bump("P")

NoMoveStep ==
    /\ InTop("Z")
    /\ IF Ok
       THEN LET f == Top
                none == Legal(f.pos) = {}
                chk == InCheck(f.pos)
            IN  /\ Viol(none, "C08", IF E.v[1] = 1 THEN "mated-claimed-with-legal-moves" ELSE "stalemate-claimed-with-legal-moves",
                        [fen |-> FenOf(f.pos), root |-> FenOf(rootpos), ply |-> f.ply])
                /\ Viol((E.v[1] = 1) = chk, "C01", "check-verdict-at-a-search-node",
                        [fen |-> FenOf(f.pos), engine |-> E.v[1] = 1, rule_book |-> chk, root |-> FenOf(rootpos)])
                /\ Drift(f.tried = {}, "no-move-claimed-after-moves", [ply |-> f.ply])
                /\ Set([f EXCEPT !.last = "Z", !.lv = <<E.v[1], 0, 0>>])
       ELSE UNCHANGED st
    /\ Keep /\ Bump("Z")

ReturnStep ==
    /\ InTop("O")
    /\ IF Ok
       THEN LET f == Top
                bound == IF f.cut THEN 2 ELSE IF f.raised THEN 0 ELSE 1
            IN  /\ Drift(E.v[1] = f.best, "returned-value-is-not-the-best-result", [ply |-> f.ply, returned |-> E.v[1], best |-> f.best])
                /\ Drift(~f.expectP, "line-not-updated-after-alpha-was-raised", [ply |-> f.ply])
                /\ ~f.q => /\ Drift(f.tried # {}, "ordinary-return-without-a-move", [ply |-> f.ply])
                           /\ Drift(E.v[2] = bound, "bound-kind", [ply |-> f.ply, logged |-> E.v[2], spec |-> bound])
                           /\ Drift(Len(E.m) = 1 /\ E.m[1] \in f.tried, "best-move-field", [ply |-> f.ply])
                \* quiescence that ran through its whole list: every legal capture and queen promotion was searched
                \* (judged where the legal set has been computed, i.e. in nodes that searched at least one move).
                \* CodeView: which moves a search chooses to skip is its own business (C10 speaks about the picker's
                \* stream, checked on the picker itself); as coded, nothing is skipped here
                /\ (f.q /\ ~f.cut /\ f.legal # {-1}) =>
                      LET loud == {m \in f.legal : m \div 32768 \in {1, 2} \/ (m \div 4096) % 8 = 5}
                      IN  Drift(loud \subseteq f.tried, "capture-or-queen-promotion-not-searched-in-quiescence",
                                [fen |-> FenOf(f.pos), root |-> FenOf(rootpos), missing |-> loud \ f.tried])
                \* a full node that ran through its list without a cut-off: every legal capture was searched, and every legal
                \* move where nothing may be skipped (skipping quiet moves is confined to non-PV nodes at depth 1 out of check)
                /\ (~f.q /\ ~f.cut /\ f.legal # {-1}) =>
                      LET caps == {m \in f.legal : m \div 32768 \in {1, 2}}
                          all  == IF IsPv(f) \/ f.chk \/ f.deff > 1 THEN f.legal ELSE caps
                      IN  Drift(all \subseteq f.tried, "legal-move-not-searched-where-the-code-skips-nothing",
                                [fen |-> FenOf(f.pos), root |-> FenOf(rootpos), missing |-> all \ f.tried, depth |-> f.deff])
                /\ Set([f EXCEPT !.last = "O", !.lv = <<E.v[1], E.v[2], 0>>])
                /\ rootlines' = IF f.ply = 0 THEN rootlines \cup {f.pv} ELSE rootlines
       ELSE UNCHANGED <<st, rootlines>>
    /\ UNCHANGED <<path, mode, rootpos, rootpv>> /\ Bump("O")

PlyLimitStep ==
    /\ InTop("QM")
    /\ IF Ok THEN Set([Top EXCEPT !.last = "QM", !.lv = <<E.v[1], 0, 0>>]) ELSE UNCHANGED st
    /\ Keep /\ Bump("QM")

Finish ==
    /\ l = N + 1
    /\ Stat("nodes", [events |-> N, counts |-> cnt, open |-> Len(st), mode |-> mode])
    /\ l' = N + 2
    /\ UNCHANGED <<st, path, mode, rootpos, rootpv, rootlines, cnt>>

TraceNext ==
    \/ Root \/ End \/ EnterN \/ EnterQ \/ Abort \/ DrawStep \/ LeafStep \/ TableStep \/ StaticStep \/ FutilityStep
    \/ NullMade \/ ResultOf("R0") \/ ResultOf("R") \/ MoveMade \/ LineStep \/ NoMoveStep \/ ReturnStep \/ PlyLimitStep
    \/ Finish

TraceInit ==
    /\ l = 1 /\ st = <<>> /\ path = <<>> /\ mode = "idle" /\ rootpv = <<>> /\ rootlines = {}
    /\ rootpos = StartPos
    /\ cnt = [k \in Kinds \cup {"root", "end"} |-> 0]

TraceSpec == TraceInit /\ [][TraceNext]_vars

TraceAccepted == TLCGet("stats").diameter = N + 2
=============================================================================
