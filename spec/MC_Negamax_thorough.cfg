CONSTANTS ClearInParent = TRUE MaxDepth = 3 MaxStop = 45 defaultInitValue = 0
CONSTANT Values <- MCValues
CONSTANT InnerValues <- MCInner0
SPECIFICATION Spec
INVARIANTS PVIsPath IterationSound NoWorkAfterStop StopSafe
CHECK_DEADLOCK FALSE
