CONSTANTS ClearInParent = TRUE MaxDepth = 3 MaxStop = 40 defaultInitValue = 0
CONSTANT Values <- MCValues
CONSTANT InnerValues <- MCInner3
SPECIFICATION Spec
INVARIANTS PVIsPath IterationSound NoWorkAfterStop StopSafe
CHECK_DEADLOCK FALSE
