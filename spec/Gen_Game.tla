------------------------------- MODULE Gen_Game -------------------------------
(***************************************************************************)
(* Binding direction B for C02 / C17 (and a second source for C03, C15):   *)
(* TLC -simulate walks ChessGame, choosing the moves itself from the rule  *)
(* book, and prints after every step the operation and the state the       *)
(* specification reaches.  The harness replays the operations through      *)
(* make_move / make_null_move / undo_* (moves are constructed from the     *)
(* printed encoding, not looked up in the engine's own move list) and      *)
(* compares the projection after every step.                               *)
(* MODE "mixed": moves, null moves and take-backs.  MODE "game": moves     *)
(* only, each state also carries the long-algebraic text of the move and   *)
(* of every legal reply (C17).                                             *)
(***************************************************************************)
EXTENDS ChessGame, Json, IOUtils, Reporting

CONSTANTS MODE, MaxDepth, Steps

\* hist: one record per state of the behaviour so far; done: the behaviour is complete.
VARIABLES hist, done
ggvars == <<pos, stack, key, acc, views, hist, done>>

Roots == ndJsonDeserialize(IOEnv.ROOTS)
CastleSet(n) == {r \in 0..3 : (n \div (2 ^ r)) % 2 = 1}
RootPos(e) == [board |-> [i \in 1..64 |-> e.b[i]], stm |-> e.stm, castle |-> CastleSet(e.cr),
               ep |-> e.ep, hmc |-> e.hmc, plies |-> e.pl]
Mask(cs) == (IF 0 \in cs THEN 1 ELSE 0) + (IF 1 \in cs THEN 2 ELSE 0)
            + (IF 2 \in cs THEN 4 ELSE 0) + (IF 3 \in cs THEN 8 ELSE 0)

\* What the specification expects to be observable in state (p, st) reached by op/mv.  alts: for a promotion, the
\* other promotion pieces of the same pawn move with the states they lead to (a GUI taking the move back and choosing
\* another piece sends the same squares with another letter).
ObsA(op, mv, uci, p, st, alts) ==
    [op |-> op, mv |-> mv, uci |-> uci, alts |-> alts,
     b |-> [i \in 1..64 |-> p.board[i]], stm |-> p.stm, cr |-> Mask(p.castle),
     ep |-> p.ep, hmc |-> p.hmc, pl |-> p.plies, fen |-> FenOf(p), hl |-> Len(st),
     replies |-> IF MODE = "game" THEN {UciOf(m) : m \in Legal(p)} ELSE {}]
Obs(op, mv, uci, p, st) == ObsA(op, mv, uci, p, st, {})
Alts(p, m) ==
    IF MODE = "game" /\ m.promo # 0
    THEN {[uci |-> UciOf(x), fen |-> FenOf(Make(p, x)), replies |-> {UciOf(y) : y \in Legal(Make(p, x))}] :
             x \in {y \in Legal(p) : y.from = m.from /\ y.to = m.to /\ y.promo # m.promo}}
    ELSE {}

Init == \E i \in 1..Len(Roots) :
           LET p == RootPos(Roots[i])
           IN  /\ pos = p /\ stack = <<>> /\ key = FullKey(p) /\ acc = FullAcc(p)
               /\ views = FullViews(p.board)
               /\ hist = <<Obs("load", -1, "", p, <<>>)>>
               /\ done = FALSE

Special(ms) == {m \in ms : m.kind # 0 \/ m.promo # 0}
Log(op, mv, uci) == hist' = Append(hist, Obs(op, mv, uci, pos', stack')) /\ UNCHANGED done

DoMove(ms) == \E m \in {RandomElement(ms)} :
                 /\ Move(m)
                 /\ hist' = Append(hist, ObsA("make", PackMove(m), UciOf(m), pos', stack', Alts(pos, m)))
                 /\ UNCHANGED done

Step ==
    LET kk == {RandomElement(1..20)}
        lm == Legal(pos)
        sp == Special(lm)
        deep == Len(stack) >= MaxDepth
        onEp == {m \in lm : pos.ep # -1 /\ m.to = pos.ep}     \* any piece moving onto the en-passant square
    IN  \E k \in kk :    \* bound once: a LET body would be re-evaluated, drawing again
        IF MODE = "game"
        THEN /\ ~deep
             /\ IF k <= 10 /\ onEp # {} THEN DoMove(onEp)
                ELSE IF k <= 7 /\ sp # {} THEN DoMove(sp) ELSE DoMove(lm)
        ELSE IF (k <= 5 \/ deep \/ lm = {}) /\ stack # <<>>
             THEN \/ Undo /\ Log("undo", -1, "")
                  \/ UndoNull /\ Log("undonull", -1, "")
        ELSE IF k = 6 /\ ~InCheck(pos) /\ ~deep
             THEN Null /\ Log("null", -1, "")
        ELSE IF k <= 12 /\ sp # {} /\ ~deep THEN DoMove(sp)
        ELSE ~deep /\ DoMove(lm)

\* MODE "all": the complete tree of moves and null moves to nesting depth MaxDepth (used with the model
\* checker, not the simulator); every leaf prints its path followed by the take-backs to the root.
StepAll ==
    /\ Len(stack) < MaxDepth
    /\ \/ \E m \in Legal(pos) : Move(m) /\ Log("make", PackMove(m), UciOf(m))
       \/ Null /\ Log("null", -1, "")

RECURSIVE Unwind(_, _)
Unwind(st, i) ==
    IF i = 0 THEN <<>>
    ELSE <<Obs(IF st[i].mv.kind = -1 THEN "undonull" ELSE "undo", -1, "", st[i].pos, SubSeq(st, 1, i - 1))>>
         \o Unwind(st, i - 1)

Finish == /\ ~done /\ done' = TRUE /\ UNCHANGED <<pos, stack, key, acc, views, hist>>

\* A behaviour is finished after Steps steps or when no step is possible (mate, stalemate).
Next == /\ ~done
        /\ IF MODE = "all" THEN StepAll
           ELSE IF Len(hist) > Steps \/ (Legal(pos) = {} /\ (MODE = "game" \/ stack = <<>>))
           THEN Finish ELSE Step

Spec == Init /\ [][Next]_ggvars

\* One line per finished behaviour.
Emit ==
    IF MODE = "all"
    THEN (Len(stack) = MaxDepth \/ (Legal(pos) = {} /\ InCheck(pos))) =>
             PrintT("@@GEN " \o ToJson([steps |-> hist \o Unwind(stack, Len(stack))]))
    ELSE done => PrintT("@@GEN " \o ToJson([steps |-> hist]))
=============================================================================
