------------------------------ MODULE Trace_Search ------------------------------
(***************************************************************************)
(* Observed search behaviour judged by the rule book (C04, C08; reused by  *)
(* C09, C12, C13, C17).  One event per search:                             *)
(*   position fields, lim (requested depth limit, 0 = none),               *)
(*   out  "move" | "panic" | "timeout", best (long algebraic text),        *)
(*   infos  sequence of [d, sk ("cp" | "mate"), sv, pv (texts)]            *)
(* Clauses:                                                                *)
(*   C04  the search returned, without panic, a move that is legal         *)
(*   C08  every reported line is a non-empty sequence of legal moves;      *)
(*        depths start at 1, increase one by one, stay within the limit;   *)
(*        mate in n > 0: the line has 2n-1 plies and ends with the         *)
(*        opponent checkmated; n < 0: 2|n| plies and the root side mated   *)
(*   C09  (fields untouched, stopk, polls, nodes_at_stop, max_nodes) the   *)
(*        caller's game is unchanged; after the stop was observed nothing  *)
(*        more is examined                                                 *)
(***************************************************************************)
EXTENDS Chess, Json, IOUtils, Reporting

Rec == ndJsonDeserialize(IOEnv.TRACE)
N == Len(Rec)
CastleSet(n) == {r \in 0..3 : (n \div (2 ^ r)) % 2 = 1}
EvPos(e) == [board |-> [i \in 1..64 |-> e.b[i]], stm |-> e.stm, castle |-> CastleSet(e.cr),
             ep |-> e.ep, hmc |-> e.hmc, plies |-> e.pl]

\* the legal move written as `text', or the null record if there is none
NoMove == [from |-> -1, to |-> -1, promo |-> 0, kind |-> -1]
MoveOfText(pos, text) ==
    LET ms == {m \in Legal(pos) : UciOf(m) = text}
    IN  IF ms = {} THEN NoMove ELSE CHOOSE m \in ms : TRUE

\* <<ok, final position, plies played>>
RECURSIVE PlayTexts(_, _, _)
PlayTexts(pos, pv, i) ==
    IF i > Len(pv) THEN <<TRUE, pos, i - 1>>
    ELSE LET m == MoveOfText(pos, pv[i])
         IN  IF m.kind = -1 THEN <<FALSE, pos, i - 1>>
             ELSE PlayTexts(Make(pos, m), pv, i + 1)

InfoClauses(e, p, i, j) ==
    LET x    == e.infos[j]
        line == PlayTexts(p, x.pv, 1)
        what == [fen |-> e.fen, depth |-> x.d, pv |-> x.pv, score |-> <<x.sk, x.sv>>, tag |-> e.tag]
    IN  /\ ViolAt(Len(x.pv) >= 1, "C08", i, "empty-pv", what)
        /\ ViolAt(line[1], "C08", i, "illegal-move-in-pv", [what EXCEPT !.depth = <<x.d, "ply", line[3] + 1>>])
        /\ ViolAt(x.d = (IF j = 1 THEN 1 ELSE e.infos[j - 1].d + 1), "C08", i, "depth-sequence", what)
        /\ ViolAt(e.lim = 0 \/ x.d <= e.lim, "C08", i, "depth-limit", what)
        /\ IF x.sk = "mate" /\ line[1]
           THEN IF x.sv > 0
                THEN /\ ViolAt(Len(x.pv) = 2 * x.sv - 1, "C08", i, "mate-length", what)
                     /\ ViolAt(IsMate(line[2]) /\ line[2].stm # p.stm, "C08", i, "mate-not-delivered", what)
                ELSE /\ ViolAt(Len(x.pv) = 2 * (0 - x.sv), "C08", i, "mated-length", what)
                     /\ ViolAt(IsMate(line[2]) /\ line[2].stm = p.stm, "C08", i, "mated-not-delivered", what)
           ELSE TRUE

Clauses(i) ==
    LET e == Rec[i]
        p == EvPos(e)
    IN  /\ ViolAt(LegalPosition(p) /\ Legal(p) # {}, "ROOT", i, "terminal-or-illegal-root", [fen |-> e.fen])
        /\ ViolAt(e.out = "move", "C04", i, "no-move-returned", [fen |-> e.fen, out |-> e.out, tag |-> e.tag, msg |-> e.msg])
        /\ IF e.out = "move"
           THEN ViolAt(MoveOfText(p, e.best).kind # -1, "C04", i, "illegal-bestmove",
                       [fen |-> e.fen, best |-> e.best, tag |-> e.tag])
           ELSE TRUE
        /\ \A j \in 1..Len(e.infos) : InfoClauses(e, p, i, j)
        \* C09: the caller's position is left untouched; once the stop was observed (at flag load number
        \* stopk) no further position is examined: at most one more flag load, no larger node count.
        /\ ViolAt(e.untouched, "C09", i, "caller-position-modified", [fen |-> e.fen, tag |-> e.tag, stopk |-> e.stopk])
        /\ IF e.stopk > 0 /\ e.polls >= e.stopk
           THEN /\ ViolAt(e.polls <= e.stopk + 1, "C09", i, "flag-loaded-after-stop",
                          [fen |-> e.fen, tag |-> e.tag, stopk |-> e.stopk, polls |-> e.polls])
                /\ DriftAt(e.polls = e.stopk, "C09", i, "one-extra-poll", [fen |-> e.fen, stopk |-> e.stopk])
                /\ ViolAt(e.max_nodes <= e.nodes_at_stop, "C09", i, "positions-examined-after-stop",
                          [fen |-> e.fen, tag |-> e.tag, stopk |-> e.stopk, at_stop |-> e.nodes_at_stop, max |-> e.max_nodes])
           ELSE TRUE

ASSUME \A i \in 1..N : Clauses(i)
ASSUME Stat("search", [searches |-> N,
                       infos |-> LET f[i \in 0..N] == IF i = 0 THEN 0 ELSE f[i - 1] + Len(Rec[i].infos) IN f[N],
                       mates |-> Cardinality({i \in 1..N : \E j \in 1..Len(Rec[i].infos) : Rec[i].infos[j].sk = "mate"})])
VARIABLE x
Init == x = 0
Next == x' = x
=============================================================================
