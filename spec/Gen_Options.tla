------------------------------ MODULE Gen_Options ------------------------------
(***************************************************************************)
(* C13 direction B: from the option ranges the binary itself advertises    *)
(* (IOEnv.OPTS: sequence of [name, min, max, def]) TLC enumerates option   *)
(* scripts: every spin option at {min, min+1, default, max-1, max} and six *)
(* interior values, set before the first search and between two searches,  *)
(* and (LEVEL 2) pairs of options / two values of one option in sequence.  *)
(* A script is a sequence of steps <<"set", name, value>> | <<"search">>.  *)
(***************************************************************************)
EXTENDS Naturals, Sequences, FiniteSets, TLC, Json, IOUtils

CONSTANT LEVEL

Opts == ndJsonDeserialize(IOEnv.OPTS)
N == Len(Opts)

Values(o) ==
    LET span == o.max - o.min
    IN  {v \in {o.min, o.min + 1, o.def, o.max - 1, o.max} \cup {o.min + (span * i) \div 7 : i \in 1..6} :
            v >= o.min /\ v <= o.max}
Boundary(o) == {o.min, o.def, o.max}

Set(o, v) == <<"set", o.name, v>>
Out(kind, script) == PrintT("@@GEN " \o ToJson([kind |-> kind, steps |-> script]))

Run ==
    /\ \A i \in 1..N : \A v \in Values(Opts[i]) :
          /\ Out("before", <<Set(Opts[i], v), <<"search">>, <<"search">> >>)
          /\ Out("between", << <<"search">>, Set(Opts[i], v), <<"search">> >>)
    /\ \A i \in 1..N : \A j \in 1..N :
          \A v \in Boundary(Opts[i]) : \A u \in (IF LEVEL >= 2 THEN Values(Opts[j]) ELSE Boundary(Opts[j])) :
             (i # j \/ u # v) =>
                Out("pair", <<Set(Opts[i], v), <<"search">>, Set(Opts[j], u), <<"search">>, Set(Opts[i], v), <<"search">> >>)

ASSUME Run
VARIABLE x
Init == x = 0
Next == x' = x
=============================================================================
