CONSTANT Clamped = TRUE
INIT Init
NEXT Next
