INIT Init
NEXT Next
