\* The configuration in which the CodeView satisfies the PropertyView: every size has slots,
\* fewer than GenMod searches between two emptyings.  tools/p_c19.py derives the other three
\* (zero-slot size present; MaxSearch beyond GenMod with Checked TRUE / FALSE).
CONSTANTS
  Keys <- MCKeys
  N <- MCN
  SlotOf <- MCSlotOf
  NKeys = 5
  GenMod = 4
  Checked = TRUE
  Sizes = {1, 2}
  Depths = {0, 1, 2}
  Tags = {0}
  MaxLen = 1000
  MaxSearch = 3
SPECIFICATION Spec
VIEW View
CONSTRAINT Bound
INVARIANT NoCrash
INVARIANT Inv
PROPERTY PVHolds
CHECK_DEADLOCK FALSE
