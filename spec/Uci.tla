--------------------------------- MODULE Uci ---------------------------------
(***************************************************************************)
(* The UCI front end as a concurrent system: the input thread executing    *)
(* the GUI's commands one after the other, and the search threads it       *)
(* spawns.  Shared objects: the stop handle `control' (which search's flag *)
(* a `stop' raises), the hand-written latch `is_stopped', and the mutex    *)
(* around the persistent search state.                                     *)
(*                                                                         *)
(* One action per critical section of engine/uci/mod.rs; each action       *)
(* records in `lbl' the label the instrumentation hook (H3) logs for it,   *)
(* so a path of this model is, label for label, a schedule that can be     *)
(* forced on the real binary, and an event log of the real binary is a     *)
(* sequence of labels that must be a path of this model.                   *)
(*                                                                         *)
(* The GUI obeys the protocol of property C05: go / ucinewgame / position  *)
(* / setoption are sent only while no bestmove is outstanding; stop,       *)
(* isready and quit at any time.                                           *)
(*                                                                         *)
(* ResetOnGo = FALSE is the code as found (latch cleared by ucinewgame),   *)
(* ResetOnGo = TRUE the repaired code (latch cleared when a search is      *)
(* started).                                                               *)
(***************************************************************************)
EXTENDS Naturals, Sequences, FiniteSets, TLC

CONSTANTS ResetOnGo,      \* BOOLEAN
          MaxCmds,        \* bound on the number of commands (0 = unbounded)
          HashMinZero,    \* BOOLEAN: the GUI may set Hash to 0 (advertised minimum of the code as found)
          InfiniteMayEnd  \* BOOLEAN: an `infinite' search may return by itself (depth range exhausted); FALSE for the
                          \* graph whose paths are forced on the binary with ordinary positions

VARIABLES mpc,          \* input thread: "idle" | "stopwait" | "nglock" | "exited"
          control,      \* 0 = no handle, else the slot whose flag `stop' raises
          latch,        \* BOOLEAN
          mutex,        \* 0 = free, else the slot of the search thread holding it
          th,           \* slot -> [st, flag, finite]
          nextSlot,     \* slot the next search will use
          outstanding,  \* number of go commands not yet answered by bestmove (0..1 under the protocol)
          hashZero,     \* the table currently has zero entries
          crashed,      \* a search divided by the zero table size
          ncmd,         \* commands executed so far (only when MaxCmds > 0)
          lbl           \* hook label of the step that led here

vars == <<mpc, control, latch, mutex, th, nextSlot, outstanding, hashZero, crashed, ncmd, lbl>>

\* Three thread records: the latch step of a search that has already printed its move may lag behind later
\* searches (nothing orders it any more once the state is released before the move is announced); the model
\* lets it lag by at most two later searches (a `go' needs the third-last search to have finished entirely).
Slots == 1..3
Free == [st |-> "free", flag |-> FALSE, finite |-> TRUE]

Init ==
    /\ mpc = "idle" /\ control = 0 /\ latch = FALSE /\ mutex = 0
    /\ th = [s \in Slots |-> Free]
    /\ nextSlot = 1 /\ outstanding = 0 /\ hashZero = FALSE /\ crashed = FALSE
    /\ ncmd = 0 /\ lbl = <<"init">>

MayCommand == mpc = "idle" /\ (MaxCmds = 0 \/ ncmd < MaxCmds)
Count == ncmd' = IF MaxCmds = 0 THEN 0 ELSE ncmd + 1
M(w) == lbl' = <<"M", w>>
S(s, w) == lbl' = <<"S", s, w>>

(***************************************************************************)
(* Input thread                                                            *)
(***************************************************************************)
\* go: new time strategy and stop handle, thread spawned.  The thread's record must be free (see Slots).
Go(fin) ==
    /\ MayCommand /\ outstanding = 0
    /\ th[nextSlot].st = "free"
    /\ th' = [th EXCEPT ![nextSlot] = [st |-> "spawned", flag |-> FALSE, finite |-> fin]]
    /\ control' = nextSlot
    /\ nextSlot' = (nextSlot % 3) + 1
    /\ outstanding' = 1
    /\ latch' = IF ResetOnGo THEN FALSE ELSE latch
    /\ M(IF fin THEN "go" ELSE "goinf") /\ Count
    /\ UNCHANGED <<mpc, mutex, hashZero, crashed>>

\* stop, first half: raise the flag the handle points at (if any) ...
Stop ==
    /\ MayCommand
    /\ IF control # 0
       THEN /\ th' = [th EXCEPT ![control].flag = TRUE]
            /\ mpc' = "stopwait"
            /\ UNCHANGED control
       ELSE UNCHANGED <<th, mpc, control>>
    /\ M("stop") /\ Count
    /\ UNCHANGED <<latch, mutex, nextSlot, outstanding, hashZero, crashed>>

\* ... second half: the wait on the latch returns, the handle is dropped.
StopWake ==
    /\ mpc = "stopwait" /\ latch
    /\ mpc' = "idle" /\ control' = 0
    /\ M("stopwake")
    /\ UNCHANGED <<latch, mutex, th, nextSlot, outstanding, hashZero, crashed, ncmd>>

\* ucinewgame, first half: new game (and, in the code as found, the latch is cleared) ...
NewGame ==
    /\ MayCommand /\ outstanding = 0
    /\ latch' = IF ResetOnGo THEN latch ELSE FALSE
    /\ mpc' = "nglock"
    /\ M("ucinewgame") /\ Count
    /\ UNCHANGED <<control, mutex, th, nextSlot, outstanding, hashZero, crashed>>

\* ... second half: blocking lock, tables reset, unlock (one step: nobody can interleave).
NewGameLock ==
    /\ mpc = "nglock" /\ mutex = 0
    /\ mpc' = "idle"
    /\ M("newgamelock")
    /\ UNCHANGED <<control, latch, mutex, th, nextSlot, outstanding, hashZero, crashed, ncmd>>

\* setoption name Hash: try_lock; the table is resized only if the mutex is free.
SetHash(zero) ==
    /\ MayCommand /\ outstanding = 0
    /\ (zero => HashMinZero)
    /\ hashZero' = IF mutex = 0 THEN zero ELSE hashZero
    /\ M(IF zero THEN "sethash0" ELSE "sethash") /\ Count
    /\ UNCHANGED <<mpc, control, latch, mutex, th, nextSlot, outstanding, crashed>>

\* commands without synchronisation
Plain(w, needQuiet) ==
    /\ MayCommand /\ (needQuiet => outstanding = 0)
    /\ M(w) /\ Count
    /\ UNCHANGED <<mpc, control, latch, mutex, th, nextSlot, outstanding, hashZero, crashed>>

Quit ==
    /\ MayCommand
    /\ mpc' = "exited"
    /\ M("quit") /\ Count
    /\ UNCHANGED <<control, latch, mutex, th, nextSlot, outstanding, hashZero, crashed>>

(***************************************************************************)
(* Search thread in slot s                                                 *)
(***************************************************************************)
SLock(s) ==
    /\ mpc # "exited"
    /\ th[s].st = "spawned" /\ mutex = 0
    /\ mutex' = s
    /\ th' = [th EXCEPT ![s].st = "searching"]
    /\ crashed' = (crashed \/ hashZero)
    /\ S(s, "lock")
    /\ UNCHANGED <<mpc, control, latch, nextSlot, outstanding, hashZero, ncmd>>

\* The search returns (limit reached, or flag seen) and releases the search state ...
SExit(s) ==
    /\ mpc # "exited"
    /\ th[s].st = "searching" /\ (th[s].finite \/ th[s].flag)
    /\ mutex' = 0
    /\ th' = [th EXCEPT ![s].st = "released"]
    /\ S(s, "exit")
    /\ UNCHANGED <<mpc, control, latch, nextSlot, outstanding, hashZero, crashed, ncmd>>

\* An `infinite' search may also come back by itself: the iteration loop ends at depth 255, which dead-material
\* positions reach within milliseconds.  Same step as SExit, but nothing obliges it to happen (no fairness).
SExhaust(s) ==
    /\ mpc # "exited"
    /\ InfiniteMayEnd
    /\ th[s].st = "searching" /\ ~th[s].finite /\ ~th[s].flag
    /\ mutex' = 0
    /\ th' = [th EXCEPT ![s].st = "released"]
    /\ S(s, "exit")
    /\ UNCHANGED <<mpc, control, latch, nextSlot, outstanding, hashZero, crashed, ncmd>>

\* ... then bestmove is printed ...
SFinish(s) ==
    /\ mpc # "exited"
    /\ th[s].st = "released"
    /\ th' = [th EXCEPT ![s].st = "printed"]
    /\ outstanding' = outstanding - 1
    /\ S(s, "finish")
    /\ UNCHANGED <<mpc, control, latch, mutex, nextSlot, hashZero, crashed, ncmd>>

\* ... then the latch is set and the thread is gone.
SLatch(s) ==
    /\ mpc # "exited"
    /\ th[s].st = "printed"
    /\ latch' = TRUE
    /\ th' = [th EXCEPT ![s] = Free]
    /\ S(s, "latch")
    /\ UNCHANGED <<mpc, control, mutex, nextSlot, outstanding, hashZero, crashed, ncmd>>

Thread(s) == SLock(s) \/ SFinish(s) \/ SLatch(s) \/ SExit(s) \/ SExhaust(s)

Terminated == mpc = "exited" /\ UNCHANGED vars

Command ==
    \/ Go(TRUE) \/ Go(FALSE) \/ Stop \/ NewGame \/ SetHash(TRUE) \/ SetHash(FALSE)
    \/ Plain("isready", FALSE) \/ Plain("position", TRUE) \/ Plain("setoption", TRUE) \/ Quit

Next == Command \/ StopWake \/ NewGameLock \/ (\E s \in Slots : Thread(s)) \/ Terminated

Fairness ==
    /\ WF_vars(StopWake) /\ WF_vars(NewGameLock)
    /\ \A s \in Slots : WF_vars(SLock(s)) /\ WF_vars(SFinish(s)) /\ WF_vars(SLatch(s)) /\ WF_vars(SExit(s))

Spec == Init /\ [][Next]_vars /\ Fairness

(***************************************************************************)
(* Properties (C05, and the crash clause of C13)                           *)
(***************************************************************************)
TypeOK ==
    /\ mpc \in {"idle", "stopwait", "nglock", "exited"}
    /\ control \in 0..3 /\ mutex \in 0..3 /\ outstanding \in 0..1
    /\ \A s \in Slots : th[s].st \in {"free", "spawned", "searching", "released", "printed"}

\* The mutex is held exactly by a thread between lock and exit.
MutexOwner == \A s \in Slots : (mutex = s) <=> th[s].st = "searching"

\* exactly one bestmove per go: the counter never goes negative and a thread prints once
OneBestmovePerGo == outstanding = Cardinality({s \in Slots : th[s].st \in {"spawned", "searching", "released"}})

NoCrash == ~crashed

\* When the GUI may send the next go, at most the two previous searches still have their latch step pending.
GoSlotFree == (mpc = "idle" /\ outstanding = 0) => \A s \in Slots : th[s].st \in {"free", "printed"}

\* A blocked command always returns.
MainReturns == (mpc \in {"stopwait", "nglock"}) ~> (mpc \in {"idle", "exited"})

\* A go is answered once its limit can be reached or a stop has been sent for it.
Answerable == \E s \in Slots : (th[s].st \in {"spawned", "searching"} /\ (th[s].finite \/ th[s].flag))
                                \/ (th[s].st = "released")
GoAnswered == (Answerable /\ mpc # "exited") ~> (outstanding = 0 \/ mpc = "exited")

\* No state in which the input thread is blocked and no thread step can ever unblock it
\* (TLC's deadlock check finds the same states; this names them).
Stuck == /\ mpc \in {"stopwait", "nglock"}
         /\ ~ENABLED (StopWake \/ NewGameLock \/ (\E s \in Slots : Thread(s)))
NoHang == ~Stuck
=============================================================================
