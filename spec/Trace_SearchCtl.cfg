CONSTANTS Saturating = TRUE MaxDepth = 255 MaxSearches = 1000000 StartGen = 1
SPECIFICATION TraceSpec
POSTCONDITION Accepted
CHECK_DEADLOCK FALSE
