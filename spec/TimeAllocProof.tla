--------------------------- MODULE TimeAllocProof ---------------------------
(***************************************************************************)
(* TLAPS proof (unbounded) of the two inequalities of C14 for the abstract *)
(* shape of the allocation formula: with a non-negative base time b and    *)
(* the cap h (half of the remaining time after overhead), in quarter units *)
(*      soft = Min(3b, 4h)      (0.75 b capped)                            *)
(*      hard = Min(12b, 4h)     (3 b capped)                               *)
(* soft <= hard and hard <= 4h, for ALL naturals b, h.                     *)
(***************************************************************************)
EXTENDS Naturals, TLAPS

Min(x, y) == IF x <= y THEN x ELSE y
Soft(b, h) == Min(3 * b, 4 * h)
Hard(b, h) == Min(12 * b, 4 * h)

THEOREM LimitsOrdered ==
    ASSUME NEW b \in Nat, NEW h \in Nat
    PROVE  /\ Soft(b, h) <= Hard(b, h)
           /\ Hard(b, h) <= 4 * h
BY DEF Soft, Hard, Min

\* the base time itself: remaining/movestogo + inc/2 is non-negative, and the overhead subtraction is floored
Sub(a, o) == IF a >= o THEN a - o ELSE 0
Max(x, y) == IF x >= y THEN x ELSE y
THEOREM RemainingFloor ==
    ASSUME NEW rem \in Nat, NEW ovh \in Nat
    PROVE  Max(Sub(rem, ovh), ovh) >= ovh /\ Max(Sub(rem, ovh), ovh) \in Nat
BY DEF Sub, Max
=============================================================================
