------------------------------- MODULE MC_Game -------------------------------
(***************************************************************************)
(* Bounded exhaustive exploration of ChessGame: from every root, all       *)
(* interleavings of Move / Null / Undo / UndoNull up to nesting depth      *)
(* MaxDepth.  Checks CodeView => PropertyView: the transcription of        *)
(* make_move / undo_move keeps key, accumulator and the three board views  *)
(* consistent with the position, produces the rule book's successor, and   *)
(* restores the saved state on undo; the repetition window rule coincides  *)
(* with the rule-book definition on null-free histories.                   *)
(***************************************************************************)
EXTENDS ChessGame, Json, IOUtils

CONSTANT MaxDepth

Roots == ndJsonDeserialize(IOEnv.ROOTS)
CastleSet(n) == {r \in 0..3 : (n \div (2 ^ r)) % 2 = 1}
RootPos(e) == [board |-> [i \in 1..64 |-> e.b[i]], stm |-> e.stm, castle |-> CastleSet(e.cr),
               ep |-> e.ep, hmc |-> e.hmc, plies |-> e.pl]

ASSUME \A i \in 1..Len(Roots) : LegalPosition(RootPos(Roots[i]))

Init == \E i \in 1..Len(Roots) :
           LET p == RootPos(Roots[i])
           IN  /\ pos = p /\ stack = <<>> /\ key = FullKey(p) /\ acc = FullAcc(p)
               /\ views = FullViews(p.board)

MoveAny == \E m \in Legal(pos) : Move(m)

Next ==
    \/ (Len(stack) < MaxDepth /\ MoveAny)
    \/ (Len(stack) < MaxDepth /\ Null)
    \/ Undo
    \/ UndoNull

Spec == Init /\ [][Next]_gvars

AccOK == acc.ok
Inv ==
    /\ KeyConsistent
    /\ AccConsistent
    /\ AccOK
    /\ ViewsAgree
    /\ OneKingEach
    /\ OppNotInCheck
    /\ RightsConsistent
    /\ EpOK
    /\ StackSaved
    /\ MakeFollowsRules
    /\ WindowRule
    /\ WindowSound
=============================================================================
