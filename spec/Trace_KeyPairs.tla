----------------------------- MODULE Trace_KeyPairs -----------------------------
(***************************************************************************)
(* C03 direction B: a position and variants of it that differ in exactly   *)
(* one aspect of its identity (side to move, one castling right, the       *)
(* en-passant target, one piece removed / recoloured / moved).  Positions  *)
(* with different identities must have different keys; the key must not    *)
(* depend on anything but the identity (variants with equal identity, if   *)
(* any, have equal keys).                                                  *)
(***************************************************************************)
EXTENDS Naturals, Sequences, FiniteSets, TLC, Json, IOUtils, Reporting

Rec == ndJsonDeserialize(IOEnv.TRACE)
N == Len(Rec)
Id(x) == <<x.b, x.stm, x.cr, x.ep>>

Clauses(i) ==
    LET e  == Rec[i]
        all == <<[b |-> e.b, stm |-> e.stm, cr |-> e.cr, ep |-> e.ep, key |-> e.key]>> \o e.vs
        n  == Len(all)
    IN  \A a \in 1..n : \A c \in (a + 1)..n :
           /\ ViolAt(Id(all[a]) = Id(all[c]) \/ all[a].key # all[c].key, "C03", i, "different-positions-same-key",
                     [fen |-> e.fen, a |-> <<all[a].stm, all[a].cr, all[a].ep>>, c |-> <<all[c].stm, all[c].cr, all[c].ep>>,
                      same_board |-> all[a].b = all[c].b])
           /\ ViolAt(Id(all[a]) # Id(all[c]) \/ all[a].key = all[c].key, "C03", i, "same-position-different-key", [fen |-> e.fen])

ASSUME \A i \in 1..N : Clauses(i)
ASSUME Stat("keypairs", [positions |-> N,
                         variants |-> LET f[i \in 0..N] == IF i = 0 THEN 0 ELSE f[i - 1] + Len(Rec[i].vs) IN f[N]])
VARIABLE x
Init == x = 0
Next == x' = x
=============================================================================
