-------------------------------- MODULE Chess --------------------------------
(***************************************************************************)
(* The rule book.  FIDE rules of movement stated from first principles:    *)
(* a move is legal iff it is pseudo-legal by geometry and, after it has    *)
(* been played on the board, the mover's king is not attacked.  No pins,   *)
(* check masks, between tables or bitboards occur here.                    *)
(*                                                                         *)
(* Encodings (shared with the harness, see DESIGN.md Appendix A):          *)
(*   colour  0 = White, 1 = Black                                          *)
(*   kind    1..6 = P N B R Q K                                            *)
(*   piece   0 = empty, 1..6 white P..K, 7..12 black P..K                  *)
(*   board   function 1..64 -> 0..12, square s at index s+1                *)
(*   right   0 = White king side, 1 = White queen side, 2, 3 = Black       *)
(*   move    [from, to, promo, kind]; promo in {0,2,3,4,5}; kind 0 quiet,  *)
(*           1 capture, 2 en passant, 3 castling                           *)
(***************************************************************************)
EXTENDS Geometry, TLC

Pawn == 1  Knight == 2  Bishop == 3  Rook == 4  Queen == 5  King == 6
PieceOf(c, k) == c * 6 + k
ColourOf(p) == IF p <= 6 THEN 0 ELSE 1
KindOf(p) == IF p = 0 THEN 0 ELSE ((p - 1) % 6) + 1
Other(c) == 1 - c
At(b, s) == b[s + 1]
Occ(b) == {s \in Sq : At(b, s) # 0}
SquaresOf(b, p) == {s \in Sq : At(b, s) = p}

Mv(f, t, p, k) == [from |-> f, to |-> t, promo |-> p, kind |-> k]
PackMove(m) == m.from + 64 * m.to + 4096 * m.promo + 32768 * m.kind
UnpackMove(n) == Mv(n % 64, (n \div 64) % 64, (n \div 4096) % 8, n \div 32768)

Position == [board : [1..64 -> 0..12], stm : 0..1, castle : SUBSET (0..3),
             ep : -1..63, hmc : Nat, plies : Nat]

(***************************************************************************)
(* Attacks                                                                 *)
(***************************************************************************)
RECURSIVE FirstPieceR(_, _, _)
FirstPieceR(b, ray, i) ==
    IF i > Len(ray) THEN 0
    ELSE IF b[ray[i] + 1] # 0 THEN b[ray[i] + 1]
    ELSE FirstPieceR(b, ray, i + 1)
FirstPiece(b, s, d) == FirstPieceR(b, Ray(s, d), 1)

\* A pawn of colour c on t attacks s  iff  s \in PawnAttacks(c, t)
\*                                    iff  t \in PawnAttacks(Other(c), s).
ASSUME PawnAttackSymmetry ==
    \A c \in 0..1, s \in Sq, t \in Sq :
        (s \in PawnAttacks(c, t)) <=> (t \in PawnAttacks(Other(c), s))

\* Is square s attacked by a piece of colour `by' on board b ?
Attacked(b, s, by) ==
    \/ \E t \in KnightAttacks(s) : At(b, t) = PieceOf(by, Knight)
    \/ \E t \in KingAttacks(s) : At(b, t) = PieceOf(by, King)
    \/ \E t \in PawnAttacks(Other(by), s) : At(b, t) = PieceOf(by, Pawn)
    \/ \E d \in OrthoDirs : FirstPiece(b, s, d) \in {PieceOf(by, Rook), PieceOf(by, Queen)}
    \/ \E d \in DiagDirs : FirstPiece(b, s, d) \in {PieceOf(by, Bishop), PieceOf(by, Queen)}

\* The set of squares from which colour `by' attacks s (used by See and San).
RECURSIVE FirstSquareR(_, _, _)
FirstSquareR(b, ray, i) ==
    IF i > Len(ray) THEN -1
    ELSE IF b[ray[i] + 1] # 0 THEN ray[i]
    ELSE FirstSquareR(b, ray, i + 1)
FirstSquare(b, s, d) == FirstSquareR(b, Ray(s, d), 1)

AttackersOf(b, s, by) ==
    {t \in KnightAttacks(s) : At(b, t) = PieceOf(by, Knight)}
    \cup {t \in KingAttacks(s) : At(b, t) = PieceOf(by, King)}
    \cup {t \in PawnAttacks(Other(by), s) : At(b, t) = PieceOf(by, Pawn)}
    \cup {t \in {FirstSquare(b, s, d) : d \in OrthoDirs} \ {-1} :
              At(b, t) \in {PieceOf(by, Rook), PieceOf(by, Queen)}}
    \cup {t \in {FirstSquare(b, s, d) : d \in DiagDirs} \ {-1} :
              At(b, t) \in {PieceOf(by, Bishop), PieceOf(by, Queen)}}

KingSq(b, c) == CHOOSE s \in Sq : At(b, s) = PieceOf(c, King)
InCheckB(b, c) == Attacked(b, KingSq(b, c), Other(c))
InCheck(pos) == InCheckB(pos.board, pos.stm)

(***************************************************************************)
(* Pseudo-legal moves by geometry                                          *)
(***************************************************************************)
RECURSIVE SlideR(_, _, _, _, _)
SlideR(b, c, from, ray, i) ==
    IF i > Len(ray) THEN {}
    ELSE LET t == ray[i]
             p == At(b, t)
         IN  IF p = 0 THEN {Mv(from, t, 0, 0)} \cup SlideR(b, c, from, ray, i + 1)
             ELSE IF ColourOf(p) # c THEN {Mv(from, t, 0, 1)}
             ELSE {}

SliderMoves(b, c, s, dirs) == UNION {SlideR(b, c, s, Ray(s, d), 1) : d \in dirs}

LeaperMoves(b, c, s, targets) ==
    {Mv(s, t, 0, IF At(b, t) = 0 THEN 0 ELSE 1) :
        t \in {u \in targets : At(b, u) = 0 \/ ColourOf(At(b, u)) # c}}

PromoKinds == {Knight, Bishop, Rook, Queen}
PromoRankFrom(c) == IF c = 0 THEN 6 ELSE 1     \* rank a pawn promotes from
StartRank(c) == IF c = 0 THEN 1 ELSE 6

PawnMoves(b, c, s, ep) ==
    LET dir  == PawnDir(c)
        r    == RankOf(s)
        f1   == s + 8 * dir
        f2   == s + 16 * dir
        prom == r = PromoRankFrom(c)
        push == IF f1 \notin Sq \/ At(b, f1) # 0 THEN {}
                ELSE (IF prom THEN {Mv(s, f1, k, 0) : k \in PromoKinds}
                      ELSE {Mv(s, f1, 0, 0)})
                     \cup (IF r = StartRank(c) /\ At(b, f2) = 0
                           THEN {Mv(s, f2, 0, 0)} ELSE {})
        caps == UNION {
                  IF At(b, t) # 0 /\ ColourOf(At(b, t)) # c
                  THEN (IF prom THEN {Mv(s, t, k, 1) : k \in PromoKinds}
                        ELSE {Mv(s, t, 0, 1)})
                  ELSE IF t = ep /\ At(b, t) = 0
                          /\ At(b, t - 8 * dir) = PieceOf(Other(c), Pawn)
                  THEN {Mv(s, t, 0, 2)}
                  ELSE {} : t \in PawnAttacks(c, s)}
    IN  push \cup caps

PieceMoves(b, c, s, ep) ==
    LET k == KindOf(At(b, s))
    IN  CASE k = Pawn   -> PawnMoves(b, c, s, ep)
          [] k = Knight -> LeaperMoves(b, c, s, KnightAttacks(s))
          [] k = King   -> LeaperMoves(b, c, s, KingAttacks(s))
          [] k = Bishop -> SliderMoves(b, c, s, DiagDirs)
          [] k = Rook   -> SliderMoves(b, c, s, OrthoDirs)
          [] k = Queen  -> SliderMoves(b, c, s, AllDirs)

\* Every pseudo-legal move except castling.
Pseudo(pos) ==
    LET b == pos.board
        c == pos.stm
    IN  UNION {PieceMoves(b, c, s, pos.ep) :
                  s \in {u \in Sq : At(b, u) # 0 /\ ColourOf(At(b, u)) = c}}

KingHome(c) == 4 + 56 * c
RookHome(r) == CASE r = 0 -> 7 [] r = 1 -> 0 [] r = 2 -> 63 [] r = 3 -> 56
RightColour(r) == r \div 2

\* The board after move m by colour c (m pseudo-legal or castling).
BoardAfter(b, m, c) ==
    LET home  == 56 * c
        kside == m.to > m.from
        rFrom == IF kside THEN home + 7 ELSE home
        rTo   == IF kside THEN home + 5 ELSE home + 3
        vic   == m.to - 8 * PawnDir(c)
        mover == IF m.promo # 0 THEN PieceOf(c, m.promo) ELSE At(b, m.from)
    IN  [i \in 1..64 |->
            LET s == i - 1
            IN  IF s = m.from THEN 0
                ELSE IF s = m.to THEN mover
                ELSE IF m.kind = 2 /\ s = vic THEN 0
                ELSE IF m.kind = 3 /\ s = rFrom THEN 0
                ELSE IF m.kind = 3 /\ s = rTo THEN PieceOf(c, Rook)
                ELSE b[i]]

\* Castling: right held, king and rook at home, squares between them empty,
\* the king's start, transit and arrival squares not attacked.
CastleMoves(pos) ==
    LET b    == pos.board
        c    == pos.stm
        e    == KingHome(c)
        o    == Other(c)
        ks   == /\ (2 * c) \in pos.castle
                /\ At(b, e) = PieceOf(c, King)
                /\ At(b, e + 3) = PieceOf(c, Rook)
                /\ At(b, e + 1) = 0 /\ At(b, e + 2) = 0
                /\ ~Attacked(b, e, o) /\ ~Attacked(b, e + 1, o) /\ ~Attacked(b, e + 2, o)
        qs   == /\ (2 * c + 1) \in pos.castle
                /\ At(b, e) = PieceOf(c, King)
                /\ At(b, e - 4) = PieceOf(c, Rook)
                /\ At(b, e - 1) = 0 /\ At(b, e - 2) = 0 /\ At(b, e - 3) = 0
                /\ ~Attacked(b, e, o) /\ ~Attacked(b, e - 1, o) /\ ~Attacked(b, e - 2, o)
    IN  (IF ks THEN {Mv(e, e + 2, 0, 3)} ELSE {})
        \cup (IF qs THEN {Mv(e, e - 2, 0, 3)} ELSE {})

Legal(pos) ==
    LET b   == pos.board
        c   == pos.stm
        ksq == KingSq(b, c)
    IN  {m \in Pseudo(pos) :
            LET nb == BoardAfter(b, m, c)
            IN  ~Attacked(nb, IF m.from = ksq THEN m.to ELSE ksq, Other(c))}
        \cup CastleMoves(pos)

(***************************************************************************)
(* Playing a move                                                          *)
(***************************************************************************)
\* A right survives iff neither its king nor its rook leaves home and nothing
\* lands on its rook's home square.
SurvivingRights(castle, m) ==
    {r \in castle : /\ m.from # KingHome(RightColour(r))
                    /\ m.from # RookHome(r)
                    /\ m.to # RookHome(r)}

\* EpConvention: the en-passant target is recorded only when an enemy pawn
\* stands beside the pawn that has just advanced two squares (the engine's
\* documented convention; FIDE leaves the content of the FEN field open).
EpAfter(b, m, c) ==
    IF /\ KindOf(At(b, m.from)) = Pawn
       /\ (m.to - m.from = 16 \/ m.from - m.to = 16)
       /\ \E t \in {m.to - 1, m.to + 1} :
             /\ t \in Sq /\ RankOf(t) = RankOf(m.to)
             /\ At(b, t) = PieceOf(Other(c), Pawn)
    THEN m.from + 8 * PawnDir(c)
    ELSE -1

Make(pos, m) ==
    LET b == pos.board
        c == pos.stm
    IN  [board  |-> BoardAfter(b, m, c),
         stm    |-> Other(c),
         castle |-> SurvivingRights(pos.castle, m),
         ep     |-> EpAfter(b, m, c),
         hmc    |-> IF m.kind \in {1, 2} \/ KindOf(At(b, m.from)) = Pawn
                    THEN 0 ELSE pos.hmc + 1,
         plies  |-> pos.plies + 1]

IsMate(pos) == InCheck(pos) /\ Legal(pos) = {}
IsStalemate(pos) == ~InCheck(pos) /\ Legal(pos) = {}

\* Identity for the purposes of repetition.
Identity(pos) == <<pos.board, pos.stm, pos.castle, pos.ep>>

\* PlayLine(pos, <<m1,...>>): <<ok, final position>>; ok iff every move is
\* legal where it is played.
RECURSIVE PlayLine(_, _)
PlayLine(pos, ms) ==
    IF ms = <<>> THEN <<TRUE, pos>>
    ELSE IF Head(ms) \in Legal(pos) THEN PlayLine(Make(pos, Head(ms)), Tail(ms))
    ELSE <<FALSE, pos>>

(***************************************************************************)
(* Domain predicate of the properties: a legal position.                   *)
(***************************************************************************)
RightConsistent(b, r) ==
    /\ At(b, KingHome(RightColour(r))) = PieceOf(RightColour(r), King)
    /\ At(b, RookHome(r)) = PieceOf(RightColour(r), Rook)

EpConsistent(pos) ==
    \/ pos.ep = -1
    \/ LET c   == pos.stm                \* the side that may capture
           dir == PawnDir(c)
           e   == pos.ep
       IN  /\ RankOf(e) = (IF c = 0 THEN 5 ELSE 2)
           /\ At(pos.board, e) = 0
           /\ At(pos.board, e + 8 * dir) = 0                       \* origin of the push
           /\ At(pos.board, e - 8 * dir) = PieceOf(Other(c), Pawn) \* the pawn that pushed

LegalPosition(pos) ==
    LET b == pos.board
    IN  /\ Cardinality(SquaresOf(b, PieceOf(0, King))) = 1
        /\ Cardinality(SquaresOf(b, PieceOf(1, King))) = 1
        /\ \A s \in Sq : RankOf(s) \in {0, 7} => KindOf(At(b, s)) # Pawn
        /\ ~InCheckB(b, Other(pos.stm))
        /\ \A r \in pos.castle : RightConsistent(b, r)
        /\ EpConsistent(pos)

(***************************************************************************)
(* Colour mirror                                                           *)
(***************************************************************************)
SwapColour(p) == IF p = 0 THEN 0 ELSE IF p <= 6 THEN p + 6 ELSE p - 6
MirrorBoard(b) == [i \in 1..64 |-> SwapColour(b[MirrorSq(i - 1) + 1])]
Mirror(pos) ==
    [board  |-> MirrorBoard(pos.board),
     stm    |-> Other(pos.stm),
     castle |-> {(r + 2) % 4 : r \in pos.castle},
     ep     |-> IF pos.ep = -1 THEN -1 ELSE MirrorSq(pos.ep),
     hmc    |-> pos.hmc,
     plies  |-> pos.plies]
MirrorMove(m) == Mv(MirrorSq(m.from), MirrorSq(m.to), m.promo, m.kind)

(***************************************************************************)
(* Text: FEN and long algebraic notation                                   *)
(***************************************************************************)
PieceChar == <<"P", "N", "B", "R", "Q", "K", "p", "n", "b", "r", "q", "k">>
FileChar == <<"a", "b", "c", "d", "e", "f", "g", "h">>
SqName(s) == FileChar[FileOf(s) + 1] \o ToString(RankOf(s) + 1)

RECURSIVE RankStr(_, _, _, _)
RankStr(b, r, f, run) ==
    IF f = 8 THEN (IF run > 0 THEN ToString(run) ELSE "")
    ELSE LET p == At(b, SqOf(f, r))
         IN  IF p = 0 THEN RankStr(b, r, f + 1, run + 1)
             ELSE (IF run > 0 THEN ToString(run) ELSE "")
                  \o PieceChar[p] \o RankStr(b, r, f + 1, 0)

BoardStr(b) ==
    RankStr(b, 7, 0, 0) \o "/" \o RankStr(b, 6, 0, 0) \o "/" \o
    RankStr(b, 5, 0, 0) \o "/" \o RankStr(b, 4, 0, 0) \o "/" \o
    RankStr(b, 3, 0, 0) \o "/" \o RankStr(b, 2, 0, 0) \o "/" \o
    RankStr(b, 1, 0, 0) \o "/" \o RankStr(b, 0, 0, 0)

CastleStr(cs) ==
    IF cs = {} THEN "-"
    ELSE (IF 0 \in cs THEN "K" ELSE "") \o (IF 1 \in cs THEN "Q" ELSE "") \o
         (IF 2 \in cs THEN "k" ELSE "") \o (IF 3 \in cs THEN "q" ELSE "")

FenOf(pos) ==
    BoardStr(pos.board) \o " " \o (IF pos.stm = 0 THEN "w" ELSE "b") \o " " \o
    CastleStr(pos.castle) \o " " \o
    (IF pos.ep = -1 THEN "-" ELSE SqName(pos.ep)) \o " " \o
    ToString(pos.hmc) \o " " \o ToString(pos.plies \div 2 + 1)

PromoChar(k) == CASE k = Knight -> "n" [] k = Bishop -> "b" [] k = Rook -> "r" [] k = Queen -> "q"
UciOf(m) == SqName(m.from) \o SqName(m.to) \o (IF m.promo = 0 THEN "" ELSE PromoChar(m.promo))

(***************************************************************************)
(* Dead material.  PropertyView constrains only what the property states;  *)
(* CodeView transcribes the engine's case analysis.                        *)
(***************************************************************************)
CountKind(b, k) == Cardinality({s \in Sq : KindOf(At(b, s)) = k})
Minors(b) == CountKind(b, Knight) + CountKind(b, Bishop)
Heavy(b) == CountKind(b, Pawn) + CountKind(b, Rook) + CountKind(b, Queen)

\* "T" must be declared insufficient, "F" must not, "-" the property is silent.
InsufficientPV(b) ==
    IF Heavy(b) > 0 \/ Minors(b) > 2 THEN "F"
    ELSE IF Minors(b) <= 1 THEN "T"
    ELSE "-"

IsLight(s) == (FileOf(s) + RankOf(s)) % 2 = 1
Corners == {0, 7, 56, 63}
Edge(s) == FileOf(s) \in {0, 7} \/ RankOf(s) \in {0, 7}

InsufficientCV(pos) ==
    LET b  == pos.board
        n  == Cardinality(Occ(b))
        kn == CountKind(b, Knight)
        bi == CountKind(b, Bishop)
        ks == {s \in Sq : KindOf(At(b, s)) = King}
        bs == {s \in Sq : KindOf(At(b, s)) = Bishop}
        mine == Cardinality({s \in Sq : At(b, s) # 0 /\ ColourOf(At(b, s)) = pos.stm})
        oneEach == mine = 2
        corner == ks \cap Corners # {}
        edge == \E s \in ks : Edge(s)
    IN  CASE n = 2 -> TRUE
          [] n = 3 -> kn + bi > 0
          [] n = 4 -> \/ (kn = 2 /\ ~edge)
                      \/ (bi = 2 /\ (Cardinality({s \in bs : IsLight(s)}) # 1
                                      \/ (oneEach /\ ~corner)))
                      \/ (kn = 1 /\ bi = 1 /\ oneEach /\ ~corner)
          [] OTHER -> FALSE

StartBoard ==
    [i \in 1..64 |->
        LET s == i - 1
            back == <<Rook, Knight, Bishop, Queen, King, Bishop, Knight, Rook>>
        IN  CASE RankOf(s) = 0 -> PieceOf(0, back[FileOf(s) + 1])
              [] RankOf(s) = 1 -> PieceOf(0, Pawn)
              [] RankOf(s) = 6 -> PieceOf(1, Pawn)
              [] RankOf(s) = 7 -> PieceOf(1, back[FileOf(s) + 1])
              [] OTHER -> 0]

StartPos == [board |-> StartBoard, stm |-> 0, castle |-> {0, 1, 2, 3},
             ep |-> -1, hmc |-> 0, plies |-> 0]
=============================================================================
