\* the blend as found: expected to fail for phase > 24 (F7)
CONSTANTS Clamped = FALSE PhaseMax = 100
INIT Init
NEXT Next
INVARIANT Inv
