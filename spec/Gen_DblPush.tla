------------------------------ MODULE Gen_DblPush ------------------------------
(***************************************************************************)
(* C02 / C03 / C01 direction B, targeted family: a pawn is about to        *)
(* advance two squares and lands BESIDE an enemy pawn that is (or is not)  *)
(* pinned to its king - along the diagonal through the skipped square      *)
(* (the en-passant capture stays on the pin line and is legal), along the  *)
(* other diagonal, the rank or the file (the capture is illegal).  Every   *)
(* line through the enemy pawn, the enemy king at distance 1..2 on one     *)
(* side, a rook / bishop / queen of the pushing side at distance 1..3 on   *)
(* the other; controls with a second, free enemy pawn on the far side of   *)
(* the landing square.                                                     *)
(* For each position the rule book's successor after the push is printed   *)
(* (FEN with the en-passant field under EpConvention, replies); the real   *)
(* make_move is run on it by `harness walk --script` and every field of    *)
(* the successor - target, key, reply list - is judged by Trace_Game.      *)
(* `legal_ep` says whether a reply captures en passant: a PropertyView     *)
(* fact (the move exists), independent of the convention for the field.    *)
(***************************************************************************)
EXTENDS Chess, Json, Reporting

W(k) == PieceOf(0, k)
Bl(k) == PieceOf(1, k)
Opp(d) == ((d + 3) % 8) + 1
SliderFor(d) == IF d \in OrthoDirs THEN {Rook, Queen} ELSE {Bishop, Queen}

EmitOne(p, m) ==
    IF m \in Legal(p)
    THEN LET n == Make(p, m)
         IN  PrintT("@@GEN " \o ToJson([root |-> FenOf(p), move |-> UciOf(m), want_fen |-> FenOf(n),
                                        legal_ep |-> (\E x \in Legal(n) : x.kind = 2),
                                        replies |-> Cardinality(Legal(n))]))
    ELSE TRUE

Try(S, from, to) ==
    IF Cardinality({x[1] : x \in S}) # Cardinality(S) THEN TRUE
    ELSE LET p == [board |-> [i \in 1..64 |-> IF \E x \in S : x[1] = i - 1 THEN (CHOOSE x \in S : x[1] = i - 1)[2] ELSE 0],
                   stm |-> 0, castle |-> {}, ep |-> -1, hmc |-> 3, plies |-> 20]
             mp == [Mirror(p) EXCEPT !.plies = 21]
             m  == Mv(from, to, 0, 0)
         IN  IF LegalPosition(p) THEN EmitOne(p, m) /\ EmitOne(mp, MirrorMove(m)) ELSE TRUE

Run ==
    \A f \in 0..7 : \A df \in {-1, 1} :
      LET bf == f + df IN
      IF bf \notin 0..7 THEN TRUE
      ELSE LET from == SqOf(f, 1)
               to   == SqOf(f, 3)
               bp   == SqOf(bf, 3)
               far  == IF f - df \in 0..7 THEN {{}, {<<SqOf(f - df, 3), Bl(Pawn)>>}} ELSE {{}}
           IN  \A d \in AllDirs : \A i \in 1..2 : \A j \in 1..3 : \A sk \in SliderFor(d) : \A X \in far :
                 IF i > Len(Ray(bp, d)) \/ j > Len(Ray(bp, Opp(d))) THEN TRUE
                 ELSE \A wk \in {6, 56} :
                        Try({<<wk, W(King)>>, <<from, W(Pawn)>>, <<bp, Bl(Pawn)>>, <<Ray(bp, d)[i], Bl(King)>>,
                             <<Ray(bp, Opp(d))[j], W(sk)>>} \cup X, from, to)

ASSUME Run
VARIABLE x
Init == x = 0
Next == x' = x
=============================================================================
