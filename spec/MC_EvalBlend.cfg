CONSTANTS Clamped = TRUE PhaseMax = 100
INIT Init
NEXT Next
INVARIANT Inv
