------------------------------ MODULE Gen_OntoEp ------------------------------
(***************************************************************************)
(* C17 direction B, targeted family: positions with an en-passant target   *)
(* in which a piece OTHER than a pawn can legally move onto the target     *)
(* square (king, knight, bishop, rook or queen), next to the genuine       *)
(* en-passant capture.  For every legal move onto the target square the    *)
(* rule book's successor FEN and reply set are printed; the real binary    *)
(* must reach them through `position fen ... moves ...'.                   *)
(***************************************************************************)
EXTENDS Chess, Json, Reporting

W(k) == PieceOf(0, k)
Bl(k) == PieceOf(1, k)

Emit(p) ==
    LET onto == {m \in Legal(p) : m.to = p.ep}
    IN  \A m \in onto :
          LET n == Make(p, m)
          IN  PrintT("@@GEN " \o ToJson([root |-> FenOf(p), move |-> UciOf(m), kind |-> m.kind,
                                         want_fen |-> FenOf(n), want_replies |-> {UciOf(x) : x \in Legal(n)}]))

Try(S, ep) ==
    IF Cardinality({x[1] : x \in S}) # Cardinality(S) THEN TRUE
    ELSE LET p == [board |-> [i \in 1..64 |-> IF \E x \in S : x[1] = i - 1 THEN (CHOOSE x \in S : x[1] = i - 1)[2] ELSE 0],
                   stm |-> 0, castle |-> {}, ep |-> ep, hmc |-> 0, plies |-> 20]
             \* the mirrored twin has Black to move: its ply count must be odd for the FEN text to be consistent
             mp == [Mirror(p) EXCEPT !.plies = 21]
         IN  IF LegalPosition(p) THEN Emit(p) /\ Emit(mp) ELSE TRUE

Run ==
    \A f \in 0..7 : \A df \in {-1, 1} :
      LET bf == f + df IN
      IF bf \notin 0..7 THEN TRUE
      ELSE LET wp == SqOf(f, 4)
               bp == SqOf(bf, 4)
               ep == SqOf(bf, 5)
           IN  \A pk \in {King, Knight, Bishop, Rook, Queen} :
                 \A ps \in (CASE pk = King -> KingAttacks(ep) [] pk = Knight -> KnightAttacks(ep)
                              [] pk = Bishop -> BishopAttacks(ep, {}) [] pk = Rook -> RookAttacks(ep, {})
                              [] pk = Queen -> KingAttacks(ep)) :
                   IF pk = King
                   THEN Try({<<ps, W(King)>>, <<wp, W(Pawn)>>, <<bp, Bl(Pawn)>>, <<0, Bl(King)>>}, ep)
                   ELSE Try({<<7, W(King)>>, <<ps, W(pk)>>, <<wp, W(Pawn)>>, <<bp, Bl(Pawn)>>, <<0, Bl(King)>>}, ep)

ASSUME Run
VARIABLE x
Init == x = 0
Next == x' = x
=============================================================================
