\* repaired arithmetic
CONSTANTS Saturating = TRUE MaxDepth = 6 MaxSearches = 2 StartGen = 254
SPECIFICATION Spec
INVARIANTS NoOverflow WindowSane FullWindowBrackets DepthOK
CHECK_DEADLOCK FALSE
