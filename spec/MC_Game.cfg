CONSTANT MaxDepth = 2
SPECIFICATION Spec
INVARIANT Inv
PROPERTY UndoRestores
CHECK_DEADLOCK FALSE
