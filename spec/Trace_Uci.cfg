CONSTANTS ResetOnGo = TRUE MaxCmds = 0 HashMinZero = TRUE InfiniteMayEnd = TRUE
SPECIFICATION TraceSpec
CONSTRAINT Progress
POSTCONDITION TraceAccepted
CHECK_DEADLOCK FALSE
