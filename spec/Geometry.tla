------------------------------ MODULE Geometry ------------------------------
(***************************************************************************)
(* Board geometry from first principles: squares, rays, leaper tables,     *)
(* slider attacks by ray walking, the squares-between relation and the     *)
(* relevant-blocker masks of the magic tables.                             *)
(*                                                                         *)
(* Squares are 0..63 with a1 = 0, file = s % 8, rank = s \div 8 (this is   *)
(* also the engine's numbering, so no translation table exists that could  *)
(* hide a defect).  Nothing here mentions bitboards, magics, pins or       *)
(* masks: it shares no mechanism with /repo/src/chess/movegen.             *)
(***************************************************************************)
EXTENDS Naturals, Integers, Sequences, FiniteSets

Sq == 0..63
FileOf(s) == s % 8
RankOf(s) == s \div 8
SqOf(f, r) == r * 8 + f
OnBoard(f, r) == f \in 0..7 /\ r \in 0..7

\* Directions as <<file step, rank step>>: N NE E SE S SW W NW.
\* Odd indices are orthogonal, even indices diagonal.
Dirs == << <<0, 1>>, <<1, 1>>, <<1, 0>>, <<1, -1>>,
           <<0, -1>>, <<-1, -1>>, <<-1, 0>>, <<-1, 1>> >>
OrthoDirs == {1, 3, 5, 7}
DiagDirs  == {2, 4, 6, 8}
AllDirs   == 1..8

RayFrom(s, d) ==
    LET df == Dirs[d][1]
        dr == Dirs[d][2]
        n  == Cardinality({k \in 1..7 : OnBoard(FileOf(s) + k * df, RankOf(s) + k * dr)})
    IN  [k \in 1..n |-> SqOf(FileOf(s) + k * df, RankOf(s) + k * dr)]

\* Rays[s+1][d] : the squares from s outward in direction d, nearest first.
Rays == [i \in 1..64 |-> [d \in 1..8 |-> RayFrom(i - 1, d)]]
Ray(s, d) == Rays[s + 1][d]

KnightJumps == {<<1, 2>>, <<2, 1>>, <<2, -1>>, <<1, -2>>,
                <<-1, -2>>, <<-2, -1>>, <<-2, 1>>, <<-1, 2>>}

Leaper(s, jumps) ==
    {SqOf(FileOf(s) + j[1], RankOf(s) + j[2]) :
        j \in {k \in jumps : OnBoard(FileOf(s) + k[1], RankOf(s) + k[2])}}

KnightT == [i \in 1..64 |-> Leaper(i - 1, KnightJumps)]
KingT   == [i \in 1..64 |-> Leaper(i - 1, {Dirs[d] : d \in 1..8})]
KnightAttacks(s) == KnightT[s + 1]
KingAttacks(s)   == KingT[s + 1]

\* Colours are 0 (White) and 1 (Black).  A white pawn attacks one rank up.
PawnDir(c) == IF c = 0 THEN 1 ELSE -1
PawnT == [c \in 0..1 |-> [i \in 1..64 |->
            Leaper(i - 1, {<<-1, PawnDir(c)>>, <<1, PawnDir(c)>>})]]
PawnAttacks(c, s) == PawnT[c][s + 1]

(***************************************************************************)
(* Slider attacks: walk the ray to the first occupied square, inclusive.   *)
(* occ is a set of squares.                                                *)
(***************************************************************************)
RECURSIVE WalkR(_, _, _)
WalkR(ray, occ, i) ==
    IF i > Len(ray) THEN {}
    ELSE IF ray[i] \in occ THEN {ray[i]}
    ELSE {ray[i]} \cup WalkR(ray, occ, i + 1)

Walk(s, d, occ) == WalkR(Ray(s, d), occ, 1)

RookAttacks(s, occ)   == UNION {Walk(s, d, occ) : d \in OrthoDirs}
BishopAttacks(s, occ) == UNION {Walk(s, d, occ) : d \in DiagDirs}
QueenAttacks(s, occ)  == RookAttacks(s, occ) \cup BishopAttacks(s, occ)

\* Relevant blockers of the magic tables: ray squares without each ray's last
\* square (a blocker on the far edge cannot shorten the ray).
RayInner(s, d) == LET r == Ray(s, d) IN {r[k] : k \in 1..(Len(r) - 1)}
RelevantMask(kind, s) ==
    UNION {RayInner(s, d) : d \in (IF kind = "R" THEN OrthoDirs ELSE DiagDirs)}

\* Squares strictly between a and b when they share a line, else {}.
Between(a, b) ==
    LET ds == {d \in 1..8 : \E k \in 1..Len(Ray(a, d)) : Ray(a, d)[k] = b}
    IN  IF ds = {} THEN {}
        ELSE LET d == CHOOSE x \in ds : TRUE
                 r == Ray(a, d)
                 n == CHOOSE k \in 1..Len(r) : r[k] = b
             IN  {r[k] : k \in 1..(n - 1)}

MirrorSq(s) == SqOf(FileOf(s), 7 - RankOf(s))

=============================================================================
