------------------------------- MODULE Gen_See -------------------------------
(***************************************************************************)
(* C20 direction B: exchange constellations around one target square.      *)
(* A black victim of each kind on the target; up to three white attackers  *)
(* and up to three black defenders drawn from pieces placed on the lines   *)
(* and knight squares through the target, including batteries (queen       *)
(* behind bishop, rook behind rook, bishop behind pawn) and - on the 8th   *)
(* rank target - capturing promotions.  Printed for White to move and      *)
(* mirrored for Black.                                                     *)
(***************************************************************************)
EXTENDS Chess, Json, Reporting

CONSTANTS SHARD, NSHARDS, DENSITY, MODE

W(k) == PieceOf(0, k)
Bl(k) == PieceOf(1, k)
Mask(cs) == 0
EmitOne(p) ==
    PrintT("@@GEN " \o ToJson([fam |-> "see", b |-> [i \in 1..64 |-> p.board[i]], stm |-> p.stm,
                               cr |-> 0, ep |-> -1, hmc |-> 0, pl |-> p.stm]))
BoardOfSet(S) == [i \in 1..64 |-> IF \E x \in S : x[1] = i - 1
                                   THEN (CHOOSE x \in S : x[1] = i - 1)[2] ELSE 0]
Emit(S) ==
    IF Cardinality({x[1] : x \in S}) # Cardinality(S) THEN TRUE
    ELSE LET p == [board |-> BoardOfSet(S), stm |-> 0, castle |-> {}, ep |-> -1, hmc |-> 0, plies |-> 0]
         IN  IF LegalPosition(p) THEN EmitOne(p) /\ EmitOne(Mirror(p)) ELSE TRUE

\* target d4 = 27: lines through it
\* (b4 = 25, c4 = 26, f4 = 29, g4 = 30: like pieces on the target's own rank on both sides of it, with x-rays behind)
WhiteD4 == {<<18, W(Pawn)>>, <<20, W(Pawn)>>, <<17, W(Knight)>>, <<37, W(Knight)>>, <<9, W(Bishop)>>,
            <<0, W(Queen)>>, <<3, W(Rook)>>, <<11, W(Rook)>>, <<24, W(Queen)>>, <<45, W(Bishop)>>, <<13, W(Bishop)>>,
            <<25, W(Rook)>>, <<30, W(Rook)>>}
BlackD4 == {<<34, Bl(Pawn)>>, <<36, Bl(Pawn)>>, <<33, Bl(Knight)>>, <<21, Bl(Knight)>>, <<54, Bl(Bishop)>>,
            <<63, Bl(Queen)>>, <<59, Bl(Rook)>>, <<51, Bl(Rook)>>, <<31, Bl(Queen)>>, <<41, Bl(Bishop)>>, <<28, Bl(King)>>,
            <<26, Bl(Rook)>>, <<29, Bl(Rook)>>}
\* target d8 = 59: capturing promotions from c7 / e7
WhiteD8 == {<<50, W(Pawn)>>, <<52, W(Pawn)>>, <<42, W(Knight)>>, <<3, W(Rook)>>, <<11, W(Queen)>>, <<31, W(Bishop)>>,
            <<24, W(Bishop)>>}
BlackD8 == {<<56, Bl(Rook)>>, <<57, Bl(Rook)>>, <<61, Bl(Bishop)>>, <<49, Bl(Knight)>>, <<62, Bl(Queen)>>, <<60, Bl(King)>>,
            <<53, Bl(Knight)>>}

Small(S, n) == {T \in SUBSET S : Cardinality(T) <= n}
Idx(T) == IF T = {} THEN 0 ELSE LET f[U \in SUBSET T] == IF U = {} THEN 0 ELSE LET x == CHOOSE y \in U : TRUE IN x[1] + f[U \ {x}] IN f[T]
Keep(a, b) == DENSITY = 1 \/ (a * 7 + b * 13) % DENSITY = 0

Config(t, ws, bs, full) ==
    \A vk \in {Pawn, Knight, Rook, Queen} :
      \A A \in {T \in Small(ws, 3) : T # {} /\ Idx(T) % NSHARDS = SHARD} :
        \A D \in {T \in Small(bs, 3) : full \/ Keep(Idx(A), Idx(T) + vk)} :
          LET hasBK == \E x \in D : x[2] = Bl(King)
              kings == {<<7, W(King)>>} \cup (IF hasBK THEN {} ELSE {<<48, Bl(King)>>})
          IN  Emit(A \cup D \cup {<<t, Bl(vk)>>} \cup kings)

\* MODE "rank": two black like pieces on the target's own rank (or file) on both sides of it are ALWAYS among the
\* defenders, each possibly with a white x-ray piece behind it; white attackers of every kind incl. a bishop and a
\* queen on other lines.  Ties among equally valued attackers of one kind are decided by square order: this family
\* makes that order matter.  Small; never thinned.
WhiteRank == {<<18, W(Pawn)>>, <<9, W(Bishop)>>, <<3, W(Queen)>>, <<17, W(Knight)>>, <<25, W(Queen)>>, <<30, W(Rook)>>,
              <<24, W(Rook)>>, <<31, W(Rook)>>, <<59, W(Rook)>>}
BlackPairs == {{<<26, Bl(Rook)>>, <<29, Bl(Rook)>>}, {<<26, Bl(Rook)>>, <<28, Bl(Rook)>>}, {<<25, Bl(Rook)>>, <<29, Bl(Rook)>>},
               {<<19, Bl(Rook)>>, <<35, Bl(Rook)>>}, {<<26, Bl(Queen)>>, <<29, Bl(Queen)>>}}
BlackThird == {<<36, Bl(Pawn)>>, <<33, Bl(Knight)>>, <<54, Bl(Bishop)>>, <<43, Bl(Rook)>>}

RankFamily ==
    \A vk \in {Pawn, Knight, Rook, Queen} :
      \A A \in {T \in Small(WhiteRank, 3) : T # {} /\ Idx(T) % NSHARDS = SHARD} :
        \A P \in BlackPairs : \A X \in Small(BlackThird, 1) :
          Emit(A \cup P \cup X \cup {<<27, Bl(vk)>>, <<7, W(King)>>, <<48, Bl(King)>>})

\* MODE "battery": queens standing IN FRONT of an own rook or bishop on a line through the target (the cheaper piece
\* behind is uncovered only when the queen has captured), for both sides.  Small; never thinned.
WhiteBattery == {<<19, W(Queen)>>, <<11, W(Rook)>>, <<3, W(Rook)>>, <<20, W(Queen)>>, <<13, W(Bishop)>>, <<18, W(Pawn)>>, <<17, W(Knight)>>}
BlackBattery == {<<35, Bl(Queen)>>, <<43, Bl(Rook)>>, <<51, Bl(Rook)>>, <<34, Bl(Queen)>>, <<41, Bl(Bishop)>>, <<36, Bl(Pawn)>>,
                 <<37, Bl(Knight)>>}
BatteryFamily ==
    \A vk \in {Pawn, Knight, Rook, Queen} :
      \A A \in {T \in Small(WhiteBattery, 3) : T # {} /\ Idx(T) % NSHARDS = SHARD} :
        \A D \in Small(BlackBattery, 3) :
          Emit(A \cup D \cup {<<27, Bl(vk)>>, <<7, W(King)>>, <<48, Bl(King)>>})

\* MODE "stack": very long exchanges - up to nine white and nine black men (promoted pieces included) bear on one pawn:
\* file batteries from both sides, two knights and two bishops each, rooks on the target's rank (one behind a queen).
\* Few men of equal value attack at the same time (the oracle branches over every order of those).  The men are added
\* in a fixed order; every pair of prefix lengths from six on gives one position (exchanges of up to eighteen captures).
WhiteStack == << <<27, W(Rook)>>, <<19, W(Rook)>>, <<11, W(Queen)>>, <<3, W(Queen)>>, <<18, W(Knight)>>, <<20, W(Knight)>>,
                 <<28, W(Bishop)>>, <<17, W(Bishop)>>, <<32, W(Rook)>> >>
BlackStack == << <<43, Bl(Rook)>>, <<51, Bl(Rook)>>, <<59, Bl(Queen)>>, <<41, Bl(Knight)>>, <<45, Bl(Knight)>>,
                 <<42, Bl(Bishop)>>, <<44, Bl(Bishop)>>, <<36, Bl(Queen)>>, <<39, Bl(Rook)>> >>
StackFamily ==
    \A i \in 6..9 : \A j \in 6..9 :
        (i + j) % NSHARDS = SHARD =>
            Emit({WhiteStack[k] : k \in 1..i} \cup {BlackStack[k] : k \in 1..j} \cup {<<35, Bl(Pawn)>>, <<7, W(King)>>, <<63, Bl(King)>>})

\* MODE "swarm": exchanges that are still undecided after sixteen recaptures - only possible with promoted men.  Up to
\* six minor pieces a side (four knights, two bishops: every trade is 300 for 300, so neither side is ever "ahead when it
\* is its turn"), then the file batteries (rooks in front of queens) - up to ten white and nine black men on one pawn,
\* exchanges of up to twenty captures.  The minor pieces have nothing behind them: See!Picks tries one of them.
\* Variants put a queen IN FRONT of the minor pieces' trade partner (a black queen on e5 / white queen on c5 that the
\* other side's swarm also attacks is not part of it: they stand beside the target) to shift who is ahead at the end.
WhiteSwarm == << <<18, W(Knight)>>, <<20, W(Knight)>>, <<29, W(Knight)>>, <<25, W(Knight)>>, <<28, W(Bishop)>>, <<17, W(Bishop)>>,
                 <<27, W(Rook)>>, <<19, W(Rook)>>, <<11, W(Queen)>>, <<3, W(Queen)>> >>
BlackSwarm == << <<41, Bl(Knight)>>, <<45, Bl(Knight)>>, <<52, Bl(Knight)>>, <<50, Bl(Knight)>>, <<42, Bl(Bishop)>>, <<44, Bl(Bishop)>>,
                 <<43, Bl(Rook)>>, <<51, Bl(Rook)>>, <<59, Bl(Queen)>> >>
SwarmExtra == {{}, {<<36, Bl(Queen)>>}, {<<34, W(Queen)>>}, {<<36, Bl(Queen)>>, <<34, W(Queen)>>}, {<<53, Bl(Queen)>>, <<34, W(Queen)>>}}
SwarmFamily ==
    \A i \in 5..10 : \A j \in 5..9 : \A X \in SwarmExtra :
        (i + j) % NSHARDS = SHARD /\ (DENSITY = 1 \/ i + j >= 16) =>
            Emit({WhiteSwarm[k] : k \in 1..i} \cup {BlackSwarm[k] : k \in 1..j} \cup X
                 \cup {<<35, Bl(Pawn)>>, <<6, W(King)>>, <<63, Bl(King)>>})

Run == IF MODE = "stack" THEN StackFamily
       ELSE IF MODE = "swarm" THEN SwarmFamily
       ELSE IF MODE = "rank" THEN RankFamily
       ELSE IF MODE = "battery" THEN BatteryFamily
       ELSE Config(27, WhiteD4, BlackD4, FALSE) /\ Config(59, WhiteD8, BlackD8, FALSE)
ASSUME Run
VARIABLE x
Init == x = 0
Next == x' = x
=============================================================================
