-------------------------- MODULE MC_OrderingTables --------------------------
EXTENDS OrderingTables
MCMoves == {"a", "b"}
MCPlies == 0..1
MCDepths == {1, 3}
=============================================================================
