#!/bin/sh
# MANIFEST.setup_cmd: builds the harness (both profiles) offline from files on disk only.
set -e
cd "$(dirname "$0")/harness"
export CARGO_NET_OFFLINE=true
ln -sfn "${TCHERAN_REPO:-/repo}" repo_link
cp -n /repo/Cargo.lock Cargo.lock 2>/dev/null || true
cargo build --offline --quiet
cargo build --offline --quiet --profile opt
echo setup ok
