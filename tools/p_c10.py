"""C10 The staged move picker yields every legal move exactly once.

Three kinds of TLC run (DESIGN.md 2.4, C10):
  MC-L  MC_MovePicker with one named action per branch of every stage block, -coverage: every branch of the
        model must be taken (a vacuous model is a tool error).
  MC-P  MC_MovePicker over ALL configurations within the tier's bounds (sharded: one single-worker JVM per
        shard), invariant Perm & co.: CodeView => PropertyView.
  A     harness `picker` on real positions under adversarial table contents; Trace_MovePicker judges every
        yielded stream with the rule book (PropertyView: VIOLATION) and compares it with the model's
        deterministic output for the recorded configuration (CodeView: DRIFT).
"""
import os, re, json
import vlib, games, nodes
from vlib import ToolError

ACTIONS = ["BBestYield", "BBestNone", "BGenCaps", "BGoodYield", "BGoodPark", "BGoodParkLoud", "BGoodExh",
           "BGoodExhLoud", "BGenQuiets", "BK1None", "BK1Miss", "BK1Skip", "BK1Yield", "BK2None", "BK2Miss",
           "BK2Skip", "BK2Yield", "BCMNoneS", "BCMMissS", "BCMSkipS", "BCMYieldS", "BCMNoneB", "BCMMissB",
           "BCMSkipB", "BCMYieldB", "BBadYield", "BBadExh", "BBadExhLoud", "BScoreQ", "BQuietsYield",
           "BQuietsExh"]
EDGES = ["BestMove:yield", "BestMove:none", "GenCaptures:gen", "GoodCaptures:yield", "GoodCaptures:park",
         "GoodCaptures:parkL", "GoodCaptures:exh", "GoodCaptures:exhL", "GenQuiets:gen", "Killer1:none",
         "Killer1:miss", "Killer1:skip", "Killer1:yield", "Killer2:none", "Killer2:miss", "Killer2:skip",
         "Killer2:yield", "CounterMove:noneS", "CounterMove:missS", "CounterMove:skipS", "CounterMove:yieldS",
         "CounterMove:noneB", "CounterMove:missB", "CounterMove:skipB", "CounterMove:yieldB",
         "BadCaptures:yield", "BadCaptures:exh", "BadCaptures:exhL", "ScoreQuiets:score", "Quiets:yield",
         "Quiets:exh"]

# positions that make the rarer generator branches likely (promotions with and without capture, en passant,
# checks and double checks, castling); the walk's own roots are added to them
EXTRA_ROOTS = [
    "r3k2r/Pppp1ppp/1b3nbN/nP6/BBP1P3/q4N2/Pp1P2PP/R2Q1RK1 w kq - 0 1",
    "n1n5/PPPk4/8/8/8/8/4Kppp/5N1N b - - 0 1",
    "n1n5/PPPk4/8/8/8/8/4Kppp/5N1N w - - 0 1",
    "r3k2r/1P4P1/8/8/8/8/1p4p1/R3K2R w KQkq - 0 1",
    "4k3/P1P1P1P1/8/8/8/8/p1p1p1p1/4K3 b - - 0 1",
    "r3k2r/8/8/3pP3/3Pp3/8/8/R3K2R w KQkq d6 0 2",
    "8/2p5/3p4/KP5r/1R3p1k/8/4P1P1/8 w - - 0 1",
    "rnbq1k1r/pp1Pbppp/2p5/8/2B5/8/PPP1NnPP/RNBQK2R w KQ - 1 8",
    "r3k2r/p1ppqpb1/bn2pnp1/3PN3/1p2P3/2N2Q1p/PPPBBPPP/R3K2R w KQkq - 0 1",
    "k3B3/8/n1q1R1r1/1P6/1NQn4/7P/2r5/5K2 w - - 0 1",
    "r2k3r/1b4bq/8/3R4/8/8/7B/4K2R b K - 3 2",
    "3r2k1/1P3ppp/8/8/8/8/5PPP/3R2K1 w - - 0 1",
    "4k3/8/8/8/8/5n2/4P3/3RK2r w - - 0 1",
    "6k1/5ppp/8/8/2b5/8/3pKPPP/2R5 w - - 0 1",
    "4k3/p1p1p1p1/8/1P1P1P1P/p1p1p1p1/8/1P1P1P1P/4K3 w - - 0 1",
    "4k3/p1p1p1p1/8/1P1P1P1P/p1p1p1p1/8/1P1P1P1P/4K3 b - - 0 1",
    "r3k2r/p1p1p1p1/8/1P1P1P1P/p1p1p1p1/8/1P1P1P1P/R3K2R w KQkq - 0 1",
]


def mc_jobs(chk):
    """(name, labelled, bounds, nshards)."""
    if chk.quick:
        return [("L", True, (0, 1, 0, 2), 1), ("P23", False, (0, 2, 0, 3), 8)]
    return [("L", True, (0, 2, 0, 2), 4), ("P33", False, (0, 3, 0, 3), 16), ("P42", False, (4, 4, 0, 2), 16)]


def run_mc(chk, job):
    name, labelled, (c0, c1, q0, q1), nsh, sh = job
    cfg = os.path.join(chk.outdir, "mc_%s_%d.cfg" % (name, sh))
    games.gen_cfg(cfg, {"NCmin": c0, "NCmax": c1, "NQmin": q0, "NQmax": q1, "Shard": sh, "NShards": nsh},
                  "SPECIFICATION %s\nINVARIANT MCInv\nPROPERTY Progress\nPROPERTY ConfigFrozen\n"
                  # labelled run: deadlock checking ON (a branch of a block without a named action would strand a
                  # behaviour before Done); plain run: NextPlain is enabled exactly until Done
                  % ("MCSpec" if labelled else "MCPlainSpec\nCHECK_DEADLOCK FALSE"))
    r = vlib.tlc("MC_MovePicker", cfg=cfg, workers=1, dfs=False, xmx="3g", timeout=3000,
                 extra=["-coverage", "1"] if labelled else [])
    if r.error or not r.ok:
        raise ToolError("MC_MovePicker (%s shard %d): the CodeView model of the picker violates a PropertyView "
                        "invariant or TLC failed (this is a statement about the specification's transcription of "
                        "move_picker.rs; it needs a human):\n%s" % (name, sh, r.error or r.stdout[-2000:]))
    m = re.search(r"Finished computing initial states: (\d+) distinct state", r.stdout)
    r.configs = int(m.group(1)) if m else 0
    return r


def main():
    chk = vlib.Check("C10", "model_checking")
    q = chk.quick
    hb = vlib.build_harness("dev")

    # ---- real picker runs (direction A) ---------------------------------------------------------------
    # walk A: the general roots plus the special ones, long walks; walk B: only the special roots (promotions, en
    # passant, checks, castling), short walks that stay near them
    roots = os.path.join(chk.outdir, "roots.txt")
    with open(roots, "w") as f:
        f.write(open(os.path.join(vlib.VERIF, "data", "roots.txt")).read().rstrip("\n") + "\n")
        f.write("\n".join(EXTRA_ROOTS) + "\n")
    roots_b = os.path.join(chk.outdir, "roots_special.txt")
    with open(roots_b, "w") as f:
        f.write("\n".join(EXTRA_ROOTS) + "\n")
    na, nb = (1, 1) if q else (12, 4)
    nwalk = na + nb
    npos = 300 if q else 20000
    contents, loud = (6, 1) if q else (10, 2)
    per_file = 150 if q else 640
    base, base_b = os.path.join(chk.outdir, "walk"), os.path.join(chk.outdir, "walkb")
    vlib.harness(hb, ["walk", "--seed", chk.seed, "--events", 2500 if q else 9000, "--files", na, "--out", base,
                      "--roots", roots])
    vlib.harness(hb, ["walk", "--seed", chk.seed + 1, "--events", 1500 if q else 9000, "--files", nb, "--out", base_b,
                      "--roots", roots_b, "--max-depth", 8])
    wfiles = ([base] if na == 1 else ["%s.%d" % (base, i) for i in range(na)]) + \
             ([base_b] if nb == 1 else ["%s.%d" % (base_b, i) for i in range(nb)])
    quotas = [(npos * 3 // 4) // na] * na + [(npos - (npos * 3 // 4) // na * na) // nb] * nb
    # source C: TLC-generated positions that force the generator's special branches (double check, check evasion,
    # promotions, en passant, pins): examined as they are
    import games
    fam_out, fam_jobs = games.run_movegen_families(chk, ["dblchk", "evade", "ep"], nshards=16,
                                                   density=24 if q else 4, shards=[chk.seed % 16] if q else [0, 5, 10])
    fo2, fj2 = games.run_movegen_families(chk, ["promo", "promopin"], nshards=8,     # split by pawn file: 8 shards
                                          density=24 if q else 4, shards=[chk.seed % 8] if q else [0, 3, 6])
    # every legal move is a capture (no quiet move in the list at all), winning, equal and losing captures mixed
    fo3, fj3 = games.run_movegen_families(chk, ["noquiet"], nshards=8, density=4 if q else 1,
                                          shards=[chk.seed % 8, (chk.seed + 3) % 8] if q else [0, 2, 4, 6])
    fam_out, fam_jobs = fam_out + fo2 + fo3, fam_jobs + fj2 + fj3
    fam_rows = []
    for (o, pth), job in zip(fam_out, fam_jobs):
        rows = vlib.read_ndjson(pth)
        chk.rng.shuffle(rows)
        fam_rows += rows[:120 if q else 2500]
    fam_file = os.path.join(chk.outdir, "family_positions.ndjson")
    vlib.write_ndjson(fam_file, fam_rows)
    wfiles.append(fam_file)
    quotas.append(len(fam_rows))
    nwalk += 1

    def pick(i):
        quota = quotas[i]
        nf = max(1, -(-quota // per_file))
        ob = os.path.join(chk.outdir, "picker_%d" % i)
        o = json.loads(vlib.harness(hb, ["picker", wfiles[i], ob, "--seed", chk.seed * 31 + i, "--contents", contents,
                                         "--loud", loud, "--files", nf, "--max-positions", quota,
                                         "--stay", 100 if wfiles[i].endswith("family_positions.ndjson") else 20]))
        return o, [ob] if nf == 1 else ["%s.%d" % (ob, k) for k in range(nf)]
    picked = vlib.pmap(pick, list(range(nwalk)), n=16)
    tfiles = [p for _, ps in picked for p in ps if os.path.getsize(p) > 0]
    tally, hp = {}, {"positions": 0, "runs": 0, "yields": 0, "nontrivial": 0}
    for o, _ in picked:
        for k in hp:
            hp[k] += o[k]
        for k, v in o["tally"].items():
            tally[k] = tally.get(k, 0) + v
        for s in o["samples"][:3 if q else 1]:
            chk.sample(s, cap=4)
    fens = set()
    for p in tfiles:
        with open(p) as f:
            for line in f:
                m = re.search(r'"fen":\s*"([^"]*)"', line)
                fens.add(m.group(1).rsplit(" ", 2)[0])
    kinds = ["pos_en_passant", "pos_queen_promotion_push", "pos_capture_promotion", "pos_underpromotion_push",
             "pos_castling", "pos_in_check", "pos_no_capture_list_entry", "pos_more_than_4_capture_list_entries"]
    if hp["positions"] < (200 if q else 15000) or hp["nontrivial"] == 0 or tally.get("loud", 0) == 0 or \
            (not q and any(tally.get(k, 0) == 0 for k in kinds)):
        raise ToolError("vacuous picker run: %s %s" % (hp, tally))

    # ---- all TLC jobs, 16 at a time: model checking shards first (they are the long ones) --------------
    jobs = []
    for name, labelled, bounds, nsh in mc_jobs(chk):
        jobs += [("mc", (name, labelled, bounds, nsh, sh)) for sh in range(nsh)]
    jobs.sort(key=lambda j: 0 if not j[1][1] else 1)
    jobs += [("trace", p) for p in tfiles]

    def one(job):
        kind, arg = job
        if kind == "mc":
            return kind, arg, run_mc(chk, arg)
        t = vlib.tlc("Trace_MovePicker", env={"TRACE": arg}, timeout=3000, xmx="3g")
        if t.error or not t.stats("picker"):
            raise ToolError("Trace_MovePicker on %s: %s" % (arg, t.error or t.stdout[-1500:]))
        if t.viols("TRACE"):
            raise ToolError("malformed picker trace (outside the property's domain): %s" % t.viols("TRACE")[0])
        return kind, arg, t
    results = vlib.pmap(one, jobs, n=16)

    # ---- model checking --------------------------------------------------------------------------------
    cov, mc = {}, {}
    for kind, arg, r in results:
        if kind != "mc":
            continue
        name, labelled = arg[0], arg[1]
        d = mc.setdefault(name, {"labelled_actions": labelled, "captures": "%d..%d" % arg[2][:2],
                                 "quiets": "%d..%d" % arg[2][2:], "shards": arg[3], "configurations": 0,
                                 "states": 0, "transitions": 0, "depth": 0, "max_shard_wall_s": 0})
        d["configurations"] += r.configs
        d["states"] += r.distinct
        d["transitions"] += r.states
        d["depth"] = max(d["depth"], r.depth)
        d["max_shard_wall_s"] = max(d["max_shard_wall_s"], round(r.wall, 1))
        if labelled:
            for a, (taken, _) in r.coverage.items():
                cov[a] = cov.get(a, 0) + taken
    never = [a for a in ACTIONS if cov.get(a, 0) == 0]
    if never:
        raise ToolError("MC_MovePicker: actions never taken (vacuous model): %s" % never)
    plain = [d for d in mc.values() if not d["labelled_actions"]]
    chk.add("states", sum(d["states"] for d in plain))
    chk.add("transitions", sum(d["transitions"] for d in plain))
    chk.cov["mc_configurations"] = sum(d["configurations"] for d in plain)
    chk.cov["mc_runs"] = mc
    chk.cov["mc_actions_taken"] = "%d/%d" % (len(ACTIONS) - len(never), len(ACTIONS))

    # ---- traces ----------------------------------------------------------------------------------------
    tot = {"positions": 0, "runs": 0, "cv": 0, "legal": 0}
    edges, cvskip, seeopen = set(), 0, 0
    for kind, path, t in results:
        if kind != "trace":
            continue
        st = t.stats("picker")[0]
        for k in tot:
            tot[k] += st[k]
        edges |= set(st["edges"])
        cvskip += len(t.stats("cvskip"))
        seeopen += len(t.stats("seeopen"))
        rows = None
        for d in t.viols("C10"):
            det = d["detail"]
            w = "%s|%s|loud=%s|ply=%s|hash=%s|k1=%s|k2=%s|cm=%s|prev=%s" % (
                d["what"], det.get("fen"), det.get("loud"), det.get("ply"), det.get("hash"), det.get("k1"),
                det.get("k2"), det.get("cm"), det.get("prev"))
            if rows is None:
                rows = vlib.read_ndjson(path)
            ev = rows[d["at"] - 1]
            run = ev["runs"][det["run"] - 1] if det.get("run") else None
            chk.violation(w, d["what"], d, replay={"kind": "picker-run", "fen": ev["fen"], "prev": ev["prev"],
                                                   "run": run, "trace": path, "line": d["at"]})
        for d in t.drifts("C10"):
            chk.drift.append({"what": d.get("what"), "detail": d.get("detail"), "source": path})
    if tot["positions"] != hp["positions"] or tot["runs"] != hp["runs"]:
        raise ToolError("trace specification examined %s, harness recorded %s" % (tot, hp))
    missing = [e for e in EDGES if e not in edges]
    if missing and not q:
        raise ToolError("model branches never exercised by a real picker run (thorough tier must reach all): %s" % missing)
    # node level (hook H6, Trace_Nodes.tla): every step of every node of recorded searches replayed on a stack of
    # rule-book positions; this check reports the clauses filed under its own property
    nstat = nodes.standard(chk, ("C10",), scale=0.5)
    chk.cov.update({
        "traces_validated_against_impl": tot["runs"],
        "trace_files": len(tfiles),
        "evaluations": tot["runs"],
        "positions": tot["positions"],
        "distinct_positions": len(fens),
        "legal_moves_by_rule_book": tot["legal"],
        "moves_yielded": hp["yields"],
        "runs_compared_with_model_output": tot["cv"],
        "runs_not_compared_see_verdicts_too_open": cvskip * (contents + loud),
        "positions_with_open_see_verdict": seeopen,
        "model_branches_exercised_by_real_runs": "%d/%d" % (len(EDGES) - len(missing), len(EDGES)),
        "model_branches_not_exercised": missing,
        "distinct_nontrivial": hp["nontrivial"],
        "table_content_tally": tally,
        "rule": "one evaluation = one run of the real MovePicker to exhaustion on a real position (walk positions, one "
                "random move on, so that a previous move keys the counter-move table) under one adversarial table "
                "content; the stream is judged against Chess!Legal(pos). non-trivial = full-variant runs in which a "
                "remembered entry collides with another (killer or counter move equal to the hash move, equal killers, "
                "counter move equal to a killer), is an entry of the capture list (capture or queen-promotion push), "
                "or is not a legal move of the position (legal only in a sibling or grand-child position, or an "
                "arbitrary Move value)",
    })
    chk.assumptions += [
        "hash move restricted to the legal moves of the position or none (the property's quantifier); killers and "
        "counter move are arbitrary Move values",
        "history values are those reachable through HistoryTable::add_bonus_for (non-negative, saturating at "
        "HISTORY_MAX_SCORE); negative history values are not reachable through the public interface and not examined",
        "bounded model: at most %s capture-list entries x %s quiet moves, all weak orderings of scores; real positions "
        "go beyond the bound only through trace validation" % (("2", "3") if q else ("3 x 3 and 4", "2")),
    ]
    return chk.finish()
