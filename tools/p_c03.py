"""C03 The position key depends on the position alone."""
import vlib, games


def main():
    chk = vlib.Check("C03", "model_checking")
    q = chk.quick
    mc = games.mc_game(chk, depth=2 if q else 3, workers=8 if q else 16)
    # shallow walks (many transpositions) and deep walks
    results, paths = games.walk_traces(chk, events=800 if q else 12000, files=8 if q else 32, max_depth=6 if q else 8,
                                       label="shallow")
    n1, d1 = games.collect_walk(chk, results, paths)
    # double pushes landing beside an enemy pawn that is pinned on any line or free (TLC family, every successor judged)
    games.dblpush_lines(chk)
    results2, paths2 = games.walk_traces(chk, events=400 if q else 12000, files=4 if q else 16, label="deep")
    n2, d2 = games.collect_walk(chk, results2, paths2)
    # the same positions under different (high) clocks: walks with move repetitions from roots with clocks near 100 -
    # one position has one key whatever the counters say
    import os
    results3, paths3 = games.walk_traces(chk, events=500 if q else 4000, files=2 if q else 8, max_depth=30, label="clocks",
                                         roots=os.path.join(vlib.VERIF, "data", "roots_c11.txt"))
    n3, d3 = games.collect_walk(chk, results3, paths3)
    n2 += n3
    files = games.gen_game(chk, "mixed", behaviours=32 if q else 2000, steps=60, max_depth=10, jvms=4 if q else 16)
    for m, p in games.replay_games(chk, files):
        if "key" in m.get("fields", []) or m["what"] == "panic":
            w = "%s|%s|%s" % (m["what"], m.get("root"), " ".join(m.get("ops", [])))
            chk.violation(w, "replayed-behaviour-key", m, replay={"kind": "gen-game", "file": p})
    # direction B: variants differing in exactly one aspect of the identity must differ in key
    hb = vlib.build_harness("dev")
    kp_pos = kp_var = 0
    for p in (paths[:2] + paths2[:1]) if q else (paths + paths2):
        kf = p + ".keypairs"
        vlib.harness(hb, ["keypairs", p, kf])
        t = vlib.tlc("Trace_KeyPairs", env={"TRACE": kf}, timeout=3000, xmx="3g")
        if t.error or not t.stats("keypairs"):
            raise vlib.ToolError("Trace_KeyPairs: " + (t.error or t.stdout[-1500:]))
        kp_pos += t.stats("keypairs")[0]["positions"]
        kp_var += t.stats("keypairs")[0]["variants"]
        for d in t.viols("C03"):
            det = d["detail"]
            chk.violation("%s|%s|%s|%s" % (d["what"], det.get("fen"), det.get("a"), det.get("c")), d["what"], d,
                          replay={"kind": "keypairs", "events": kf, "line": d.get("at")})
    # supplementary, unbounded: TLAPS proves the set algebra the key model rests on (toggle twice, commutation, e.p. swap)
    pr = vlib.tlaps("KeyAlgebraProof", chk.outdir)
    chk.cov["tlaps_key_algebra_obligations"] = {"proved": pr[0], "total": pr[1]} if pr else "not-run"
    if pr and pr[0] != pr[1]:
        raise vlib.ToolError("TLAPS no longer proves KeyAlgebraProof: %s" % (pr,))
    chk.cov["keypair_positions"] = kp_pos
    chk.cov["keypair_variants"] = kp_var
    chk.cov.update({
        "evaluations": n1 + n2,
        "distinct_nontrivial": d1 + d2,
        "rule": "per event: carried key = from-scratch key (and, as CodeView, = XOR of the engine's own 838 component words "
                "selected by the specification's FullKey); per trace file: events sorted by key, equal keys must have identical "
                "(placement, side, rights, target); all 838 words pairwise distinct and non-zero; per position ~22 variants differing in exactly "
                "one aspect (side, one right, target, one piece removed/recoloured/moved) must all have different keys. "
                "distinct = distinct keys per trace file, summed",
    })
    chk.sample({"first_trace": paths[0], "events": n1 + n2})
    chk.assumptions += ["key collisions are sought only among the positions of one trace file (<= a few thousand)"]
    return chk.finish()
