"""C13 Every advertised option value is accepted and survivable."""
import os, json, re, threading
import vlib, games, uci, searches
from fen2json import fen2pos

POS = ["r3k2r/p1ppqpb1/bn2pnp1/3PN3/1p2P3/2N2Q1p/PPPBBPPP/R3K2R w KQkq - 0 1",
       "8/2p5/3p4/KP5r/1R3p1k/8/4P1P1/8 w - - 0 1",
       "rnbqkbnr/pppppppp/8/8/8/8/PPPPPPPP/RNBQKBNR w KQkq - 0 1",
       "4rrk1/2p1b1p1/p1p3q1/4p3/2P2n1p/1P1NR2P/PB3PP1/3R1QK1 b - - 2 24"]
big = threading.Semaphore(2)     # at most two concurrent processes with a large table


def advertised(binary):
    s = uci.Session(binary)
    s.send("uci")
    s.wait_line(lambda l: l == "uciok", 20)
    s.send("quit")
    s.finish(10)
    opts = []
    for l in s.out():
        m = re.match(r"^option name (.+?) type spin default (\d+) min (\d+) max (\d+)", l)
        if m:
            opts.append({"name": m.group(1), "def": int(m.group(2)), "min": int(m.group(3)), "max": int(m.group(4))})
    return opts


def parse_infos(lines):
    infos = []
    for l in lines:
        if not l.startswith("info depth"):
            continue
        t = l.split()
        try:
            d = int(t[t.index("depth") + 1])
            si = t.index("score")
            pv = t[t.index("pv") + 1:] if "pv" in t else []
            infos.append({"d": d, "sk": t[si + 1], "sv": int(t[si + 2]), "pv": pv})
        except Exception:
            continue
    return infos


def run_script(args):
    binary, script, idx, prof = args
    heavy = any(st[0] == "set" and st[1] == "Hash" and st[2] >= 256 for st in script["steps"])
    if heavy:
        big.acquire()
    try:
        s = uci.Session(binary)
        events, problems = [], []
        nready = 0
        k = 0
        for st in script["steps"]:
            if st[0] == "set":
                s.send("setoption name %s value %d" % (st[1], st[2]))
                s.send("isready")
                nready += 1
                if not s.wait_count("readyok", nready, 60):
                    problems.append("no readyok after setoption %s %s" % (st[1], st[2]))
                    break
            else:
                # the same position before and after an option change in half of the scripts (the first table access
                # after a resize then repeats the last one before it), different positions in the other half
                fen = POS[(idx + (k if idx % 2 else 0)) % len(POS)]
                k += 1
                mark = len(s.lines)
                nb = s.counts["bestmove"]
                s.send("position fen " + fen)
                # depth-limited and clock-limited searches alternate (the overhead option only acts on clocks)
                s.send(["go depth 3", "go wtime 300 btime 300", "go depth 2", "go wtime 40 btime 40 movestogo 1", "go movetime 30",
                        "go wtime 50 btime 50 winc 500 binc 500", "go wtime 3000 btime 3000 movestogo 40"][(idx + k) % 7])
                ok = s.wait_count("bestmove", nb + 1, 60)
                lines = [l for _, l in s.lines[mark:]]
                ev = dict(fen2pos(fen))
                ev.update({"lim": 0, "tag": "%s#%d" % (prof, idx), "infos": parse_infos(lines), "msg": "",
                           "untouched": True, "stopk": 0, "polls": 0, "nodes_at_stop": 0, "max_nodes": 0})
                if ok:
                    ev.update({"out": "move", "best": [l.split()[1] for l in lines if l.startswith("bestmove")][0]})
                else:
                    pan = [l for l in lines if "panic" in l]
                    ev.update({"out": "panic" if pan else "timeout", "best": "", "msg": (pan[0] if pan else "no bestmove within 60s")[:300]})
                    problems.append("search not completed")
                events.append(ev)
                if not ok:
                    break
        s.send("isready")
        nready += 1
        if not problems and not s.wait_count("readyok", nready, 60):
            problems.append("no readyok at the end")
        s.send("quit")
        rc = s.finish(30)
        if rc is None:
            problems.append("process did not exit after quit")
        elif rc != 0 and not problems:
            problems.append("exit code %s" % rc)
        return events, problems, script, prof
    finally:
        if heavy:
            big.release()


def main():
    chk = vlib.Check("C13", "model_checking")
    q = chk.quick
    bins = {"dev": vlib.build_engine("dev", hooks=False)}
    if not q:
        bins["release"] = vlib.build_engine("release", hooks=False)
    opts = advertised(bins["dev"])
    if not opts:
        raise vlib.ToolError("no spin options advertised?")
    hash_min = min(o["min"] for o in opts if o["name"] == "Hash")
    # model: the crash clause of Uci.tla with the advertised Hash minimum
    cfg = os.path.join(chk.outdir, "MC_Uci_opts.cfg")
    games.gen_cfg(cfg, {"ResetOnGo": True, "MaxCmds": 0, "HashMinZero": hash_min == 0, "InfiniteMayEnd": True},
                  "SPECIFICATION Spec\nINVARIANTS TypeOK NoCrash NoHang\n")
    mc = vlib.tlc("Uci", cfg=cfg, workers=4, timeout=1200, xmx="4g", dfs=False)
    chk.add("states", max(mc.distinct, 1))
    chk.add("transitions", max(mc.states, 1))
    model_crash = bool(mc.error and "NoCrash" in mc.error)
    if mc.error and not model_crash:
        raise vlib.ToolError("MC Uci (options): " + mc.error)
    chk.cov["model_predicts_crash_with_advertised_minimum"] = model_crash
    # scripts from TLC
    of = os.path.join(chk.outdir, "opts.ndjson")
    vlib.write_ndjson(of, opts)
    gcfg = os.path.join(chk.outdir, "gen_options.cfg")
    games.gen_cfg(gcfg, {"LEVEL": 1 if q else 2}, "INIT Init\nNEXT Next\n")
    g = vlib.tlc("Gen_Options", cfg=gcfg, env={"OPTS": of}, timeout=600, xmx="2g")
    if g.error:
        raise vlib.ToolError("Gen_Options: " + g.error)
    scripts = [d for t, d in g.reports if t == "GEN"]
    if q:
        singles = [s for s in scripts if s["kind"] != "pair"]
        # quick: every boundary value singly, the interior ones and the pairs sampled
        def boundary(s):
            st = [x for x in s["steps"] if x[0] == "set"][0]
            o = [o for o in opts if o["name"] == st[1]][0]
            return st[2] in (o["min"], o["min"] + 1, o["max"] - 1, o["max"], o["def"])
        keep = [s for s in singles if boundary(s)]
        rest = [s for s in scripts if s not in keep]
        chk.rng.shuffle(rest)
        scripts = keep + rest[:10]
    jobs = []
    for prof, b in bins.items():
        for i, s in enumerate(scripts):
            jobs.append((b, s, i, prof))
    results = vlib.pmap(run_script, jobs, n=8)
    evs = []
    n_search = 0
    values = set()
    for events, problems, script, prof in results:
        sets = [tuple(x[1:]) for x in script["steps"] if x[0] == "set"]
        values.update(sets)
        w = "%s|%s" % (prof, json.dumps(script["steps"]))
        for pr in problems:
            chk.violation(w, pr, {"script": script, "profile": prof, "events": [e.get("msg") for e in events]},
                          replay={"kind": "uci-options", "steps": script["steps"], "profile": prof})
        evs += events
        n_search += len(events)
    ef = os.path.join(chk.outdir, "option_searches.events")
    vlib.write_ndjson(ef, evs)
    viols, stats = searches.judge(chk, [ef], ids=("C04", "C08"))
    for pid in ("C04", "C08"):
        for d in viols[pid]:
            chk.violation(searches.witness(d), pid + ":" + d["what"], d, replay={"kind": "search-event", "events": ef, "line": d.get("at")})
    chk.cov.update({
        "traces_validated_against_impl": len(jobs),
        "evaluations": len(jobs), "distinct_nontrivial": len(values),
        "advertised": opts, "scripts": len(scripts), "searches": n_search, "profiles": list(bins),
        "rule": "ranges are read from the binary's own 'uci' output; TLC enumerates option scripts (each spin option at min, min+1, default, "
                "max-1, max and six interior values, before the first and between searches; pairs of boundary values); each script runs on "
                "the real binary: readyok after every setoption, each search completed with a move that the rule book accepts, clean exit. "
                "non-trivial = distinct (option, value) settings exercised",
    })
    chk.sample({"script": scripts[0]["steps"]})
    chk.assumptions += ["quick tier: debug build only, interior values and pairs sampled; thorough: debug and release builds, all values, all pairs"]
    return chk.finish()
