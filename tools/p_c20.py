"""C20 Static exchange evaluation at threshold zero is consistent."""
import os, json
import vlib, games


def main():
    chk = vlib.Check("C20", "model_checking")
    q = chk.quick
    hb = vlib.build_harness("dev")
    nsh = 16
    jobs = [("gen", sh) for sh in ([chk.seed % nsh, (chk.seed + 5) % nsh, (chk.seed + 11) % nsh] if q else range(nsh))]
    jobs += [("rank", sh) for sh in range(4)]
    jobs += [("battery", sh) for sh in range(4)]
    jobs += [("swarm", sh) for sh in range(4)]          # exchanges still undecided after 16 recaptures (promoted minor pieces)
    if not q:
        jobs += [("stack", sh) for sh in range(4)]      # exchanges of up to eighteen captures on one square
    base = os.path.join(chk.outdir, "walk")
    nf = 4 if q else 16
    vlib.harness(hb, ["walk", "--seed", chk.seed, "--events", 2500 if q else 20000, "--files", nf, "--out", base])
    jobs += [("walk", i) for i in range(nf)]

    def one(job):
        kind, sh = job
        if kind == "walk":
            p = "%s.%d" % (base, sh)
        else:
            cfg = os.path.join(chk.outdir, "gsee_%s_%d.cfg" % (kind, sh))
            games.gen_cfg(cfg, {"SHARD": sh, "NSHARDS": 4 if kind in ("rank", "battery", "stack", "swarm") else nsh, "DENSITY": 8 if q else 1,
                                "MODE": kind if kind in ("rank", "battery", "stack", "swarm") else "general"}, "INIT Init\nNEXT Next\n")
            g = vlib.tlc("Gen_See", cfg=cfg, timeout=3400, xmx="2g")
            if g.error:
                raise vlib.ToolError("Gen_See: " + g.error)
            p = os.path.join(chk.outdir, "gsee_%s_%d.ndjson" % (kind, sh))
            vlib.write_ndjson(p, [d for t, d in g.reports if t == "GEN"])
        ev = os.path.join(chk.outdir, "see_%s_%d.ndjson" % (kind, sh))
        o = json.loads(vlib.harness(hb, ["see", p, ev]))
        if o["positions"] == 0:
            return o, None, ev, kind
        # the symmetry reduction of the oracle (See!Picks) is compared with the unreduced swap list wherever that finishes
        t = vlib.tlc("Trace_See", env={"TRACE": ev, "SEE_FULL": "0" if kind in ("swarm", "stack") else "1"}, timeout=3400, xmx="3g")
        if t.error or not t.stats("see"):
            raise vlib.ToolError("Trace_See: " + (t.error or t.stdout[-1500:]))
        if t.viols("ORACLE"):
            raise vlib.ToolError("See!Picks changes the value set of the swap list (specification error): %s" % t.viols("ORACLE")[0])
        if t.viols("TRACE"):
            raise vlib.ToolError("harness mirror disagrees with Chess!Mirror: %s" % t.viols("TRACE")[0])
        return o, t, ev, kind
    tot = {"positions": 0, "captures": 0, "losing": 0}
    single = 0
    by = {}
    for o, t, ev, kind in vlib.pmap(one, jobs, n=16):
        for k in tot:
            tot[k] += o[k]
        by[kind] = by.get(kind, 0) + o["captures"]
        if t is None:
            continue
        single += t.stats("see")[0]["singletons"]
        for d in t.viols("C20"):
            det = d["detail"]
            chk.violation("%s|%s|%s" % (d["what"], det.get("fen"), det.get("mv")), d["what"], d,
                          replay={"kind": "see-position", "fen": det.get("fen"), "events": ev})
    if by.get("gen", 0) == 0 or by.get("rank", 0) == 0 or by.get("walk", 0) == 0 or by.get("swarm", 0) == 0 or tot["losing"] == 0:
        raise vlib.ToolError("vacuous SEE run: %s %s" % (tot, by))
    # the verdict is a function of the position: walks (castling, promotions, take-backs on one game) compare the verdicts of
    # the live game with those of the same position set up afresh, every event (Trace_Game clause filed under C20)
    wres, wpaths = games.walk_traces(chk, events=500 if q else 10000, files=4 if q else 16, label="walk")
    games.collect_walk(chk, wres, wpaths)
    # ... scripted lines in which a castled rook ends up behind its own queen or rook aimed at a piece that only the enemy
    # king defends (the x-ray decides the verdict; data/castle_exchange_lines.txt, every step validated by Trace_Game)
    sp = os.path.join(chk.outdir, "castle_lines.ndjson")
    tables = os.path.join(chk.outdir, "tables.json")
    vlib.harness(hb, ["walk", "--script", os.path.join(vlib.VERIF, "data", "castle_exchange_lines.txt"), "--out", sp, "--tables", tables])
    sr = vlib.tlc("Trace_Game", env={"TRACE": sp, "TABLES": tables}, timeout=1200, xmx="3g")
    if sr.error or not sr.stats("trace") or sr.viols("ROOT") or sr.viols("TRACE"):
        raise vlib.ToolError("Trace_Game on the scripted lines: %s" % (sr.error or sr.viols("ROOT") or sr.stdout[-1000:]))
    sr.path = sp
    games.collect_walk(chk, [sr], [sp])
    # ... and TLC-simulated games biased to castling / en passant / promotions, replayed with take-backs: after every
    # operation the verdicts of the live game and of the position set up afresh must agree
    gfiles = games.gen_game(chk, "mixed", behaviours=64 if q else 2000, steps=60, max_depth=12, jvms=4 if q else 16)
    for m, p in games.replay_games(chk, gfiles):
        if "see" in m.get("fields", []) or m["what"] == "panic":
            w = "%s|%s|%s" % (m["what"], m.get("root"), " ".join(m.get("ops", [])))
            chk.violation(w, "exchange-verdict-depends-on-how-the-position-was-reached", m, replay={"kind": "gen-game", "file": p})
    chk.cov.update({
        "states": tot["positions"], "transitions": tot["captures"], "traces_validated_against_impl": len(jobs),
        "evaluations": tot["captures"], "distinct_nontrivial": tot["losing"],
        "captures_by_source": by, "singleton_verdict_sets": single,
        "rule": "every non-en-passant capture of every distinct position (TLC-generated exchange constellations with batteries and capturing "
                "promotions on d4/d8, both colours; walk positions): colour symmetry, undefended => favourable, captured>=capturer => "
                "favourable, verdict in the swap-list verdict set (equality when the set is a singleton). non-trivial = captures the engine "
                "judges losing",
    })
    chk.sample({"constellation": "target d4, victim of each kind, <=3 attackers, <=3 defenders from 11+11 placed pieces"})
    chk.assumptions += ["pins ignored and no promotion during the exchange: abstractions shared with the engine, stated in See.tla"]
    return chk.finish()
