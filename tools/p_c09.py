"""C09 Stopping is safe at every instant."""
import os, json
import vlib, games, searches, nodes


def main():
    chk = vlib.Check("C09", "model_checking")
    q = chk.quick
    # design level: Negamax.tla (PVS with per-ply line buffers, draws, a poll at every node entry): every stop index on
    # every small tree; NoWorkAfterStop, StopSafe, PVIsPath, IterationSound
    mc = vlib.tlc("MC_Negamax", cfg="MC_Negamax.cfg" if q else "MC_Negamax_thorough.cfg", workers=4 if q else 8,
                  timeout=3000, xmx="8g", dfs=False)
    if mc.error or not mc.ok:
        raise vlib.ToolError("MC_Negamax: " + (mc.error or mc.stdout[-1500:]))
    chk.cov["negamax_model_states"] = mc.distinct
    rng = chk.rng
    roots = searches.root_positions()
    rng.shuffle(roots)
    pairs = []
    npairs = 24 if q else 160
    for i, p in enumerate(roots[:npairs]):
        pairs.append((p, 6 + i % 2 if q else 5 + i % 3))
    # positions in which the very first iteration is interrupted (no root move scored yet)
    expl = searches.explosive_positions()
    for i, p in enumerate(expl[:6 if q else len(expl)]):
        pairs.append((p, 1 + i % 2))
    profs = ("opt",) if q else ("opt", "dev")
    all_files = []
    total_k = 0
    sample = None
    for prof in profs:
        # 1. unstopped reference runs: number of flag loads P per (position, limit)
        ref_jobs = [{"hash": 1, "tag": "ref", "searches": [{"pos": p, "depth": d}]} for p, d in pairs]
        refs = searches.run_jobs(chk, ref_jobs, prof, "c09ref", timeout=1800, shards=16)
        P = {}
        for ef, hang in refs:
            if hang:
                raise vlib.ToolError("reference search did not finish: %s" % hang)
            for e in vlib.read_ndjson(ef):
                P[(e["fen"], e["lim"])] = e["polls"]
            all_files.append(ef)
        # 2. one session per stop index k = 1..P
        jobs = []
        for (p, d) in pairs:
            n = P.get((p["fen"], d), 0)
            if n == 0:
                continue
            cap = 40 if q else 200
            ks = list(range(1, n + 1)) if n <= cap else sorted(set(list(range(1, 21)) + list(range(n - 19, n + 1)) +
                                                                     [rng.randrange(1, n + 1) for _ in range(cap - 40)]))
            nxt = roots[(roots.index(p) + 1) % len(roots)] if p in roots else roots[0]
            for k in ks:
                # follow-ups on the same tables: the same position at least as deep as the interrupted search (so that
                # the nodes the interrupted search wrote to are visited again), then another position
                jobs.append({"hash": 1, "tag": "stop@%d/%d" % (k, n),
                             "searches": [{"pos": p, "depth": d, "stopk": k}, {"pos": p, "depth": d + (1 if d >= 3 else 0)},
                                          {"pos": nxt, "depth": 3}]})
                total_k += 1
            if sample is None:
                sample = {"fen": p["fen"], "depth_limit": d, "flag_loads_unstopped": n, "stop_indices": ks[:8]}
        for ef, hang in searches.run_jobs(chk, jobs, prof, "c09", timeout=3000, shards=16):
            if hang:
                chk.violation("hang|%s" % hang["jobs"], "search-did-not-terminate-after-stop", hang, replay={"kind": "search-jobs", "jobs": hang["jobs"]})
            all_files.append(ef)
    viols, stats = searches.judge(chk, all_files, ids=("C04", "C08", "C09"))
    for pid in ("C04", "C08", "C09"):
        for d in viols[pid]:
            chk.violation(searches.witness(d) + "|" + pid, pid + ":" + d["what"], d,
                          replay={"kind": "search-event", "events": d["_file"], "line": d.get("at")})
    if total_k == 0:
        raise vlib.ToolError("no stop index exercised")
    # node level (hook H6, Trace_Nodes.tla): every step of every node of recorded searches replayed on a stack of
    # rule-book positions; this check reports the clauses filed under its own property
    stop_fens = ["r1bqkbnr/pppp1ppp/2n5/4p3/4P3/5N2/PPPP1PPP/RNBQKB1R w KQkq - 2 3", "8/2p5/3p4/KP5r/1R3p1k/8/4P1P1/8 w - - 0 1",
                 "r3k2r/p1ppqpb1/bn2pnp1/3PN3/1p2P3/2N2Q1p/PPPBBPPP/R3K2R w KQkq - 0 1", "2kr3r/pp1q1ppp/5n2/1Nb5/2Pp1B2/7Q/P4PPP/1R3RK1 w - - 0 1"]
    from fen2json import fen2pos
    # the stop request is observed at the last / last but one / ... poll of a search that is long enough to poll inside the tree
    stops = [(fen2pos(f), 1, k) for f in (stop_fens[:2] if q else stop_fens) for k in ((-1,) if q else (-1, -2, -3))]
    nstat = nodes.standard(chk, ("C09",), scale=0.5, stops=stops)
    if nstat["aborted_inside_tree"] == 0:
        raise vlib.ToolError("no recorded search was stopped inside the tree: %s" % nstat)
    chk.cov.update({
        "states": mc.distinct, "transitions": mc.states, "traces_validated_against_impl": len(all_files),
        "evaluations": stats["searches"], "distinct_nontrivial": total_k,
        "stop_indices_exercised": total_k, "pairs": len(pairs), "profiles": list(profs),
        "rule": "Negamax.tla model-checked: all stop indices on all trees of a fixed shape with leaf values in {-1,0,1} and at most one draw "
                "node (root line always a path of the tree; exact negamax value per completed iteration; no node entered after the stop; "
                "final line = last completed line or starts with a completely searched root move). On the code: for each (position, depth limit): the unstopped search's number of stop-flag loads P is counted through the hook, then one run "
                "per k = 1..P with the flag reading true from the k-th load on, followed by two ordinary searches on the same tables. Judged by "
                "TLC: legal move returned, caller's position unchanged, no further flag load / node after the observing poll, follow-up searches "
                "satisfy the C04/C08 clauses. non-trivial = distinct (position, limit, k)",
    })
    chk.sample(sample)
    chk.assumptions += ["'no further positions examined' is observed through node counts passed to the poll sites and the number of flag loads",
                        "stop indices are exhaustive per pair up to the cap, sampled at both ends beyond it"]
    return chk.finish()
