"""C05 No command history can hang the engine."""
import os, json, random, time
import vlib, games, uci

WATCHDOG = 20.0
POSITIONS = ["position startpos", "position startpos moves e2e4 e7e5 g1f3", "position fen 7k/8/8/8/8/8/r7/7K w - - 0 1",
             "position fen r3k2r/p1ppqpb1/bn2pnp1/3PN3/1p2P3/2N2Q1p/PPPBBPPP/R3K2R w KQkq - 0 1",
             "position fen 8/2p5/3p4/KP5r/1R3p1k/8/4P1P1/8 w - - 0 1 moves b4b1",
             "position fen 7k/5Q2/6K1/8/8/8/8/8 w - - 0 1"]


def model_check(chk):
    res = vlib.tlc("Uci", cfg="MC_Uci.cfg", workers=4, timeout=1200, xmx="4g", dfs=False, extra=["-coverage", "1"])
    if res.error or not res.ok:
        raise vlib.ToolError("MC_Uci: the model of the (repaired) code violates a property:\n" + (res.error or res.stdout[-2000:]))
    chk.add("states", res.distinct)
    chk.add("transitions", res.states)
    return res


def graph_paths(chk, maxcmds, limit):
    cfg = os.path.join(chk.outdir, "graph.cfg")
    games.gen_cfg(cfg, {"ResetOnGo": True, "MaxCmds": maxcmds, "HashMinZero": False, "InfiniteMayEnd": False},
                  "SPECIFICATION Spec\nINVARIANT TypeOK\nCHECK_DEADLOCK FALSE\n")
    dot = os.path.join(chk.outdir, "graph")
    res = vlib.tlc("Uci", cfg=cfg, workers=1, timeout=1200, xmx="4g", dfs=False, extra=["-dump", "dot,actionlabels", dot])
    if res.error:
        raise vlib.ToolError("Uci graph dump: " + res.error)
    init, nodes, edges = uci.parse_dot(dot + ".dot")
    paths, left = uci.edge_cover_paths(init, nodes, edges, chk.rng, limit=limit)
    return nodes, edges, paths, left


def replay_path(args):
    binary, nodes, path, workdir, tag = args
    # every script starts from a position chosen by the path's number, so that forced-move / mate-in-one / ordinary
    # positions all occur under every kind of interleaving
    variant = int(tag[4:]) if tag[4:].isdigit() else 0
    cmds, sched = uci.path_to_script(nodes, path, variant)
    cmds = [uci.SCRIPT_POSITIONS[variant % len(uci.SCRIPT_POSITIONS)]] + cmds
    sched = ["M:position"] + sched
    r = uci.run_forced(binary, cmds, sched, workdir, tag, watchdog=WATCHDOG)
    r["relaxed"] = None
    if r["rc"] is None and r["consumed"] < len(sched):
        # schedule not realisable beyond `consumed`: is it a schedule artefact (CodeView drift) or a real hang?
        r2 = uci.run_forced(binary, cmds, sched[:r["consumed"]], workdir, tag + "-relaxed", watchdog=WATCHDOG)
        r["relaxed"] = r2
    return r


def interactive(args):
    """One protocol-conforming GUI session with random timing. Returns (problems, events, transcript)."""
    binary, seed, workdir, steps = args
    rng = random.Random(seed)
    tp = os.path.join(workdir, "free-%d.events" % seed)
    if os.path.exists(tp):
        os.remove(tp)
    s = uci.Session(binary, trace=tp)
    problems = []
    n_go = n_ready = 0          # commands sent so far
    infinite = False

    def outstanding():
        return s.counts["bestmove"] < n_go

    def nap():
        if rng.random() < 0.4:
            return
        time.sleep(rng.choice([0.0005, 0.002, 0.01, 0.03]))
    for i in range(steps):
        nap()
        if outstanding():
            c = rng.choice(["stop", "stop", "isready", "stop" if infinite else "wait"])
        else:
            c = rng.choice(["go", "go", "go", "goinf", "ucinewgame", "position", "sethash", "setoption", "isready", "stop"])
        if c == "wait":
            if not s.wait_count("bestmove", n_go, WATCHDOG):
                problems.append("finite go not answered within %ss" % WATCHDOG)
                break
        elif c == "stop":
            was = n_go
            s.send("stop")
            if not s.wait_count("bestmove", was, WATCHDOG):
                problems.append("go not answered after stop within %ss" % WATCHDOG)
                break
        elif c == "isready":
            s.send("isready")
            n_ready += 1
            if not s.wait_count("readyok", n_ready, WATCHDOG):
                problems.append("isready not answered within %ss" % WATCHDOG)
                break
        elif c in ("go", "goinf"):
            if c == "go":
                s.send(rng.choice(["go depth 1", "go depth 2", "go depth 3", "go movetime 15", "go depth 4",
                                   "go wtime 300 btime 300", "go wtime 60000 btime 60000 winc 0 binc 0"]))
                infinite = False
            else:
                s.send("go infinite")
                infinite = True
            n_go += 1
        elif c == "ucinewgame":
            s.send("ucinewgame")
        elif c == "position":
            s.send(rng.choice(POSITIONS))
        elif c == "sethash":
            s.send("setoption name Hash value %d" % rng.choice([1, 2, 3, 8]))
        elif c == "setoption":
            s.send("setoption name Move Overhead value %d" % rng.choice([0, 5, 50]))
    if not problems:
        s.send("stop")
        if not s.wait_count("bestmove", n_go, WATCHDOG):
            problems.append("go not answered after final stop within %ss" % WATCHDOG)
        s.send("isready")
        n_ready += 1
        if not s.wait_count("readyok", n_ready, WATCHDOG):
            problems.append("final isready not answered within %ss" % WATCHDOG)
    s.send("quit")
    rc = s.finish(WATCHDOG)
    if rc is None:
        problems.append("process did not exit after quit")
    out = s.out()
    sent = [c for _, c in s.sent]
    if rc is not None and not problems:
        if uci.count(out, "bestmove") != n_go:
            problems.append("bestmove %d != go %d" % (uci.count(out, "bestmove"), n_go))
        if uci.count(out, "readyok") != n_ready:
            problems.append("readyok %d != isready %d" % (uci.count(out, "readyok"), n_ready))
    for l in out:
        if "panic" in l:
            problems.append("panic: " + l[:200])
            break
    return problems, uci.read_events(tp), sent, tp


def main():
    chk = vlib.Check("C05", "model_checking")
    q = chk.quick
    binary = vlib.build_engine("dev", hooks=True)
    mc = model_check(chk)
    nodes, edges, paths, left = graph_paths(chk, maxcmds=4 if q else 6, limit=140 if q else 2500)
    jobs = [(binary, nodes, p, chk.outdir, "path%d" % i) for i, p in enumerate(paths)]
    results = vlib.pmap(replay_path, jobs, n=8)
    n_steps = 0
    covered_edges = set()
    for (b, nd, p, wd, tag), r in zip(jobs, results):
        n_steps += len(r["sched"])
        for a, c in zip(p, p[1:]):
            covered_edges.add((a, c))
        hist = " | ".join(r["cmds"]) + " || " + " ".join(r["sched"])
        final = r
        if r["rc"] is None and r["relaxed"] is not None:
            if r["relaxed"]["rc"] is not None:
                chk.drift.append({"what": "schedule-not-realisable", "detail": {"at": r["consumed"], "sched": r["sched"],
                                                                                "events": r["events"][-6:]}, "source": tag})
                final = r["relaxed"]
            else:
                final = r["relaxed"]
        probs = uci.expectations(final)
        if probs:
            chk.violation(hist, "forced-schedule: " + "; ".join(probs),
                          {"commands": final["cmds"], "schedule": final["sched"], "events": final["events"], "stdout": final["out"][-12:]},
                          replay={"kind": "uci-forced", "commands": final["cmds"], "schedule": final["sched"]})
    chk.sample({"commands": results[0]["cmds"], "schedule": results[0]["sched"]})
    # "each go is answered ... when its limit is reached": every finite form of go, the degenerate limits included (zero
    # move time, empty or lopsided clocks), must be answered by itself - no stop is ever sent here
    plain = vlib.build_engine("dev", hooks=False)
    finite = ["go depth 1", "go movetime 0", "go movetime 1", "go wtime 0 btime 0", "go wtime 1 btime 1", "go wtime 500 btime 500",
              "go wtime 2 btime 900 winc 0 binc 0", "go wtime 0 btime 0 winc 0 binc 0", "go wtime 300 btime 300 movestogo 1", "go depth 3 movetime 5"]

    def answered(i):
        pos = uci.SCRIPT_POSITIONS[i % len(uci.SCRIPT_POSITIONS)]
        s_ = uci.Session(plain)
        bad = []
        try:
            for k in range(3):
                g = finite[(i + 3 * k) % len(finite)]
                nb = s_.counts["bestmove"]
                s_.send(pos)
                s_.send(g)
                if not s_.wait_count("bestmove", nb + 1, 20):
                    bad.append("%s | %s" % (pos, g))
                    break
        finally:
            s_.send("quit")
            s_.finish(10)
        return bad
    nprobe = len(finite) * (1 if q else 3)
    for bad in vlib.pmap(answered, list(range(nprobe)), n=6):
        for b in bad:
            chk.violation("finite-go-not-answered|" + b, "a finite go was not answered by bestmove within 20 s although no stop was sent",
                          {"session": b}, replay={"kind": "uci-script", "commands": b.split(" | ")})
    chk.cov["finite_go_probes"] = nprobe * 3
    # direction A: free-running sessions, events validated against the model
    nsess = 16 if q else 200
    sess = vlib.pmap(interactive, [(binary, chk.seed * 1000 + i, chk.outdir, 30 if q else 60) for i in range(nsess)], n=8)
    n_ev = 0
    tfiles = []
    for i, (probs, ev, sent, tp) in enumerate(sess):
        n_ev += len(ev)
        if probs:
            chk.violation(" | ".join(sent), "interactive: " + "; ".join(probs), {"sent": sent, "events": ev[-20:]},
                          replay={"kind": "uci-interactive", "seed": chk.seed * 1000 + i})
        rows = []
        for e in ev:
            a, w = e.split(":")
            rows.append({"k": a[0], "id": int(a[1:]) if a[0] == "S" else 0, "w": w})
        p = os.path.join(chk.outdir, "free-%d.ndjson" % i)
        vlib.write_ndjson(p, rows)
        tfiles.append((p, sent))

    def validate(x):
        p, sent = x
        if os.path.getsize(p) == 0:
            return None, p, sent
        t = vlib.tlc("Trace_Uci", env={"TRACE": p}, timeout=600, xmx="2g", dfs=True)
        if t.error or not t.stats("uci-trace"):
            raise vlib.ToolError("Trace_Uci: " + (t.error or t.stdout[-1500:]))
        return t, p, sent
    accepted = 0
    for t, p, sent in vlib.pmap(validate, tfiles, n=8):
        if t is None:
            continue
        if t.viols("C05T"):
            chk.drift.append({"what": "event-log-not-a-model-behaviour", "detail": t.viols("C05T")[0], "source": p})
        else:
            accepted += 1
    if accepted == 0:
        raise vlib.ToolError("no free-running trace was accepted by Uci.tla: binding broken")
    chk.cov.update({
        "traces_validated_against_impl": accepted,
        "forced_schedule_paths": len(paths), "graph_edges": len(edges), "graph_edges_covered": len(covered_edges),
        "graph_edges_uncovered_after_limit": left, "graph_states": len(nodes),
        "evaluations": len(paths) + nsess, "distinct_nontrivial": len(paths),
        "scheduled_steps": n_steps, "free_running_events": n_ev,
        "rule": "Uci.tla model-checked exhaustively for unbounded command histories (safety, deadlock, liveness under weak fairness); "
                "its bounded state graph (<= %d commands) dumped, an edge cover of paths computed, every path forced label for label on "
                "the hooked binary (then stop/isready/quit free-running) with a %ss watchdog; free-running protocol-conforming sessions "
                "with random timing whose hook event logs must be behaviours of Uci.tla. non-trivial = distinct forced interleavings" % (4 if q else 6, WATCHDOG),
    })
    chk.assumptions += ["a hang is detected by a %ss watchdog (a deadlock is permanent)" % WATCHDOG,
                        "searches in forced schedules are depth-1 or infinite; the interleaving is what is enumerated, not the search"]
    return chk.finish()
