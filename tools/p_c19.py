"""C19 The transposition table never confuses positions and keeps honest statistics.

Three kinds of TLC run (DESIGN.md 2.4):
  1. MC_TransTable  - bounded exhaustive CodeView => PropertyView.  One configuration in which it must
     hold (every size has slots, fewer than GenMod searches between emptyings), and the "as coded"
     configurations in which TLC is expected to find counterexamples (zero-slot table, overflow of the
     search counter, age aliasing after a full wrap).  Every counterexample is replayed on the real
     table: reproduced -> VIOLATION, not reproduced -> DRIFT (the CodeView no longer describes the code).
  2. Direction B: MC_TransTable!GenSpec -simulate chooses operation sequences; they are executed on
     the real table (model embedded: 3 / 2 / 0 slots -> 3 MB / 2 MB / 0 MB, keys k * 65536 + c, every
     model search = 64 real searches so that ages alias exactly when the model's do) and compared with
     the contents the specification expects (DRIFT) and validated by Trace_TransTable (VIOLATION).
  3. Direction A: random operation sequences on the real table in the checked (dev) and the optimised
     (opt) build, validated by Trace_TransTable: PropertyView mismatch -> VIOLATION, CodeView -> DRIFT.
"""
import os, sys, json, re, subprocess
import vlib, games
from vlib import ToolError

PID = "C19"
REAL_GENMOD = 256
MODEL_GENMOD = 4
SCALE = REAL_GENMOD // MODEL_GENMOD          # one model search = 64 real searches
MODEL_SIZE_MB = {0: 0, 1: 3, 2: 2}           # model size setting -> megabytes (3 slots ~ 3*2^16, 2 slots ~ 2^17)
# CodeView knob: does `generation += 1` panic in the checked build?  It did in the code as first examined
# (F3: the 256th new_generation panicked in the dev build, found by this check); since /repo fec6e7e
# ("transposition table generation wraps after 255 searches") the counter wraps in every build.  With True
# the MC configuration `overflow` is run and its counterexample replayed on the dev build.
OVERFLOW_PANICS_WHEN_CHECKED = False
GEN_OVERFLOW = "panic" if OVERFLOW_PANICS_WHEN_CHECKED else "wrap"


# ------------------------------------------------------------------------------------------ helpers
def advertised_hash_range():
    """What the engine itself advertises: `option name Hash type spin default d min a max b`."""
    eng = vlib.build_engine("dev")
    r = subprocess.run([eng], input="uci\nquit\n", stdout=subprocess.PIPE, stderr=subprocess.PIPE, text=True,
                       timeout=60)
    m = re.search(r"option name Hash type spin default (\d+) min (\d+) max (\d+)", r.stdout)
    if not m:
        raise ToolError("engine does not advertise a Hash option: " + r.stdout[-500:])
    return int(m.group(1)), int(m.group(2)), int(m.group(3))


def limbs(k):
    return [k & 0xffff, (k >> 16) & 0xffff, (k >> 32) & 0xffff, (k >> 48) & 0xffff]


def model_pool(c):
    """Real keys for the model keys 0..4: k*65536 + c is congruent to (k mod 3)*65536 + c at 3*2^16 slots
    and to (k mod 2)*65536 + c at 2^17 slots; the multiple of 3*2^17 on top puts different bits above
    bit 32 into every key without moving it."""
    return [c + k * 65536 + k * (3 << 17) * (1 << 24) for k in range(5)]


def pool_line(keys, hmin, hmax, profile):
    return {"op": "pool", "keys": [limbs(k) for k in keys], "hash_min": hmin, "hash_max": hmax, "profile": profile}


def model_op_to_real(ret):
    op = ret["op"]
    if op == "new":
        return {"op": "new", "n": MODEL_SIZE_MB[ret["n"]]}
    if op == "insert":
        d = ret["d"]
        return {"op": "insert", "k": ret["k"] + 1, "bound": d["bound"], "depth": d["depth"], "tag": d["tag"],
                "mv": d["mv"]}
    if op == "probe":
        return {"op": "probe", "k": ret["k"] + 1}
    if op == "newsearch":
        return {"op": "newsearch", "times": SCALE * ret.get("times", 1)}
    if op == "reset":
        return {"op": "reset"}
    if op == "resize":
        return {"op": "resize", "n": MODEL_SIZE_MB[ret["n"]]}
    raise ToolError("unknown model operation %r" % (ret,))


def op_text(o):
    op = o["op"]
    if op in ("new", "resize"):
        return "%s(%d)" % (op, o["n"])
    if op == "insert":
        return "insert(k%d,%s,d%d)" % (o["k"], ["exact", "upper", "lower"][o["bound"]], o["depth"])
    if op == "probe":
        return "probe(k%d)" % o["k"]
    if op == "newsearch":
        return "newsearch*%d" % o.get("times", 1)
    if op == "fill":
        return "fill(%d)" % o["cnt"]
    return op


def witness_of(d):
    """Canonical witness of a PropertyView violation: the class of operation history that shows it."""
    w, det = d.get("what"), d.get("detail") or {}
    if w == "crash":
        if det.get("slots") == 0 and det.get("op") != "newsearch":
            return "zero-slot-table|Hash=%s|op=%s" % (det.get("size"), det.get("op"))
        if det.get("op") == "newsearch" and det.get("gen") == REAL_GENMOD - 1:
            return "search-counter-overflow|new_generation #%d since the table was emptied|%s" % (
                REAL_GENMOD, det.get("msg"))
        return "crash|op=%s|size=%s|%s" % (det.get("op"), det.get("size"), det.get("msg"))
    if w == "earlier-search-entry-kept":
        dist = det.get("distance", 0)
        if dist and dist % REAL_GENMOD == 0:
            return "earlier-search-entry-kept|searches in between = multiple of %d (same 8-bit age)" % REAL_GENMOD
        return "earlier-search-entry-kept|searches in between not a multiple of %d" % REAL_GENMOD
    if w in ("exact-entry-displaced", "insert-not-stored", "insert-stores-something-else",
             "insert-disturbs-other-slot"):
        old, new = det.get("old") or [], det.get("new") or []
        rel = ""
        if old and new:
            rel = "|old=%s,new=%s,%s" % (["exact", "upper", "lower"][old[1]], ["exact", "upper", "lower"][new[1]],
                                         "deeper" if new[2] > old[2] else "not-deeper")
        return w + rel + ("|same-key" if old and new and old[0] == new[0] else "")
    if w == "fill-indicator":
        true = 1000 * det.get("filled", 0) // max(1, det.get("slots", 1))
        return "fill-indicator|reported permille %s the fraction of occupied slots" % (
            "below" if det.get("permille", 0) < true else "above")
    if w in ("two-keys-in-one-slot", "probe-returns-wrong-data"):
        return w
    return "%s|%s" % (w, json.dumps({k: v for k, v in det.items() if k in ("op", "n")}, sort_keys=True))


def event_to_op(e):
    keep = {"new": ["n"], "insert": ["k", "bound", "depth", "tag", "mv"], "probe": ["k"], "newsearch": ["times"],
            "reset": [], "resize": ["n"], "fill": ["from", "cnt"]}
    o = {"op": e["op"]}
    for f in keep[e["op"]]:
        o[f] = e[f]
    return o


def episode_ops(trace_path, line, cap=4000):
    """The operation history of the episode (from the last fresh table) that ends at `line` (1-based)."""
    rows = []
    with open(trace_path) as f:
        for i, x in enumerate(f, 1):
            if i > line:
                break
            rows.append(x)
    head = json.loads(rows[0])
    start = max(i for i, x in enumerate(rows) if i >= 1 and '"op":"new"' in x[:14])
    evs = [json.loads(x) for x in rows[start:]]
    if len(evs) > cap:
        return None, head
    return [event_to_op(e) for e in evs], head


# ------------------------------------------------------------------------------------------ pipeline pieces
class Ctx:
    pass


def validate(cx, path, label):
    """Trace_TransTable on one recorded file -> (TlcResult, stats)."""
    t = vlib.tlc("Trace_TransTable", env={"TRACE": path, "GEN_OVERFLOW": GEN_OVERFLOW}, timeout=3000, xmx="3g")
    st, cnt = t.stats("tt"), t.stats("ttcounts")
    if t.error or not st or not cnt:
        raise ToolError("Trace_TransTable failed on %s: %s" % (path, (t.error or t.stdout[-1500:])))
    if st[0]["diameter"] != st[0]["events"] + 2:
        raise ToolError("trace %s not fully consumed: %s" % (path, st[0]))
    if t.viols("TRACE"):
        raise ToolError("malformed trace %s: %s" % (path, t.viols("TRACE")[0]))
    t.path, t.label = path, label
    return t, st[0], cnt[0]


def take(cx, t, profile, source):
    """VIOL / DRIFT reports of one validated file into the check."""
    chk = cx.chk
    got = []
    for d in t.viols(PID):
        w = witness_of(d)
        got.append((d.get("what"), w))
        key = (d.get("what"), w)
        if key in cx.seen:
            continue
        cx.seen.add(key)
        cx.keep.add(t.path)
        ops, head = episode_ops(t.path, d.get("at"))
        hist = " · ".join(op_text(o) for o in ops[-12:]) if ops else None
        chk.violation(w, d.get("what"),
                      {"report": d, "source": source, "profile": profile, "trace": t.path, "line": d.get("at"),
                       "last_operations": hist},
                      replay={"kind": "tt-ops", "profile": profile, "trace": t.path, "line": d.get("at"),
                              "pool": head, "ops": ops})
    for d in t.drifts(PID):
        chk.drift.append({"what": d.get("what"), "detail": d.get("detail"), "source": "%s %s" % (source, t.path)})
    return got


def run_ops(cx, profile, keys, ops, name):
    """Executes an operation list on the real table (harness tt replay) -> path of the recorded events."""
    chk = cx.chk
    opsf = os.path.join(chk.outdir, name + ".ops.ndjson")
    out = os.path.join(chk.outdir, name + ".ndjson")
    vlib.write_ndjson(opsf, [pool_line(keys, cx.hmin, cx.hmax, profile)] + ops)
    o = json.loads(vlib.harness(cx.bins[profile], ["tt", "replay", opsf, out], timeout=1200))
    return out, o


def mc_cfg(cx, name, sizes, maxlen, maxsearch, checked, prop="PVHolds", nkeys=5, depths="{0, 1, 2}"):
    p = os.path.join(cx.chk.outdir, "MC_%s.cfg" % name)
    with open(p, "w") as f:
        f.write("CONSTANTS\n  Keys <- MCKeys\n  N <- MCN\n  SlotOf <- MCSlotOf\n  NKeys = %d\n  GenMod = %d\n"
                % (nkeys, MODEL_GENMOD))
        f.write("  Checked = %s\n  Sizes = {%s}\n  Depths = %s\n  Tags = {0}\n  MaxLen = %d\n  MaxSearch = %d\n"
                % ("TRUE" if checked else "FALSE", ", ".join(str(s) for s in sizes), depths, maxlen, maxsearch))
        f.write("SPECIFICATION Spec\nVIEW View\nCONSTRAINT Bound\nINVARIANT NoCrash\nINVARIANT Inv\nPROPERTY %s\n"
                "CHECK_DEADLOCK FALSE\n" % prop)
    return p


def counterexample(path):
    """Operation labels of a TLC -dumpTrace json counterexample."""
    d = json.load(open(path))["counterexample"]
    states = {}
    for tr in d.get("action", []):
        for idx, s in (tr[0], tr[2]):
            states[idx] = s
    for idx, s in d.get("state", []):
        states[idx] = s
    return [states[i]["ret"] for i in sorted(states)], states[max(states)]


def mc_run(cx, name, cfg, workers, expect_error, coverage=False):
    dump = os.path.join(cx.chk.outdir, "MC_%s.ce.json" % name)
    extra = ["-dumpTrace", "json", dump]
    if coverage:
        extra += ["-coverage", "1"]
    r = vlib.tlc("MC_TransTable", cfg=cfg, workers=workers, timeout=3000, xmx="3g", extra=extra, dfs=False)
    r.name, r.ce = name, None
    if r.error:
        m = re.search(r"Error: (Invariant (\w+) is violated|Action property (\w+) is violated)", r.stdout)
        if not m or not os.path.exists(dump):
            raise ToolError("MC_TransTable[%s]: %s" % (name, r.error[:1500]))
        r.broken = m.group(2) or m.group(3)
        r.ce = counterexample(dump)
        if not expect_error:
            hist = " · ".join(op_text(model_op_to_real(x)) for x in r.ce[0][1:])
            raise ToolError("MC_TransTable[%s]: CodeView violates %s where it is expected to hold (a statement about the "
                            "specification's transcription of the code; it needs a human): %s" % (name, r.broken, hist))
    elif not r.ok:
        raise ToolError("MC_TransTable[%s] did not finish: %s" % (name, r.stdout[-1500:]))
    return r


# ------------------------------------------------------------------------------------------ replay of one recorded violation
def replay_mode(path):
    rp = json.load(open(path))
    spec = rp.get("replay") or {}
    if spec.get("kind") != "tt-ops" or not spec.get("ops"):
        vlib.log("replay file carries no operation list; re-run ./check C19 --tier %s --seed %s" % (rp.get("tier"), rp.get("seed")))
        return 2
    profile = spec["profile"]
    hb = vlib.build_harness(profile)
    d = os.path.join(vlib.OUT, PID + "-replay")
    os.makedirs(d, exist_ok=True)
    opsf, out = os.path.join(d, "ops.ndjson"), os.path.join(d, "events.ndjson")
    vlib.write_ndjson(opsf, [spec["pool"]] + spec["ops"])
    vlib.harness(hb, ["tt", "replay", opsf, out])
    t = vlib.tlc("Trace_TransTable", env={"TRACE": out, "GEN_OVERFLOW": GEN_OVERFLOW}, timeout=3000, xmx="3g")
    if t.error or not t.stats("tt"):
        raise ToolError("Trace_TransTable failed on replay: %s" % (t.error or t.stdout[-1500:]))
    hit = [x for x in t.viols(PID) if witness_of(x) == rp["witness"]]
    for x in t.viols(PID):
        vlib.log("  %s at event %s: %s" % (x.get("what"), x.get("at"), json.dumps(x.get("detail"))[:300]))
    if hit:
        print("VIOLATION property=%s replay=%s" % (PID, path))
        return 1
    vlib.log("[C19] replay: the recorded violation is not reproduced (%d other violations)" % len(t.viols(PID)))
    return 0


# ------------------------------------------------------------------------------------------ the table inside the real search
def in_search_phase(cx):
    """Sessions of real searches on one shared table each (hook H9): every probe / insert / new search of the tree search is a
    step of TransTable's own actions in Trace_TableInSearch (set-valued PropertyView state next to the CodeView table)."""
    import searches
    chk, q = cx.chk, cx.chk.quick
    rng = chk.rng
    roots = searches.root_positions()
    rng.shuffle(roots)
    D = 6 if q else 8
    nfiles = 6 if q else 16
    files = []
    for f in range(nfiles):
        a, b, c = roots[(3 * f) % len(roots)], roots[(3 * f + 1) % len(roots)], roots[(3 * f + 2) % len(roots)]
        jobs = [
            # one position deepened search by search, another one in between, the first again (entries of earlier searches
            # are met and must give way), a new game, the first once more
            {"hash": 1, "tag": "deepen", "searches": [{"pos": a, "depth": d} for d in range(1, D + 1)] +
             [{"pos": b, "depth": D}, {"pos": a, "depth": D}, {"pos": a, "depth": D - 1, "newgame": True}, {"pos": b, "depth": D - 1}]},
            # many short searches: the generation moves on quickly
            {"hash": 1, "tag": "short", "searches": [{"pos": (a, b, c)[i % 3], "depth": 2 + (i % 3)} for i in range(24 if q else 60)]},
            # the Hash option between searches: another size (empties), the same size again (keeps), back (empties)
            {"hash": 1, "tag": "resize", "searches": [{"pos": b, "depth": D - 1}, {"pos": b, "depth": D - 2, "resize": 2},
                                                      {"pos": b, "depth": D - 1, "resize": 2}, {"pos": c, "depth": D - 2},
                                                      {"pos": b, "depth": D - 1, "resize": 1}, {"pos": b, "depth": D - 2}]},
            # a search stopped inside the tree, then the same position again on the same table
            {"hash": 1, "tag": "stopped", "searches": [{"pos": c, "depth": D + 1, "stopk": 2}, {"pos": c, "depth": D - 1}]},
        ]
        files.append(jobs)

    def one(ij):
        i, jobs = ij
        jf = os.path.join(chk.outdir, "insearch_%d.jobs" % i)
        ef = os.path.join(chk.outdir, "insearch_%d.nodes" % i)
        tf = os.path.join(chk.outdir, "insearch_%d.table.ndjson" % i)
        vlib.write_ndjson(jf, jobs)
        o = json.loads(vlib.harness(cx.bins["dev" if i % 2 == 0 else "opt"], ["nodes", jf, ef, tf, 120 if q else 300], timeout=3000))
        t = vlib.tlc("Trace_TableInSearch", env={"TRACE": tf}, timeout=3000, xmx="3g")
        if t.error or not t.ok or not t.stats("tableinsearch") or t.viols("TRACE"):
            raise ToolError("Trace_TableInSearch did not accept the whole of %s: %s" % (tf, t.error or t.viols("TRACE") or t.stdout[-1500:]))
        t.path = tf
        return o, t
    tot, ops, written, keys, slots = {}, 0, 0, 0, 0
    complete = True
    for o, t in vlib.pmap(one, list(enumerate(files)), n=min(16, nfiles)):
        hd = json.loads(open(t.path).readline())
        complete = complete and hd["complete"]
        ops += o["table"]["operations"]
        written += o["table"]["written"]
        st = t.stats("tableinsearch")[0]
        keys += st["keys"]
        slots += st["slots"]
        for k, v in t.stats("tablecounts")[0].items():
            tot[k] = tot.get(k, 0) + v
        for d in t.viols(PID):
            # data the recorded inserts do not explain proves nothing when the hooks did not see every insert
            if not hd["complete"] and d["what"] == "probe-returns-data-never-stored-under-this-key":
                chk.drift.append({"what": "in-search-" + d["what"] + "-but-inserts-incomplete", "detail": d.get("detail"), "source": t.path})
                continue
            det = d.get("detail", {})
            chk.violation("in-search|%s|key %s|slot %s|got %s" % (d["what"], det.get("key"), det.get("slot"), det.get("got")),
                          "in-search-" + d["what"], {"report": d, "trace": t.path, "line": d.get("at")},
                          replay={"kind": "table-in-search", "trace": t.path, "line": d.get("at")})
        for d in t.drifts(PID):
            chk.drift.append({"what": "in-search-" + d["what"], "detail": d.get("detail"), "source": t.path})
        chk.add("traces_validated_against_impl", 1)
    if not complete:
        chk.drift.append({"what": "in-search-insert-sites-the-hooks-do-not-cover",
                          "detail": "the tables counted more inserts than the search's recorded call sites made"})
    for k in ("tables", "resets", "resizes", "newsearches", "fills", "inserts", "forced", "free", "free_other_key", "probes", "hits",
              "hits_earlier_search", "misses_other_key"):
        if tot.get(k, 0) == 0:
            raise ToolError("vacuous in-search run: no '%s' in %s" % (k, tot))
    chk.cov["table_inside_the_search"] = {"files": nfiles, "table_operations_of_the_searches": ops, "operations_on_tracked_slots": written,
                                          "keys": keys, "slots": slots, "steps": tot, "all_inserts_recorded": complete, "max_depth": D + 1}
    return written



# ------------------------------------------------------------------------------------------ main
def main():
    if os.environ.get("VERIF_REPLAY"):
        return replay_mode(os.environ["VERIF_REPLAY"])
    chk = vlib.Check(PID, "model_checking")
    q = chk.quick
    cx = Ctx()
    cx.chk, cx.seen, cx.keep = chk, set(), set()
    cx.bins = {"dev": vlib.build_harness("dev"), "opt": vlib.build_harness("opt")}
    default, cx.hmin, cx.hmax = advertised_hash_range()
    info = {p: json.loads(vlib.harness(b, ["tt", "info"])) for p, b in cx.bins.items()}
    if not info["dev"]["checked"] or info["opt"]["checked"]:
        raise ToolError("harness profiles are not (checked, unchecked): %s" % info)
    zero_slots = cx.hmin * 1048576 // info["dev"]["entry_bytes"] == 0      # the smallest advertised size has no slot
    model_sizes = [1, 2] + ([0] if zero_slots else [])
    small = sorted({cx.hmin, max(cx.hmin, 1)})

    # ---------------------------------------------------------------- job list
    jobs = []

    # 1. model checking.  ANY = no bound on the number of operations: every configuration below except
    #    `cover` has a finite state space (the search number is bounded by MaxSearch or by the crash), so
    #    TLC explores operation sequences of every length.  (The level bound is only used single-worker:
    #    with several workers TLC's level of a state is not its breadth-first distance.)
    ANY = 1000
    G = MODEL_GENMOD
    jobs.append(("mc", dict(name="cover", cfg=mc_cfg(cx, "cover", [1, 2], 4, G - 1, True), workers=1,
                            expect_error=False, coverage=True)))
    jobs.append(("mc", dict(name="holds", cfg=mc_cfg(cx, "holds", [1, 2], ANY, G - 1, True,
                                                     depths="{0, 1}" if q else "{0, 1, 2}"),
                            workers=4 if q else 6, expect_error=False)))
    if zero_slots:
        jobs.append(("mc", dict(name="zero-slot", cfg=mc_cfg(cx, "zero", [0, 1, 2], ANY, G - 1, True),
                                workers=1, expect_error=True)))
    if OVERFLOW_PANICS_WHEN_CHECKED:
        jobs.append(("mc", dict(name="overflow", cfg=mc_cfg(cx, "overflow", [1, 2], ANY, 1000, True),
                                workers=1, expect_error=True)))
    jobs.append(("mc", dict(name="aliasing", cfg=mc_cfg(cx, "aliasing", [1, 2], ANY, G + 1, False),
                            workers=3, expect_error=True)))
    if q:
        oa = mc_cfg(cx, "onlyalias", [1], ANY, G + 1, False, prop="PVHoldsUpToAliasing", nkeys=4, depths="{0, 1}")
    else:
        oa = mc_cfg(cx, "onlyalias", [1, 2], ANY, G + 1, False, prop="PVHoldsUpToAliasing")
    jobs.append(("mc", dict(name="only-aliasing", cfg=oa, workers=4 if q else 6, expect_error=False)))

    # 2. direction B: TLC chooses the operations
    ngen = 1 if q else 8
    for i in range(ngen):
        for checked in (True, False):
            jobs.append(("gen", dict(i=i, checked=checked, num=60 if q else 400, steps=40)))

    # 3. direction A: random operation sequences on the real table
    wrap = "1,1,1,2,3,64,192,255,256"
    calm = "1,1,1,1,2,3"
    sizes_all = ",".join(str(s) for s in sorted({cx.hmin, 1, 2, 3, 16}) if cx.hmin <= s <= cx.hmax)
    sizes_small = ",".join(str(s) for s in sorted({cx.hmin, 1, 3}) if cx.hmin <= s <= cx.hmax)
    sizes_pos = ",".join(str(s) for s in (1, 2, 3, 16) if max(cx.hmin, 1) <= s <= cx.hmax)
    plans = []
    if q:
        plans += [("dev", sizes_pos, 2500, calm, "55,10,20,2,4,9"), ("dev", sizes_small, 1500, wrap, "50,10,30,2,3,5"),
                  ("opt", sizes_pos, 2500, wrap, "50,10,28,1,2,9"), ("opt", sizes_small, 1500, wrap, "55,10,20,2,4,9")]
    else:
        for i in range(48):
            prof = "dev" if i % 2 == 0 else "opt"
            kind = (i // 2) % 4
            if kind == 0:
                plans.append((prof, sizes_pos, 20000, calm if prof == "dev" else wrap, "55,10,20,2,4,9"))
            elif kind == 1:
                plans.append((prof, sizes_pos, 20000, wrap, "50,10,30,1,1,8"))
            elif kind == 2:
                plans.append((prof, sizes_all, 20000, wrap, "55,10,20,2,4,9"))
            else:
                plans.append((prof, "1", 20000, "1,1,2,5,17,64,255", "60,8,25,1,0,6"))
        # once per build: the largest advertised size (1 GiB of table at Hash=1024)
        plans.append(("dev", "%d,1" % cx.hmax, 300, wrap, "55,10,20,3,4,8"))
        plans.append(("opt", "%d,1" % cx.hmax, 300, wrap, "55,10,20,3,4,8"))
    for i, pl in enumerate(plans):
        jobs.append(("random", dict(i=i, profile=pl[0], sizes=pl[1], events=pl[2], bursts=pl[3], mix=pl[4])))

    # 4. directed histories (deterministic, both builds): the smallest advertised size is used like any
    #    other; 600 searches without a reset with colliding inserts around every multiple of 256
    for prof in ("dev", "opt"):
        jobs.append(("directed", dict(profile=prof)))

    # ---------------------------------------------------------------- workers
    def do_mc(a):
        return mc_run(cx, a["name"], a["cfg"], a["workers"], a["expect_error"], a.get("coverage", False))

    def do_gen(a):
        cfg = os.path.join(chk.outdir, "Gen_%d_%s.cfg" % (a["i"], a["checked"]))
        with open(cfg, "w") as f:
            f.write("CONSTANTS\n  Keys <- MCKeys\n  N <- MCN\n  SlotOf <- MCSlotOf\n  GenMod = %d\n  Checked = %s\n"
                    "  Sizes = {%s}\n  NKeys = 5\n  Depths = {0, 1, 2}\n  Tags = {1, 2, 3, 4, 5, 6, 7, 8, 9}\n  MaxLen = %d\n"
                    "  MaxSearch = 100000\nSPECIFICATION GenSpec\nINVARIANT Emit\nCHECK_DEADLOCK FALSE\n"
                    % (MODEL_GENMOD, "TRUE" if a["checked"] and OVERFLOW_PANICS_WHEN_CHECKED else "FALSE",
                       ", ".join(str(s) for s in model_sizes), a["steps"]))
        g = vlib.tlc("MC_TransTable", cfg=cfg, timeout=3000, xmx="2g", dfs=False,
                     extra=["-simulate", "num=%d" % a["num"], "-depth", str(a["steps"] + 10),
                            "-seed", str(chk.seed * 977 + a["i"] * 2 + (1 if a["checked"] else 0))])
        if g.error:
            raise ToolError("MC_TransTable!GenSpec: " + g.error[:1500])
        beh = [d["steps"] for t, d in g.reports if t == "GEN"]
        if not beh:
            raise ToolError("GenSpec produced no behaviour")
        profile = "dev" if a["checked"] else "opt"
        keys = model_pool(4242 + a["i"])
        ops, expect = [], []
        for b in beh:
            ops.append({"op": "new", "n": MODEL_SIZE_MB[1]})
            expect.append(None)
            for s in b:
                ops.append(model_op_to_real(s["ret"]))
                expect.append(s)
        out, o = run_ops(cx, profile, keys, ops, "gen_%d_%s" % (a["i"], profile))
        # the specification's expectation, step by step (CodeView: a difference is drift)
        diffs = []
        n, j = 0, 0
        with open(out) as f:
            next(f)
            for e in (json.loads(l) for l in f):
                n += 1
                if j >= len(expect):
                    raise ToolError("replay of generated behaviours: more events than operations")
                x = expect[j]
                j += 1
                crash = x is not None and x["st"] != "ok"
                if e["out"] != "ok":
                    # the harness drops the rest of the behaviour after a panic
                    while j < len(expect) and expect[j] is not None:
                        j += 1
                if x is None:
                    continue
                if crash != (e["out"] != "ok"):
                    diffs.append({"event": n + 1, "what": "crash", "spec": x["st"], "code": e["out"]})
                    continue
                if crash or MODEL_SIZE_MB[x["size"]] == 0:
                    continue
                want = [[c["bound"], c["depth"], (c["age"] * SCALE) % REAL_GENMOD if c["age"] >= 0 else -1, c["tag"], c["mv"]]
                        for c in (x["c"][str(k)] for k in range(5))]
                if want != e["c"] or x["occ"] != e["occ"] or (x["gen"] * SCALE) % REAL_GENMOD != e["gen"]:
                    diffs.append({"event": n + 1, "what": "content", "spec": [want, x["occ"], x["gen"] * SCALE],
                                  "code": [e["c"], e["occ"], e["gen"]]})
        if j != len(expect):
            raise ToolError("replay of generated behaviours lost events: %d of %d operations consumed" % (j, len(expect)))
        t, st, cnt = validate(cx, out, "gen")
        return dict(kind="gen", profile=profile, t=t, st=st, cnt=cnt, behaviours=len(beh), diffs=diffs,
                    sample=[op_text(o) for o in ops[1:14]])

    def do_random(a):
        out = os.path.join(chk.outdir, "rand_%02d_%s.ndjson" % (a["i"], a["profile"]))
        targs = ["tt", "random", "--seed", chk.seed * 1000 + a["i"], "--events", a["events"],
                 "--sizes", a["sizes"], "--bursts", a["bursts"], "--mix", a["mix"], "--out", out,
                 "--hash-min", cx.hmin, "--hash-max", cx.hmax, "--profile", a["profile"]]
        try:
            o = json.loads(vlib.harness(cx.bins[a["profile"]], targs, timeout=1800))
        except vlib.HarnessCrash as ex:
            # the table took the whole process down (abort / segfault rather than an unwinding panic): that is data
            done, last = 0, None
            if os.path.exists(out):
                for line in open(out):
                    done, last = done + 1, line[:300]
            return dict(kind="crash", profile=a["profile"], signal=-ex.returncode, stderr=ex.stderr.strip()[-300:],
                        events_before=done, last_event=last, args=[str(x) for x in targs])
        t, st, cnt = validate(cx, out, "random")
        return dict(kind="random", profile=a["profile"], t=t, st=st, cnt=cnt, harness=o, sizes=a["sizes"])

    def do_directed(a):
        prof = a["profile"]
        # at 3 MB: k1,k4 share slot A, k2,k5 share slot B, k3 has slot C; at 1 MB all five share one slot
        keys = model_pool(77)
        ops = []
        for sz in small:
            ops += [{"op": "new", "n": sz}, {"op": "newsearch", "times": 1},
                    {"op": "insert", "k": 1, "bound": 0, "depth": 3, "tag": 11, "mv": -1},
                    {"op": "probe", "k": 1}, {"op": "probe", "k": 2}, {"op": "reset"}, {"op": "resize", "n": sz}]
        tag = 100
        for rnd in range(2):
            ops.append({"op": "new", "n": 3})
            for lap in range(2):
                tag += 10
                ops.append({"op": "insert", "k": 1, "bound": 0, "depth": 5, "tag": tag, "mv": 528})       # exact, deep
                ops.append({"op": "insert", "k": 2, "bound": 0, "depth": 5, "tag": tag + 1, "mv": -1})
                ops.append({"op": "insert", "k": 3, "bound": 0, "depth": 5, "tag": tag + 2, "mv": -1})
                # lower bound, shallow, colliding: 255, 256 and 257 searches later
                for burst, k, b in ((255, 5, 2), (1, 4, 2), (1, 3, 1)):
                    ops.append({"op": "newsearch", "times": burst})
                    tag += 1
                    ops.append({"op": "insert", "k": k, "bound": b, "depth": 0, "tag": tag + 2, "mv": -1})
                    ops.append({"op": "probe", "k": k})
        out, o = run_ops(cx, prof, keys, ops, "directed_" + prof)
        t, st, cnt = validate(cx, out, "directed")
        return dict(kind="directed", profile=prof, t=t, st=st, cnt=cnt)

    def one(job):
        kind, a = job
        return {"mc": do_mc, "gen": do_gen, "random": do_random, "directed": do_directed}[kind](a)

    # model-checking jobs first (they are the long ones), 16 cores: at most 10 jobs at a time
    results = vlib.pmap(one, jobs, n=10)

    # ---------------------------------------------------------------- model-checking results
    mc = {r.name: r for r in results if isinstance(r, vlib.TlcResult)}
    cover = mc["cover"]
    for act in ("MCInsert", "MCProbe", "MCNewSearch", "MCReset", "MCResize"):
        if sum(cover.coverage.get(act, (0, 0))) == 0:
            raise ToolError("MC_TransTable: action %s never taken (vacuous model): %s" % (act, cover.coverage))
    chk.cov["states"] = mc["holds"].distinct
    chk.cov["transitions"] = mc["holds"].states
    chk.cov["mc"] = {n: {"distinct": r.distinct, "generated": r.states, "depth": r.depth,
                         "result": ("violates " + r.broken) if r.ce else "holds"} for n, r in mc.items()}
    chk.cov["mc_actions_taken"] = {a: cover.coverage[a][0] for a in cover.coverage if a.startswith("MC")}

    # every counterexample of the as-coded configurations goes to the real table
    ces = []
    for name in ("zero-slot", "overflow", "aliasing"):
        r = mc.get(name)
        if r is None:
            continue
        if r.ce is None:
            chk.drift.append({"what": "mc-configuration-%s-finds-no-counterexample" % name, "detail": None,
                              "source": "MC_TransTable"})
            continue
        labels, last = r.ce
        ops = [model_op_to_real(x) for x in labels]
        profile = "opt" if name == "aliasing" else "dev"
        out, o = run_ops(cx, profile, model_pool(9), ops, "ce_" + name)
        t, st, cnt = validate(cx, out, "mc-counterexample")
        got = take(cx, t, profile, "counterexample of MC_TransTable[%s]" % name)
        want = "crash" if r.broken == "NoCrash" else "earlier-search-entry-kept"
        repro = any(w == want for w, _ in got)
        ces.append({"configuration": name, "violated": r.broken, "model_operations": [op_text(x) for x in ops],
                    "replayed_on": profile, "reproduced_on_real_table": repro})
        if not repro:
            chk.drift.append({"what": "mc-counterexample-not-reproduced", "detail": ces[-1], "source": "MC_TransTable"})
        chk.add("traces_validated_against_impl", 1)
    chk.cov["mc_counterexamples"] = ces

    # ---------------------------------------------------------------- traces
    tot = {}
    events = 0
    by = {"random": 0, "gen": 0, "directed": 0}
    sizes_seen, behaviours, gendiffs = set(), 0, 0
    for r in [x for x in results if isinstance(x, dict) and x.get("kind") == "crash"]:
        chk.violation("process-crash|%s|signal %d|%s" % (r["profile"], r["signal"], r["stderr"][-160:]),
                      "table-operation-crashed-the-process", r, replay={"kind": "tt-random", "args": r["args"]})
    results = [x for x in results if not (isinstance(x, dict) and x.get("kind") == "crash")]
    for r in results:
        if not isinstance(r, dict):
            continue
        take(cx, r["t"], r["profile"], r["kind"])
        if not q and r["kind"] == "random" and r["t"].path not in cx.keep and not r["t"].drifts(PID):
            os.remove(r["t"].path)          # 8 MB each; traces named by a recorded violation or with drift stay
        for k, v in r["cnt"].items():
            tot[k] = tot.get(k, 0) + v
        events += r["st"]["events"]
        by[r["kind"]] += r["st"]["events"]
        sizes_seen |= set(r["st"]["sizes"])
        chk.add("traces_validated_against_impl", 1)
        if r["kind"] == "gen":
            behaviours += r["behaviours"]
            gendiffs += len(r["diffs"])
            for d in r["diffs"][:5]:
                chk.drift.append({"what": "generated-behaviour-differs-" + d["what"], "detail": d, "source": r["t"].path})
            chk.sample({"source": "TLC-generated (GenSpec), replayed on the %s build" % r["profile"], "ops": r["sample"]})
    insearch = in_search_phase(cx)
    events += insearch
    by["in_search"] = insearch
    # vacuity: every kind of operation and every kind of replacement decision must have occurred
    for k in ("tables", "inserts", "forced", "forbidden", "free", "probes", "hits", "newsearches", "wraps", "resets",
              "resizes", "fills"):
        if tot.get(k, 0) == 0:
            raise ToolError("vacuous run: no '%s' in %s" % (k, tot))
    if by["gen"] == 0 or by["random"] == 0 or by["directed"] == 0:
        raise ToolError("vacuous run: %s" % by)
    decided = tot["forced"] + tot["forbidden"] + tot["free"] + tot["aliased"]
    chk.cov.update({
        "evaluations": events, "distinct_nontrivial": decided, "trace_events": events, "events_by_source": by,
        "operations": tot, "sizes_mb": sorted(sizes_seen), "advertised_hash": {"default": default, "min": cx.hmin, "max": cx.hmax},
        "replayed_behaviours": {"behaviours": behaviours, "content_differences": gendiffs},
        "rule": "every operation (new/insert/probe/newsearch/reset/resize/fill) executed on the real "
                "TranspositionTable<SearchTranspositionTableData> in the checked (dev) and the optimised (opt) build is a step of "
                "Trace_TransTable: successor taken from get() on every key of a pool built to collide (slot + j*entries, keys equal "
                "below bit 32 / bit 48), PVStep (probe only under the same key, latest admitted insert, forced / forbidden / free "
                "admission on the true search number, reset and size-changing resize empty the table, permille = floor(1000*filled/slots) "
                "+-1, no panic) => VIOLATION, CodeStep => DRIFT. non-trivial = inserts into an occupied slot, where the replacement "
                "policy decides (forced + forbidden + free + aliased).  In addition (table_inside_the_search): every probe / insert / "
                "new search that REAL searches perform on their table (hook H9, sessions of searches sharing one table, both builds) "
                "is a step of TransTable's own actions in Trace_TableInSearch; what each probe returned must be what some content "
                "the property allows for the slot returns (VIOLATION) and what the CodeView table returns (DRIFT); after every search the fill "
                "indicator must equal the fraction of slots that received an insert since the table was last emptied (+-1 permille)",
    })
    chk.assumptions += [
        "bounded model: 3/2%s slots, 5 keys (two colliding pairs at 3 slots), depths %s, 3 bounds, GenMod = 4 stored ages; "
        "configuration 'holds' (>= 1 slot, < GenMod searches between emptyings) and 'only-aliasing' (one full wrap of the age, "
        "PropertyView with aliased entries excused%s): complete reachable state space, operation sequences of any length"
        % ("/0" if zero_slots else "", "0..1" if q else "0..2", "; 4 keys, one size" if q else ""),
        "one entry per slot (anchors of C19); the stored age is not part of the PropertyView",
        "fill levels are reached with a Fill operation on fresh slots outside the observed pool; those entries are counted, not probed",
    ]
    return chk.finish()
