"""C08 Reported lines are playable and mate announcements are true."""
import os, json
import vlib, games, searches, nodes


def main():
    chk = vlib.Check("C08", "model_checking")
    q = chk.quick
    rng = chk.rng
    roots = searches.root_positions()
    walkp = searches.walk_positions(chk, 100 if q else 2500)
    mates = searches.mate_positions(chk, [chk.seed % 7, (chk.seed + 3) % 7] if q else list(range(7)), 40 if q else 4)
    if len(mates) < 50:
        raise vlib.ToolError("Gen_Mates produced only %d positions" % len(mates))
    m1 = [m for m in mates if m["m1"]]
    rng.shuffle(mates)
    mates = mates[:250 if q else 8000]
    jobs = []
    maxd = 6 if q else 8
    # mate-rich: each position on a fresh table at a rotating depth, then again with prior table contents:
    # a neighbouring position searched first on the same table
    for i in range(0, len(mates) - 1, 2):
        a, b = mates[i], mates[i + 1]
        jobs.append({"hash": 1, "tag": "mates-fresh", "searches": [{"pos": a, "depth": 1 + i % maxd}]})
        jobs.append({"hash": 1, "tag": "mates-warm", "searches": [{"pos": b, "depth": 3 + i % 3}, {"pos": a, "depth": 1 + (i // 2) % maxd},
                                                                   {"pos": b, "depth": 2 + i % 4}]})
    # games: the engine plays both sides of an ending on one table (the root is the previous root with the previous best move
    # played), as in any game in which the tables are kept between moves
    for i in range(0, min(len(mates), 60 if q else 1200), 2):
        d = 5 + i % 3
        jobs.append({"hash": 1, "tag": "self-play", "searches": [{"pos": mates[i], "depth": d}] +
                     [{"follow": True, "depth": 5 + (i + k) % 3} for k in range(10 if q else 24)]})
    for f in ["7k/8/4K3/8/8/8/Q7/8 b - - 0 1", "8/1k6/3K4/8/8/8/7Q/8 b - - 0 1", "8/8/1k6/3K4/8/8/7Q/8 b - - 0 1",
              "6k1/5p1p/6p1/8/8/8/1Q3PPP/3R2K1 b - - 0 1", "8/k7/3K4/8/8/8/7Q/8 b - - 0 1", "8/8/8/3k4/8/8/3K4/6R1 w - - 0 1"]:
        jobs.append({"hash": 1, "tag": "self-play-long", "searches": [{"pos": searches.fen2pos(f), "depth": 9 if q else 10}] +
                     [{"follow": True, "depth": 7} for k in range(12)]})
    # long mates: elementary endings with the kings far apart, searched deep and played out by the engine on one table - as the
    # mate comes nearer it is announced at distances 10, 9, 8, ... with lines of 16-20 plies (a line buffer or a copy that is
    # bounded somewhere below the maximal depth shows only there)
    for f in ["8/8/8/4k3/8/8/8/R3K3 w - - 0 1", "8/8/8/4k3/8/8/8/1Q2K3 w - - 0 1", "8/8/8/4k3/8/8/8/3QK3 b - - 0 1",
              "8/8/4k3/8/8/8/8/4K2R b - - 0 1", "3k4/8/8/8/4K3/8/8/7r b - - 0 1", "8/8/8/8/3k4/8/8/q3K3 w - - 0 1"] + \
             ([] if q else ["8/8/8/8/4k3/8/8/R2K4 w - - 0 1", "r3k3/8/8/8/3K4/8/8/8 b - - 0 1", "8/8/8/3k4/8/8/1Q6/K7 w - - 0 1",
                            "k7/1q6/8/8/4K3/8/8/8 b - - 0 1"]):
        dd = 16 if q else 18
        jobs.append({"hash": 1, "tag": "self-play-deep", "searches": [{"pos": searches.fen2pos(f), "depth": dd}] +
                     [{"follow": True, "depth": dd} for k in range(16 if q else 24)]})
    # best line ends in an immediately recognised draw (dead material after a capture, fifty-move rule next ply)
    draws = searches.draw_positions(chk, [chk.seed % 8, (chk.seed + 3) % 8] if q else list(range(8)), 24 if q else 3)
    rng.shuffle(draws)
    draws = draws[:300 if q else 6000]
    for i in range(0, len(draws) - 1, 2):
        jobs.append({"hash": 1, "tag": "draws", "searches": [{"pos": draws[i], "depth": 2 + i % 4}, {"pos": draws[i + 1], "depth": 1 + i % 5}]})
    pool = roots + walkp
    rng.shuffle(pool)
    for i in range(0, len(pool), 4):
        grp = pool[i:i + 4]
        jobs.append({"hash": [1, 2][i % 2], "tag": "general", "searches": [{"pos": p, "depth": 2 + (i + k) % (maxd - 1)} for k, p in enumerate(grp)]})
    # unlimited depth with a move time: depth sequence without a limit
    for i, p in enumerate(pool[:20 if q else 300]):
        jobs.append({"hash": 1, "tag": "movetime", "searches": [{"pos": p, "movetime": 10 + 5 * (i % 4)}]})
    files = []
    for prof in (("opt",) if q else ("opt", "dev")):
        for ef, hang in searches.run_jobs(chk, jobs, prof, "c08", timeout=900 if q else 3000, shards=16):
            files.append(ef)
            if hang:
                raise vlib.ToolError("search harness did not finish: %s" % hang)
    viols, stats = searches.judge(chk, files, ids=("C08",))
    for d in viols["C08"]:
        chk.violation(searches.witness(d) + "|" + json.dumps((d.get("detail") or {}).get("pv")), d["what"], d,
                      replay={"kind": "search-event", "events": d["_file"], "line": d.get("at")})
    if stats["mates"] == 0:
        raise vlib.ToolError("no mate announcement observed: vacuous")
    long_mates = 0
    for ef in files:
        with open(ef) as fh:
            for line in fh:
                if '"sk":"mate"' in line:
                    try:
                        e = json.loads(line)
                    except ValueError:
                        continue
                    for i in ([e] if "sk" in e else e.get("infos", [])):
                        if isinstance(i, dict) and i.get("sk") == "mate" and abs(i.get("sv", 0)) >= 9:
                            long_mates += 1
    if long_mates == 0:
        raise vlib.ToolError("no mate announced at a distance of nine or more moves: the long-line clause is vacuous")
    chk.cov["mate_announcements_at_distance_9_or_more"] = long_mates
    # node level: every step of every node of recorded searches replayed by Trace_Nodes.tla (lines are the move just
    # searched plus the line of the child that scored; mate / stalemate only without legal moves; reported lines are root lines)
    nv, ndrift, nstat = nodes.node_phase(chk, ("C08",), mates, draws, roots + walkp,
                                         n_mates=40 if q else 400, n_draws=20 if q else 200, n_pool=20 if q else 200)
    nstat.pop("dirty", None)
    for w, what, det, ef in nv:
        chk.violation(w, what, det, replay={"kind": "node-trace", "trace": ef, "line": det["report"].get("at"),
                                            "how": "harness `nodes <jobs> <out>` on the session of the named root; Trace_Nodes.tla on <out>"})
    chk.drift += ndrift
    if nstat["counts"].get("P", 0) == 0 or nstat["counts"].get("Z", 0) == 0:
        raise vlib.ToolError("vacuous node traces: %s" % nstat)
    chk.cov.update({
        "states": stats["infos"], "transitions": stats["infos"], "traces_validated_against_impl": len(files),
        "evaluations": stats["infos"], "distinct_nontrivial": stats["mates"],
        "search_stats": stats, "node_traces": nstat, "generated_mate_positions": len(mates), "generated_draw_positions": len(draws), "of_which_mate_in_one": len(m1),
        "rule": "every info line of every iteration: the line is replayed move by move through the rule book (each move must be legal where "
                "it is played), depths 1,2,3,... within the limit, and every 'mate n' is verified: line length 2n-1 (or 2|n|) and the final "
                "position is checkmate of the announced side. Positions: TLC-generated elementary endings near mate (fresh table and after a "
                "search of a neighbouring position), bench/perft roots, walk positions. non-trivial = searches with a mate announcement",
    })
    chk.sample({"fen": mates[0]["fen"], "family": mates[0]["fam"], "mate_in_one": mates[0]["m1"]})
    return chk.finish()
