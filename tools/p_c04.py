"""C04 A search always answers with one legal move and never crashes."""
import os, json
import vlib, games, searches, nodes


def model_check(chk, maxdepth):
    cfg = os.path.join(chk.outdir, "MC_SearchCtl.cfg")
    games.gen_cfg(cfg, {"Saturating": True, "MaxDepth": maxdepth, "MaxSearches": 2 if maxdepth > 5 else 1, "StartGen": 254 if maxdepth > 5 else 255},
                  "SPECIFICATION Spec\nINVARIANTS NoOverflow WindowSane FullWindowBrackets DepthOK\nCHECK_DEADLOCK FALSE\n")
    res = vlib.tlc("SearchCtl", cfg=cfg, workers=8, timeout=3000, xmx="10g", dfs=False)
    if res.error or not res.ok:
        raise vlib.ToolError("MC_SearchCtl (repaired arithmetic) fails: " + (res.error or res.stdout[-1500:]))
    chk.add("states", res.distinct)
    chk.add("transitions", res.states)


def build_jobs(chk, q):
    rng = chk.rng
    roots = searches.root_positions()
    walkp = searches.walk_positions(chk, 150 if q else 3000)
    mates = searches.mate_positions(chk, [chk.seed % 7] if q else list(range(7)), 60 if q else 6)
    rng.shuffle(mates)
    mates = mates[:60 if q else 3000]
    jobs = []
    # A: unrelated positions back to back, rotating depth limits and hash sizes
    pool = roots + walkp + mates
    rng.shuffle(pool)
    maxd = 5 if q else 8
    for i in range(0, len(pool), 6):
        grp = pool[i:i + 6]
        jobs.append({"hash": [1, 2, 16][(i // 6) % 3], "tag": "sweep",
                     "searches": [{"pos": p, "depth": 1 + (i + k) % maxd} for k, p in enumerate(grp)]})
    # B: time-limited searches (movetime / clocks), also with newgame in between
    for i, p in enumerate(pool[:40 if q else 600]):
        lim = [{"movetime": 1}, {"movetime": 8}, {"wtime": 40, "btime": 40}, {"wtime": 300, "btime": 300, "winc": 100, "binc": 100},
               {"wtime": 20, "btime": 20, "mtg": 1}, {"movetime": 0},
               # increment larger than the clock, an empty clock, one move to go with an increment, one millisecond
               {"wtime": 40, "btime": 40, "winc": 1000, "binc": 1000}, {"wtime": 0, "btime": 0, "winc": 30, "binc": 30},
               {"wtime": 30, "btime": 30, "winc": 200, "binc": 200, "mtg": 1}, {"wtime": 1, "btime": 1},
               {"wtime": 60, "btime": 60, "mtg": 40}][i % 11]
        jobs.append({"hash": 1, "tag": "timed", "searches": [dict(pos=p, **lim), dict(pos=pool[(i + 7) % len(pool)], depth=3, newgame=(i % 2 == 0))]})
    # C: more than 256 searches on one table (8-bit generation counter), then a real search
    for rep in range(1 if q else 4):
        ss = [{"pos": pool[(rep * 300 + k) % len(pool)], "depth": 1} for k in range(300)]
        ss.append({"pos": roots[0], "depth": 4})
        jobs.append({"hash": 1, "tag": "many-searches", "searches": ss})
    # E: positions whose first iteration outlasts the limit (quiescence explosion): the fall-back move path
    for i, p in enumerate(searches.explosive_positions()):
        lim = [{"movetime": 0}, {"movetime": 1}, {"wtime": 1, "btime": 1}, {"depth": 1}][i % 4]
        jobs.append({"hash": 1, "tag": "explosive", "searches": [dict(pos=p, **lim), {"pos": roots[i % len(roots)], "depth": 3}]})
    # F: positions in which every line is a draw at once (dead material): a search without any limit runs through the whole
    # depth range (255 iterations) within milliseconds and must come back with a move by itself
    for i, f in enumerate(["8/8/8/4k3/8/8/8/4K3 w - - 0 1", "8/8/8/4k3/8/8/8/4K3 b - - 0 1", "8/8/3k4/8/8/3BK3/8/8 w - - 10 40",
                           "8/8/3k4/8/8/3NK3/8/8 b - - 0 1", "7k/8/8/8/8/8/8/K7 w - - 0 1",
                           # two plies from the fifty-move rule, no capture or pawn move available: the tree is two plies deep at every depth
                           "8/2k5/8/8/8/5N2/3K1R2/8 w - - 98 70", "8/8/8/3k4/8/2B5/3K1Q2/8 b - - 98 90", "8/2k5/8/8/8/5N2/3K1R2/8 b - - 97 70"]):
        jobs.append({"hash": 1, "tag": "whole-depth-range", "searches": [{"pos": searches.fen2pos(f)}, {"pos": searches.fen2pos(f), "depth": 255},
                                                                          {"pos": roots[i % len(roots)], "depth": 2}]})
    # D: scores that jump through the aspiration window (mate found at depth >= 5)
    for f in searches.EXTRA_FENS[:4]:
        jobs.append({"hash": 1, "tag": "score-jump", "searches": [{"pos": searches.fen2pos(f), "depth": d} for d in ((6, 7) if q else (6, 7, 9))]})
    return jobs


def main():
    chk = vlib.Check("C04", "model_checking")
    q = chk.quick
    model_check(chk, 5 if q else 6)
    jobs = build_jobs(chk, q)
    files = []
    hangs = []
    for prof in ("dev", "opt"):
        for ef, hang in searches.run_jobs(chk, jobs, prof, "c04", timeout=900 if q else 3000, shards=16):
            files.append(ef)
            if hang:
                hangs.append((prof, hang))
    viols, stats = searches.judge(chk, files, ids=("C04",))
    for d in viols["C04"]:
        chk.violation(searches.witness(d), d["what"], d, replay={"kind": "search-event", "events": d["_file"], "line": d.get("at")})
    for prof, h in hangs:
        chk.violation("hang|%s|%s" % (prof, h["jobs"]), "search-did-not-terminate", h, replay={"kind": "search-jobs", "jobs": h["jobs"]})
    # node level (hook H6, Trace_Nodes.tla): every step of every node of recorded searches replayed on a stack of
    # rule-book positions; this check reports the clauses filed under its own property
    nstat = nodes.standard(chk, ("C04",), scale=1.0)
    chk.cov.update({
        "traces_validated_against_impl": len(files),
        "evaluations": stats["searches"], "distinct_nontrivial": stats["mates"] + sum(1 for j in jobs if j["tag"] != "sweep"),
        "search_stats": stats, "sessions": len(jobs),
        "rule": "SearchCtl.tla (iterative deepening x aspiration x 8-bit generation with explicit range checks) model-checked; real searches "
                "in sessions on shared tables (unrelated positions back to back, time/clock limits incl. 0 and 1 ms, >256 searches, "
                "score-jump positions, hash 1/2/16 MB, checked and optimised builds), each judged by the rule book: a move was returned, "
                "it is legal, no panic, the run ended. non-trivial = searches announcing a mate + sessions other than plain sweeps",
    })
    chk.sample({"session": jobs[0]["tag"], "first_position": jobs[0]["searches"][0]["pos"].get("fen"), "depth": jobs[0]["searches"][0].get("depth")})
    chk.assumptions += ["optimised-build arithmetic wraps silently: only its observable consequences (illegal move, crash, non-termination) are seen there",
                        "SearchCtl.tla abstracts the tree search to 'any score'"]
    return chk.finish()
