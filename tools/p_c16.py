"""C16 Evaluation is colour-symmetric, bounded and a proper blend."""
import os, json
import vlib, games, searches
import nodes


def main():
    chk = vlib.Check("C16", "model_checking")
    q = chk.quick
    # the blend itself, exhaustively on a boundary grid (TLC evaluates the definition)
    mc = vlib.tlc("MC_EvalBlend", cfg="MC_EvalBlend.cfg", timeout=1200, xmx="3g")
    if mc.error or not mc.ok:
        raise vlib.ToolError("MC_EvalBlend (clamped blend) fails: " + (mc.error or mc.stdout[-1500:]))
    grid_cases = 25 * 25 * 101 + 10 ** 4 + 25 * 24
    chk.add("states", grid_cases)
    chk.add("transitions", grid_cases)
    # the same clause for ALL 16-bit (mg, eg) and phases 0..200, symbolically (Apalache); supplementary
    apa_out = os.path.join(chk.outdir, "apalache")
    try:
        r = vlib.sh(["apalache-mc", "check", "--length=0", "--inv=BetweenClamped", "--out-dir=" + apa_out,
                     os.path.join(vlib.SPEC, "BlendApa.tla")], timeout=240, cwd=chk.outdir)
        outcome = "NoError" if "The outcome is: NoError" in r.stdout else ("Error" if "Found 1 error" in r.stdout else "unknown")
    except Exception as ex:
        outcome = "not-run: %s" % str(ex)[:80]
    if outcome == "Error":
        raise vlib.ToolError("Apalache refutes the clamped blend clause: specification error")
    chk.cov["apalache_blend_all_i16_phase_0_200"] = outcome
    # positions: extreme material (TLC), material signatures (TLC), near-mate endings (TLC), walks, roots
    gx = vlib.tlc("Gen_Extreme", timeout=1200, xmx="2g")
    if gx.error:
        raise vlib.ToolError("Gen_Extreme: " + gx.error)
    extreme = [d for t, d in gx.reports if t == "GEN"]
    if len(extreme) < 100:
        raise vlib.ToolError("Gen_Extreme produced %d positions" % len(extreme))
    pos = extreme + searches.root_positions() + searches.walk_positions(chk, 1500 if q else 40000)
    from fen2json import fen2pos
    pos += [fen2pos(l.strip()) for l in open(os.path.join(vlib.VERIF, "data", "roots_surplus.txt")) if l.strip()]
    pos += searches.mate_positions(chk, [chk.seed % 7] if q else list(range(7)), 40 if q else 2)

    def material(sh):
        cfg = os.path.join(chk.outdir, "gm_%d.cfg" % sh)
        games.gen_cfg(cfg, {"SHARD": sh, "NSHARDS": 7, "DENSITY": 16 if q else 1, "MaxExtra": 3}, "INIT Init\nNEXT Next\n")
        r = vlib.tlc("Gen_Material", cfg=cfg, timeout=3400, xmx="2g")
        if r.error:
            raise vlib.ToolError("Gen_Material: " + r.error)
        return [d for t, d in r.reports if t == "GEN"]
    for g in vlib.pmap(material, [1, 3] if q else list(range(7)), n=7):
        pos += g
    files = []
    nchunk = 8 if q else 16
    for prof in ("dev", "opt"):
        hb = vlib.build_harness(prof)
        for i in range(nchunk):
            part = pos[i::nchunk]
            pf = os.path.join(chk.outdir, "pos_%d.ndjson" % i)
            if prof == "dev":
                vlib.write_ndjson(pf, part)
            ef = os.path.join(chk.outdir, "ev_%s_%d.ndjson" % (prof, i))
            vlib.harness(hb, ["eval", "positions", pf, ef])
            if i == 0:
                bf = os.path.join(chk.outdir, "blend_%s.ndjson" % prof)
                vlib.harness(hb, ["eval", "blend", chk.seed, 3000 if q else 100000, bf])
                files.append((bf, prof))
            files.append((ef, prof))

    def judge(x):
        ef, prof = x
        t = vlib.tlc("Trace_Eval", env={"TRACE": ef}, timeout=3400, xmx="3g")
        if t.error or not t.stats("eval"):
            raise vlib.ToolError("Trace_Eval: " + (t.error or t.stdout[-1500:]))
        if t.viols("TRACE"):
            raise vlib.ToolError("harness mirror disagrees with Chess!Mirror: %s" % t.viols("TRACE")[0])
        return t, ef, prof
    tot = {"events": 0, "positions": 0, "over24": 0, "blends": 0}
    for t, ef, prof in vlib.pmap(judge, files, n=16):
        s = t.stats("eval")[0]
        for k in tot:
            tot[k] += s[k]
        for d in t.viols("C16"):
            det = d["detail"]
            w = "%s|%s" % (d["what"], det.get("fen") or json.dumps(det, sort_keys=True))
            chk.violation(w, d["what"], {"report": d, "profile": prof}, replay={"kind": "eval-event", "events": ef, "line": d.get("at")})
        for d in t.drifts("C16"):
            chk.drift.append({"what": d["what"], "detail": d["detail"], "source": ef})
    if tot["over24"] == 0:
        raise vlib.ToolError("no position with game phase above 24: vacuous")
    # the evaluation as a linear form (EvalTerms.tla): the engine's own coefficient of every parameter equals the one the
    # specification derives from the board, the value is the blended sum (CodeView, drift); and, from the real parameter
    # tables, the universal bound: for every army the rules allow each half stays within 16 bits and out of the mate range
    hb = vlib.build_harness("dev")
    parf = os.path.join(chk.outdir, "eval_params.json")
    vlib.harness(hb, ["evalterms", "params", parf])
    per = 150 if q else 1500

    def terms(i):
        if i < 0:
            empty = os.path.join(chk.outdir, "et_empty.ndjson")
            open(empty, "w").close()
            t = vlib.tlc("Trace_EvalTerms", env={"TRACE": empty, "PARAMS": parf, "BOUND": "1"}, timeout=1800, xmx="3g")
            if t.error or not t.stats("bound"):
                raise vlib.ToolError("Trace_EvalTerms (bound): " + (t.error or t.stdout[-1500:]))
            return t, None
        src = os.path.join(chk.outdir, "pos_%d.ndjson" % i)
        sub = os.path.join(chk.outdir, "etpos_%d.ndjson" % i)
        rows = vlib.read_ndjson(src)
        chk.rng.shuffle(rows)
        vlib.write_ndjson(sub, rows[:per])
        ef = os.path.join(chk.outdir, "et_%d.ndjson" % i)
        vlib.harness(hb, ["evalterms", "positions", sub, ef])
        t = vlib.tlc("Trace_EvalTerms", env={"TRACE": ef, "PARAMS": parf, "BOUND": "0"}, timeout=3000, xmx="3g")
        if t.error or not t.stats("evalterms"):
            raise vlib.ToolError("Trace_EvalTerms: " + (t.error or t.stdout[-1500:]))
        return t, ef
    et = {"positions": 0, "passed": 0, "pairs": 0}
    for t, ef in vlib.pmap(terms, [-1] + list(range(nchunk)), n=16):
        for d in t.viols("C16"):
            det = d.get("detail") or {}
            chk.violation("%s|%s" % (d["what"], det.get("fen") or json.dumps(det, sort_keys=True)), d["what"], {"report": d},
                          replay={"kind": "eval-terms", "params": parf, "events": ef})
        for d in t.drifts("EVAL"):
            chk.drift.append({"what": "evaluation-term: " + d["what"], "detail": d["detail"], "source": ef})
        if ef is None:
            chk.cov["universal_bound_from_the_parameter_tables"] = t.stats("bound")[0]
        else:
            for k in et:
                et[k] += t.stats("evalterms")[0][k]
    if et["positions"] == 0 or et["passed"] == 0:
        raise vlib.ToolError("vacuous evaluation-term validation: %s" % et)
    chk.cov["evaluation_terms_validated"] = et
    # node level (hook H6): every static evaluation taken inside recorded searches stays out of the mate range
    nodes.standard(chk, ("C16",), scale=0.25)
    chk.cov.update({
        "traces_validated_against_impl": len(files),
        "evaluations": tot["events"], "distinct_nontrivial": tot["over24"] // 2,
        "totals": tot, "extreme_positions": len(extreme),
        "rule": "blend: CodeView within PropertyView for every (mg, eg) on a 25x25 boundary grid x phase 0..100 and carry-freedom of packed "
                "addition, evaluated by TLC; the same triples and random ones through the real PhasedEval::for_phase; positions (TLC-generated "
                "extreme material up to 9 queens / 10 rooks / 10 minors a side behind pawn walls, material signatures, near-mate endings, walks, "
                "bench roots) evaluated in the checked and optimised builds: no panic, eval = eval of the colour mirror (mirror validated by TLC), "
                "|eval| < 31900, eval between the pure middlegame and pure endgame assessments. non-trivial = distinct positions with phase > 24",
    })
    chk.sample({"fen": extreme[0]["fen"]})
    chk.assumptions += ["the pure assessments are obtained by evaluating a clone with the public phase counter set to 24 and to 0",
                        "individual evaluation terms are not re-derived in TLA+ (metamorphic clauses only)"]
    return chk.finish()
