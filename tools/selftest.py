"""./check --selftest [names...] : demonstrates the binding of every engine.

For each patch in /verif/mutants (reverts of the defect repairs) and /verif/seeded/*/ (changes written
by independent fault-seeding agents) the patch is applied to /repo's working tree, the quick tier of the
check(s) named in its metadata is run and must report a VIOLATION (exit 1); the working tree is restored
with `git checkout -- .` whatever happens.  Also corrupts one field of a recorded walk trace and shows
that Trace_Game rejects it.  Exit 0 iff every mutant was detected."""
import os, sys, json, glob, subprocess, time
import vlib

REPO = "/repo"


def git(*a):
    return subprocess.run(["git", "-C", REPO] + list(a), capture_output=True, text=True)


def clean():
    r = git("status", "--porcelain", "--untracked-files=no")
    return r.stdout.strip() == ""


def run_mutant(name, patch, props, tier="quick", seed=None):
    if not clean():
        print("SELFTEST: /repo has uncommitted changes; refusing to run")
        return None
    r = git("apply", patch)
    if r.returncode != 0:
        print("SELFTEST %-40s patch does not apply: %s" % (name, r.stderr.strip()[:200]))
        return None
    res = {}
    try:
        for p in props:
            t0 = time.time()
            env = dict(os.environ)
            if seed is not None:
                env["VERIF_SEED"] = str(seed)
            pr = subprocess.run([os.path.join(vlib.VERIF, "check"), p, "--tier", tier], capture_output=True, text=True,
                                cwd=vlib.VERIF, env=env)
            viol = [l for l in pr.stdout.splitlines() if l.startswith("VIOLATION")]
            res[p] = {"exit": pr.returncode, "violations": len(viol), "wall": round(time.time() - t0, 1),
                      "first": (pr.stderr.splitlines()[-3:] if pr.stderr else [])}
    finally:
        git("checkout", "--", ".")
    return res


def corrupted_trace():
    """Binding of the trace direction: one corrupted field of a recorded trace must be rejected."""
    hb = vlib.build_harness("dev")
    d = os.path.join(vlib.OUT, "selftest")
    os.makedirs(d, exist_ok=True)
    base = os.path.join(d, "walk")
    tables = os.path.join(d, "tables.json")
    vlib.harness(hb, ["walk", "--seed", 7, "--events", 300, "--out", base, "--tables", tables])
    rows = vlib.read_ndjson(base)
    ok = vlib.tlc("Trace_Game", env={"TRACE": base, "TABLES": tables}, timeout=600)
    rows[150]["cr"] ^= 1
    rows[200]["key"][0] ^= 1
    rows[250]["mvs"] = rows[250]["mvs"][:-1] if rows[250]["mvs"] else [1]
    bad = base + ".corrupt"
    vlib.write_ndjson(bad, rows)
    ko = vlib.tlc("Trace_Game", env={"TRACE": bad, "TABLES": tables}, timeout=600)
    good = len(ok.viols()) == 0 and len(ko.viols()) >= 3
    print("SELFTEST corrupted-trace: clean trace %d reports, corrupted trace %d reports -> %s" %
          (len(ok.viols()), len(ko.viols()), "rejected" if good else "NOT REJECTED"))
    return good


def corrupted_nodes():
    """Binding of the node-level traces: corrupted steps of a recorded search must be rejected with the expected clause."""
    import copy
    from fen2json import fen2pos
    hb = vlib.build_harness("dev")
    d = os.path.join(vlib.OUT, "selftest")
    os.makedirs(d, exist_ok=True)
    jf, ef = os.path.join(d, "nodes.jobs"), os.path.join(d, "nodes.ndjson")
    pos = fen2pos("r1bqkbnr/pppp1ppp/2n5/4p3/4P3/5N2/PPPP1PPP/RNBQKB1R w KQkq - 2 3")
    vlib.write_ndjson(jf, [{"hash": 1, "tag": "selftest", "searches": [{"pos": pos, "depth": dd, "record": True} for dd in (2, 3)]}])
    vlib.harness(hb, ["nodes", jf, ef])
    rows = vlib.read_ndjson(ef)
    ok = vlib.tlc("Trace_Nodes", env={"TRACE": ef}, timeout=600)
    idx = lambda k, n: [i for i, x in enumerate(rows) if x.get("e") == k][n]
    cases = []
    c = copy.deepcopy(rows); c[idx("R", 10)]["v"][0] += 1; cases.append(("result value", c, ("DRIFT", "NODES")))
    c = copy.deepcopy(rows); c[idx("M", 5)]["m"] = [1 + 64 * 2]; cases.append(("illegal move", c, ("VIOL", "C04")))
    first_end = idx("end", 0)
    last_root_p = [i for i, x in enumerate(rows) if x.get("e") == "P" and x["p"] == 0 and i < first_end][-1]
    c = copy.deepcopy(rows); del c[last_root_p]; cases.append(("dropped line update", c, ("DRIFT", "NODES")))
    pm = [i for i, x in enumerate(rows) if x.get("e") == "P" and len(x["m"]) > 1][1]
    c = copy.deepcopy(rows); c[pm]["m"][1] += 1; cases.append(("altered line tail", c, ("VIOL", "C08")))
    c = copy.deepcopy(rows); i = idx("M", 20); c.insert(i, {"e": "X", "p": c[i]["p"], "v": [0, 0, 0], "m": []}); cases.append(("step after stop", c, ("VIOL", "C09")))
    c = copy.deepcopy(rows); m0 = [i for i, x in enumerate(c) if x.get("e") == "M" and x["p"] == 0]; c[m0[1]]["m"] = c[m0[0]]["m"]; cases.append(("move twice", c, ("VIOL", "C10")))
    c = copy.deepcopy(rows); i = [i for i, x in enumerate(c) if x.get("e") == "S" and x["v"][1] > 0][3]; c[i]["v"][2] = 1 - c[i]["v"][2]; cases.append(("check flag", c, ("VIOL", "C01")))
    c = copy.deepcopy(rows); c[idx("L", 15)]["e"] = "D"; cases.append(("false draw", c, ("VIOL", "C11")))
    good = ok.ok and not [1 for t, _ in ok.reports if t in ("VIOL", "DRIFT")]
    for name, rws, (tag, pid) in cases:
        bp = os.path.join(d, "nodes.corrupt.ndjson")
        vlib.write_ndjson(bp, rws)
        r = vlib.tlc("Trace_Nodes", env={"TRACE": bp}, timeout=600)
        hit = any(t == tag and x.get("id") == pid for t, x in r.reports)
        print("SELFTEST corrupted-node-trace %-22s -> %s" % (name, "rejected (%s %s)" % (tag, pid) if hit else "NOT REJECTED"))
        good = good and hit
    return good


def main(args):
    if args == ["nodes"]:
        return 0 if corrupted_nodes() else 1
    items = []
    for j in sorted(glob.glob(os.path.join(vlib.VERIF, "mutants", "*.json"))):
        m = json.load(open(j))
        items.append((os.path.basename(j)[:-5], os.path.join(vlib.VERIF, "mutants", m["patch"]), [m["property"]] + m.get("also", [])))
    for j in sorted(glob.glob(os.path.join(vlib.VERIF, "seeded", "*", "meta.json"))):
        m = json.load(open(j))
        d = os.path.dirname(j)
        items.append(("seeded/" + os.path.basename(d), os.path.join(d, "patch.diff"), m.get("checks") or [m["property"]]))
    if args:
        items = [it for it in items if any(a in it[0] for a in args)]
    allok = corrupted_trace() if not args else True
    table = []
    for name, patch, props in items:
        res = run_mutant(name, patch, props)
        if res is None:
            allok = False
            continue
        caught = [p for p, r in res.items() if r["exit"] == 1 and r["violations"] > 0]
        errs = [p for p, r in res.items() if r["exit"] not in (0, 1)]
        status = "caught by " + ",".join(caught) if caught else ("TOOL-ERROR in " + ",".join(errs) if errs else "MISSED")
        print("SELFTEST %-44s %s  %s" % (name, status, {p: (r["exit"], r["wall"]) for p, r in res.items()}))
        table.append({"mutant": name, "checks": res, "caught_by": caught})
        if not caught:
            allok = False
    os.makedirs(os.path.join(vlib.OUT, "selftest"), exist_ok=True)
    json.dump(table, open(os.path.join(vlib.OUT, "selftest", "result.json"), "w"), indent=1)
    return 0 if allok else 1
