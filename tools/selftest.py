"""./check --selftest [names...] : demonstrates the binding of every engine.

For each patch in /verif/mutants (reverts of the defect repairs) and /verif/seeded/*/ (changes written
by independent fault-seeding agents) the patch is applied to /repo's working tree, the quick tier of the
check(s) named in its metadata is run and must report a VIOLATION (exit 1); the working tree is restored
with `git checkout -- .` whatever happens.  Also corrupts one field of a recorded walk trace and shows
that Trace_Game rejects it.  Exit 0 iff every mutant was detected."""
import os, sys, json, glob, subprocess, time
import vlib

REPO = "/repo"


def git(*a):
    return subprocess.run(["git", "-C", REPO] + list(a), capture_output=True, text=True)


def clean():
    r = git("status", "--porcelain", "--untracked-files=no")
    return r.stdout.strip() == ""


def run_mutant(name, patch, props, tier="quick", seed=None):
    if not clean():
        print("SELFTEST: /repo has uncommitted changes; refusing to run")
        return None
    r = git("apply", patch)
    if r.returncode != 0:
        print("SELFTEST %-40s patch does not apply: %s" % (name, r.stderr.strip()[:200]))
        return None
    res = {}
    try:
        for p in props:
            t0 = time.time()
            env = dict(os.environ)
            if seed is not None:
                env["VERIF_SEED"] = str(seed)
            pr = subprocess.run([os.path.join(vlib.VERIF, "check"), p, "--tier", tier], capture_output=True, text=True,
                                cwd=vlib.VERIF, env=env)
            viol = [l for l in pr.stdout.splitlines() if l.startswith("VIOLATION")]
            res[p] = {"exit": pr.returncode, "violations": len(viol), "wall": round(time.time() - t0, 1),
                      "first": (pr.stderr.splitlines()[-3:] if pr.stderr else [])}
    finally:
        git("checkout", "--", ".")
    return res


def corrupted_trace():
    """Binding of the trace direction: one corrupted field of a recorded trace must be rejected."""
    hb = vlib.build_harness("dev")
    d = os.path.join(vlib.OUT, "selftest")
    os.makedirs(d, exist_ok=True)
    base = os.path.join(d, "walk")
    tables = os.path.join(d, "tables.json")
    vlib.harness(hb, ["walk", "--seed", 7, "--events", 300, "--out", base, "--tables", tables])
    rows = vlib.read_ndjson(base)
    ok = vlib.tlc("Trace_Game", env={"TRACE": base, "TABLES": tables}, timeout=600)
    rows[150]["cr"] ^= 1
    rows[200]["key"][0] ^= 1
    rows[250]["mvs"] = rows[250]["mvs"][:-1] if rows[250]["mvs"] else [1]
    bad = base + ".corrupt"
    vlib.write_ndjson(bad, rows)
    ko = vlib.tlc("Trace_Game", env={"TRACE": bad, "TABLES": tables}, timeout=600)
    good = len(ok.viols()) == 0 and len(ko.viols()) >= 3
    print("SELFTEST corrupted-trace: clean trace %d reports, corrupted trace %d reports -> %s" %
          (len(ok.viols()), len(ko.viols()), "rejected" if good else "NOT REJECTED"))
    return good


def main(args):
    items = []
    for j in sorted(glob.glob(os.path.join(vlib.VERIF, "mutants", "*.json"))):
        m = json.load(open(j))
        items.append((os.path.basename(j)[:-5], os.path.join(vlib.VERIF, "mutants", m["patch"]), [m["property"]] + m.get("also", [])))
    for j in sorted(glob.glob(os.path.join(vlib.VERIF, "seeded", "*", "meta.json"))):
        m = json.load(open(j))
        d = os.path.dirname(j)
        items.append(("seeded/" + os.path.basename(d), os.path.join(d, "patch.diff"), m.get("checks") or [m["property"]]))
    if args:
        items = [it for it in items if any(a in it[0] for a in args)]
    allok = corrupted_trace() if not args else True
    table = []
    for name, patch, props in items:
        res = run_mutant(name, patch, props)
        if res is None:
            allok = False
            continue
        caught = [p for p, r in res.items() if r["exit"] == 1 and r["violations"] > 0]
        errs = [p for p, r in res.items() if r["exit"] not in (0, 1)]
        status = "caught by " + ",".join(caught) if caught else ("TOOL-ERROR in " + ",".join(errs) if errs else "MISSED")
        print("SELFTEST %-44s %s  %s" % (name, status, {p: (r["exit"], r["wall"]) for p, r in res.items()}))
        table.append({"mutant": name, "checks": res, "caught_by": caught})
        if not caught:
            allok = False
    os.makedirs(os.path.join(vlib.OUT, "selftest"), exist_ok=True)
    json.dump(table, open(os.path.join(vlib.OUT, "selftest", "result.json"), "w"), indent=1)
    return 0 if allok else 1
