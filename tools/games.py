"""Shared pipeline for the properties decided on the Game state machine:
walk (harness) -> ND-JSON traces -> Trace_Game.tla (TLC)."""
import os, json, shutil
import vlib
from vlib import ToolError


def gen_cfg(path, consts, extra=""):
    with open(path, "w") as f:
        if consts:
            f.write("CONSTANTS\n")
            for k, v in consts.items():
                f.write("  %s = %s\n" % (k, json.dumps(v) if isinstance(v, str) else v))
        f.write(extra)


def walk_traces(chk, events, files, max_depth=40, roots=None, label="walk"):
    """Runs the harness walk and validates each trace file with Trace_Game. Returns list of TlcResult."""
    hb = vlib.build_harness("dev")
    base = os.path.join(chk.outdir, label)
    tables = os.path.join(chk.outdir, "tables.json")
    args = ["walk", "--seed", chk.seed, "--events", events, "--files", files, "--out", base,
            "--tables", tables, "--max-depth", max_depth]
    if roots:
        args += ["--roots", roots]
    vlib.harness(hb, args)
    paths = [base] if files == 1 else ["%s.%d" % (base, i) for i in range(files)]

    def one(p):
        r = vlib.tlc("Trace_Game", env={"TRACE": p, "TABLES": tables}, timeout=3000, xmx="3g")
        r.path = p
        return r
    results = vlib.pmap(one, paths, n=min(16, len(paths)))
    for r in results:
        st = r.stats("trace")
        if r.error or not st:
            raise ToolError("Trace_Game failed on %s: %s" % (r.path, (r.error or r.stdout[-1500:])))
        if st[0]["diameter"] != st[0]["events"] + 1:
            raise ToolError("trace not fully consumed: %s" % st[0])
    return results, paths


def fen_witness(d):
    det = d.get("detail") or {}
    if isinstance(det, dict):
        return "%s|%s" % (d.get("what"), det.get("fen") or det.get("got") or det.get("a") or json.dumps(det, sort_keys=True))
    return "%s|%s" % (d.get("what"), json.dumps(det))


def collect_walk(chk, results, paths):
    n_events = 0
    distinct = 0
    for r in results:
        st = r.stats("trace")[0]
        n_events += st["events"]
        distinct += st["distinct_keys"]
        for d in r.viols(chk.pid):
            at = d.get("at")
            chk.violation(fen_witness(d), d.get("what"), {"report": d, "trace": r.path, "line": at},
                          replay={"kind": "walk-trace", "trace": r.path, "line": at})
        for d in r.drifts(chk.pid):
            chk.drift.append({"what": d.get("what"), "detail": d.get("detail"), "source": r.path})
    chk.add("traces_validated_against_impl", len(results))
    chk.add("trace_events", n_events)
    return n_events, distinct


def run_movegen_families(chk, families, nshards, density, shards=None):
    """Gen_Movegen -> harness replay-positions."""
    hb = vlib.build_harness("dev")
    jobs = []
    for fam in families:
        for sh in (shards if shards is not None else range(nshards)):
            jobs.append((fam, sh))

    def one(job):
        fam, sh = job
        cfg = os.path.join(chk.outdir, "gen_%s_%d.cfg" % (fam, sh))
        gen_cfg(cfg, {"FAMILY": fam, "SHARD": sh, "NSHARDS": nshards, "DENSITY": density}, "INIT Init\nNEXT Next\n")
        r = vlib.tlc("Gen_Movegen", cfg=cfg, timeout=3400, xmx="2g")
        if r.error:
            raise ToolError("Gen_Movegen %s/%d: %s" % (fam, sh, r.error))
        gen = [d for t, d in r.reports if t == "GEN"]
        p = os.path.join(chk.outdir, "gen_%s_%d.ndjson" % (fam, sh))
        vlib.write_ndjson(p, gen)
        if not gen:
            return {"n": 0, "distinct": 0, "nontrivial": 0, "mismatches": [], "samples": [], "families": {}}, p
        out = json.loads(vlib.harness(hb, ["replay-positions", p]))
        return out, p
    return vlib.pmap(one, jobs, n=16), jobs
