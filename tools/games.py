"""Shared pipeline for the properties decided on the Game state machine:
walk (harness) -> ND-JSON traces -> Trace_Game.tla (TLC)."""
import os, json, shutil
import vlib
from vlib import ToolError


def gen_cfg(path, consts, extra=""):
    with open(path, "w") as f:
        if consts:
            f.write("CONSTANTS\n")
            for k, v in consts.items():
                if isinstance(v, bool):
                    v = "TRUE" if v else "FALSE"
                elif isinstance(v, str):
                    v = json.dumps(v)
                f.write("  %s = %s\n" % (k, v))
        f.write(extra)


def walk_traces(chk, events, files, max_depth=40, roots=None, label="walk", long=0, extra=()):
    """Runs the harness walk and validates each trace file with Trace_Game. Returns list of TlcResult."""
    hb = vlib.build_harness("dev")
    base = os.path.join(chk.outdir, label)
    tables = os.path.join(chk.outdir, "tables.json")
    args = ["walk", "--seed", chk.seed, "--events", events, "--files", files, "--out", base,
            "--tables", tables, "--max-depth", max_depth]
    if roots:
        args += ["--roots", roots]
    if long:
        args += ["--long", long]
    args += list(extra)
    vlib.harness(hb, args)
    paths = [base] if files == 1 else ["%s.%d" % (base, i) for i in range(files)]

    def one(p):
        r = vlib.tlc("Trace_Game", env={"TRACE": p, "TABLES": tables}, timeout=3000, xmx="3g")
        r.path = p
        return r
    results = vlib.pmap(one, paths, n=min(16, len(paths)))
    for r in results:
        st = r.stats("trace")
        if r.error or not st:
            raise ToolError("Trace_Game failed on %s: %s" % (r.path, (r.error or r.stdout[-1500:])))
        if st[0]["diameter"] != st[0]["events"] + 1:
            raise ToolError("trace not fully consumed: %s" % st[0])
        bad = r.viols("ROOT") + r.viols("TRACE")
        if bad:
            raise ToolError("walk root is not a legal position / malformed trace: %s" % bad[0])
    return results, paths


def fen_witness(d):
    det = d.get("detail") or {}
    if isinstance(det, dict):
        return "%s|%s" % (d.get("what"), det.get("fen") or det.get("got") or det.get("a") or json.dumps(det, sort_keys=True))
    return "%s|%s" % (d.get("what"), json.dumps(det))


def collect_walk(chk, results, paths):
    n_events = 0
    distinct = 0
    for r in results:
        st = r.stats("trace")[0]
        n_events += st["events"]
        distinct += st["distinct_keys"]
        for d in r.viols(chk.pid):
            at = d.get("at")
            chk.violation(fen_witness(d), d.get("what"), {"report": d, "trace": r.path, "line": at},
                          replay={"kind": "walk-trace", "trace": r.path, "line": at})
        for d in r.drifts(chk.pid):
            chk.drift.append({"what": d.get("what"), "detail": d.get("detail"), "source": r.path})
    chk.add("traces_validated_against_impl", len(results))
    chk.add("trace_events", n_events)
    return n_events, distinct


def dblpush_lines(chk, label="dblpush"):
    """Gen_DblPush (double pushes landing beside a pinned / free enemy pawn, all lines, both colours) -> the real make_move
    through `harness walk --script` -> Trace_Game on every successor (target, key, reply list ...).  Reports into chk."""
    hb = vlib.build_harness("dev")
    g = vlib.tlc("Gen_DblPush", timeout=1800, xmx="2g")
    cases = [d for t, d in g.reports if t == "GEN"]
    n_ep = sum(1 for c in cases if c["legal_ep"])
    if g.error or len(cases) < 2000 or n_ep < 500 or n_ep == len(cases):
        raise ToolError("Gen_DblPush: %s (%d cases, %d with a legal en-passant reply)" % (g.error, len(cases), n_ep))
    sp = os.path.join(chk.outdir, label + "_lines.txt")
    with open(sp, "w") as f:
        for c in cases:
            f.write("%s;%s\n" % (c["root"], c["move"]))
    ev = os.path.join(chk.outdir, label + ".ndjson")
    tables = os.path.join(chk.outdir, "tables.json")
    vlib.harness(hb, ["walk", "--script", sp, "--out", ev, "--tables", tables])
    sr = vlib.tlc("Trace_Game", env={"TRACE": ev, "TABLES": tables}, timeout=1800, xmx="3g")
    if sr.error or not sr.stats("trace") or sr.viols("ROOT") or sr.viols("TRACE"):
        raise ToolError("Trace_Game on the double-push lines: %s" % (sr.error or sr.viols("ROOT") or sr.stdout[-1000:]))
    sr.path = ev
    collect_walk(chk, [sr], [ev])
    chk.cov["double_push_beside_pawn"] = {"pushes": len(cases), "with_legal_en_passant_reply": n_ep}
    return sr


def run_movegen_families(chk, families, nshards, density, shards=None):
    """Gen_Movegen -> harness replay-positions."""
    hb = vlib.build_harness("dev")
    jobs = []
    for fam in families:
        for sh in (shards if shards is not None else range(nshards)):
            jobs.append((fam, sh))

    def one(job):
        fam, sh = job
        cfg = os.path.join(chk.outdir, "gen_%s_%d.cfg" % (fam, sh))
        gen_cfg(cfg, {"FAMILY": fam, "SHARD": sh, "NSHARDS": nshards, "DENSITY": density}, "INIT Init\nNEXT Next\n")
        r = vlib.tlc("Gen_Movegen", cfg=cfg, timeout=3400, xmx="2g")
        if r.error:
            raise ToolError("Gen_Movegen %s/%d: %s" % (fam, sh, r.error))
        gen = [d for t, d in r.reports if t == "GEN"]
        p = os.path.join(chk.outdir, "gen_%s_%d.ndjson" % (fam, sh))
        vlib.write_ndjson(p, gen)
        if not gen:
            return {"n": 0, "distinct": 0, "nontrivial": 0, "mismatches": [], "samples": [], "families": {}}, p
        out = json.loads(vlib.harness(hb, ["replay-positions", p]))
        return out, p
    return vlib.pmap(one, jobs, n=16), jobs


def mc_game(chk, depth, workers=8):
    """Bounded exhaustive check of ChessGame (CodeView => PropertyView)."""
    roots = os.path.join(chk.outdir, "mc_roots.ndjson")
    r = vlib.sh(["python3", os.path.join(vlib.VERIF, "tools", "fen2json.py"),
                 os.path.join(vlib.VERIF, "data", "mc_roots.txt")])
    open(roots, "w").write(r.stdout)
    cfg = os.path.join(chk.outdir, "MC_Game.cfg")
    gen_cfg(cfg, {"MaxDepth": depth}, "SPECIFICATION Spec\nINVARIANT Inv\nPROPERTY UndoRestores\nCHECK_DEADLOCK FALSE\n")
    res = vlib.tlc("MC_Game", cfg=cfg, env={"ROOTS": roots}, workers=workers, timeout=3400, xmx="12g",
                   extra=["-coverage", "1"], dfs=False)
    if res.error or not res.ok:
        raise ToolError("MC_Game: the CodeView model violates a PropertyView invariant or TLC failed "
                        "(this is a statement about the specification's transcription of the code; "
                        "it needs a human):\n" + (res.error or res.stdout[-2000:]))
    for act in ("Undo", "UndoNull"):
        if res.coverage.get(act, (0, 0))[1] == 0 and res.coverage.get(act, (0, 0))[0] == 0:
            raise ToolError("MC_Game: action %s never taken (vacuous model)" % act)
    chk.add("states", res.distinct)
    chk.add("transitions", res.states)
    chk.cov["mc_depth"] = depth
    chk.cov["mc_roots"] = len([x for x in r.stdout.splitlines() if x.strip()])
    return res


def gen_game(chk, mode, behaviours, steps, max_depth, jvms, roots_file=None):
    """Gen_Game -simulate -> list of ndjson files of behaviours."""
    roots = os.path.join(chk.outdir, "gen_roots.ndjson")
    r = vlib.sh(["python3", os.path.join(vlib.VERIF, "tools", "fen2json.py"),
                 roots_file or os.path.join(vlib.VERIF, "data", "roots.txt")])
    open(roots, "w").write(r.stdout)
    cfg = os.path.join(chk.outdir, "Gen_Game_%s.cfg" % mode)
    gen_cfg(cfg, {"MODE": mode, "MaxDepth": max_depth, "Steps": steps},
            "SPECIFICATION Spec\nINVARIANT Emit\nCHECK_DEADLOCK FALSE\n")
    per = max(1, behaviours // jvms)

    def one(i):
        res = vlib.tlc("Gen_Game", cfg=cfg, env={"ROOTS": roots}, timeout=3400, xmx="2g", dfs=False,
                       extra=["-simulate", "num=%d" % per, "-depth", str(steps + 10), "-seed", str(chk.seed * 131 + i)])
        if res.error:
            raise ToolError("Gen_Game: " + res.error)
        gen = [d for t, d in res.reports if t == "GEN"]
        p = os.path.join(chk.outdir, "game_%s_%d.ndjson" % (mode, i))
        vlib.write_ndjson(p, gen)
        return p, len(gen), res
    return vlib.pmap(one, list(range(jvms)), n=jvms)


def replay_games(chk, files):
    hb = vlib.build_harness("dev")
    tot = {"games": 0, "steps": 0, "distinct": 0, "special_moves": 0, "ops": {}}
    for p, n, _ in files:
        if n == 0:
            continue
        o = json.loads(vlib.harness(hb, ["replay-game", p]))
        for k in ("games", "steps", "distinct", "special_moves"):
            tot[k] += o[k]
        for k, v in o["ops"].items():
            tot["ops"][k] = tot["ops"].get(k, 0) + v
        for s in o["samples"][:1]:
            chk.sample(s, cap=6)
        for m in o["mismatches"]:
            yield m, p
    chk.cov["replayed_behaviours"] = tot


def gen_game_all(chk, depth, workers=8, roots_file=None):
    """Gen_Game MODE "all": every path of moves / null moves to nesting depth `depth` from the MC roots, each
    followed by the take-backs to the root, with the expected state after every step."""
    roots = os.path.join(chk.outdir, "all_roots.ndjson")
    r = vlib.sh(["python3", os.path.join(vlib.VERIF, "tools", "fen2json.py"),
                 roots_file or os.path.join(vlib.VERIF, "data", "mc_roots.txt")])
    open(roots, "w").write(r.stdout)
    cfg = os.path.join(chk.outdir, "Gen_Game_all.cfg")
    gen_cfg(cfg, {"MODE": "all", "MaxDepth": depth, "Steps": 0}, "SPECIFICATION Spec\nINVARIANT Emit\nCHECK_DEADLOCK FALSE\n")
    res = vlib.tlc("Gen_Game", cfg=cfg, env={"ROOTS": roots}, workers=workers, timeout=3400, xmx="10g", dfs=False)
    if res.error:
        raise ToolError("Gen_Game all: " + res.error)
    gen = [d for t, d in res.reports if t == "GEN"]
    p = os.path.join(chk.outdir, "game_all.ndjson")
    vlib.write_ndjson(p, gen)
    return [(p, len(gen), res)]
