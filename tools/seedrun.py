#!/usr/bin/env python3
"""seedrun.py <seeded-name | path/to/patch.diff> <Cxx> [Cyy ...]   (SEED_TIER=quick|thorough)

Re-runs checks against a recorded seeded change without touching /repo: a scratch worktree of /repo's HEAD gets
seeded/<name>/patch.diff, a scratch copy of /verif (no build output) is pointed at it through TCHERAN_REPO, and
both are removed afterwards.  Prints one line per check; updates nothing under /verif."""
import os, sys, subprocess, shutil, time

VERIF = os.path.dirname(os.path.dirname(os.path.abspath(__file__)))


def sh(cmd, cwd=None, env=None, timeout=7200):
    e = dict(os.environ)
    e.update(env or {})
    r = subprocess.run(cmd, shell=True, cwd=cwd, env=e, stdout=subprocess.PIPE, stderr=subprocess.STDOUT, text=True, timeout=timeout)
    return r.returncode, r.stdout


def main():
    name, props = sys.argv[1], sys.argv[2:]
    tag = os.path.basename(name).replace("/", "-").replace(".diff", "")
    wt, scratch = "/tmp/sr-" + tag, "/tmp/srv-" + tag
    sh("git -C /repo worktree remove --force %s" % wt)
    rc, out = sh("git -C /repo worktree add --detach %s HEAD" % wt)
    if rc != 0:
        print("worktree failed", out)
        sys.exit(2)
    try:
        diff = name if name.endswith(".diff") and os.path.exists(name) else os.path.join(VERIF, "seeded", name, "patch.diff")
        rc, out = sh("git apply %s" % os.path.abspath(diff), cwd=wt)
        if rc != 0:
            print("PATCH DOES NOT APPLY", out)
            sys.exit(2)
        shutil.rmtree(scratch, ignore_errors=True)
        sh("rsync -a --exclude out --exclude harness/target --exclude .git --exclude harness/repo_link %s/ %s/" % (VERIF, scratch))
        tier = os.environ.get("SEED_TIER", "quick")
        for p in props:
            t0 = time.time()
            rc, out = sh("./check %s --tier %s" % (p, tier), cwd=scratch, env={"TCHERAN_REPO": wt})
            viol = [l for l in out.splitlines() if l.startswith("VIOLATION")]
            detail = [l for l in out.splitlines() if l.startswith("  ")][:2]
            print("SEEDRUN %s %s exit=%d violations=%d %.0fs %s" % (name, p, rc, len(viol), time.time() - t0,
                                                                    detail[:1] if rc == 1 else out.splitlines()[-2:] if rc else ""))
    finally:
        shutil.rmtree(scratch, ignore_errors=True)
        sh("git -C /repo worktree remove --force %s" % wt)


main()
