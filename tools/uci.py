"""Driving the real engine binary over UCI: scripted sessions under forced schedules (hook H3),
interactive protocol-conforming sessions, state-graph paths of Uci.tla."""
import os, re, json, subprocess, threading, time, random, queue
import vlib

CMD_TEXT = {
    "go": "go depth 1",
    "goinf": "go infinite",
    "stop": "stop",
    "ucinewgame": "ucinewgame",
    "isready": "isready",
    "position": "position startpos moves e2e4 e7e5",
    "setoption": "setoption name Move Overhead value 10",
    "sethash": "setoption name Hash value 2",
    "sethash0": "setoption name Hash value 0",
    "quit": "quit",
}


class Session:
    """One engine process. Lines written to stdin, stdout collected by a reader thread."""

    def __init__(self, binary, schedule=None, trace=None, env=None, args=("uci",)):
        e = dict(os.environ)
        if schedule is not None:
            e["TCHERAN_VERIF_SCHEDULE"] = schedule
        if trace is not None:
            e["TCHERAN_VERIF_TRACE"] = trace
        e.update(env or {})
        self.p = subprocess.Popen([binary] + list(args), stdin=subprocess.PIPE, stdout=subprocess.PIPE,
                                  stderr=subprocess.DEVNULL, text=True, bufsize=1, env=e)
        self.lines = []
        self.counts = {"bestmove": 0, "readyok": 0}
        self.cv = threading.Condition()
        self.eof = False
        self.q = queue.Queue()
        self.t = threading.Thread(target=self._read, daemon=True)
        self.t.start()
        self.sent = []

    def _read(self):
        for line in self.p.stdout:
            line = line.rstrip("\n")
            self.lines.append((time.time(), line))
            with self.cv:
                if line.startswith("bestmove"):
                    self.counts["bestmove"] += 1
                elif line == "readyok":
                    self.counts["readyok"] += 1
                self.cv.notify_all()
            self.q.put(line)
        with self.cv:
            self.eof = True
            self.cv.notify_all()
        self.q.put(None)

    def send(self, line):
        self.sent.append((time.time(), line))
        try:
            self.p.stdin.write(line + "\n")
            self.p.stdin.flush()
        except (BrokenPipeError, ValueError):
            pass

    def wait_count(self, what, target, timeout):
        """Waits until `target` lines of kind `what` (bestmove / readyok) have been printed in total."""
        end = time.time() + timeout
        with self.cv:
            while self.counts[what] < target:
                left = end - time.time()
                if left <= 0 or self.eof:
                    return self.counts[what] >= target
                self.cv.wait(left)
        return True

    def wait_line(self, pred, timeout):
        """Waits for a stdout line satisfying pred; returns it or None on timeout / EOF."""
        end = time.time() + timeout
        while True:
            left = end - time.time()
            if left <= 0:
                return None
            try:
                line = self.q.get(timeout=left)
            except queue.Empty:
                return None
            if line is None:
                return None
            if pred(line):
                return line

    def finish(self, timeout):
        """Waits for the process to exit. Returns exit code, or None if it had to be killed (hang)."""
        try:
            self.p.stdin.close()
        except Exception:
            pass
        try:
            rc = self.p.wait(timeout=timeout)
        except subprocess.TimeoutExpired:
            self.p.kill()
            self.p.wait()
            rc = None
        self.t.join(timeout=2)
        return rc

    def out(self):
        return [l for _, l in self.lines]


def count(lines, prefix):
    return sum(1 for l in lines if l.startswith(prefix))


def read_events(path):
    if not os.path.exists(path):
        return []
    ev = []
    for l in open(path):
        l = l.strip()
        if l:
            try:
                ev.append(json.loads(l))
            except Exception:
                pass
    ev.sort(key=lambda e: e["seq"])
    return [e["ev"] for e in ev]


# ----------------------------------------------------------------------------- state graph
def parse_dot(path):
    """TLC -dump dot,actionlabels: returns (init_id, nodes{id: {lbl, mpc}}, edges[(u, v, action)])."""
    nodes, edges, init = {}, [], None
    node_re = re.compile(r'^(-?\d+) \[label="((?:[^"\\]|\\.)*)"(,style = filled)?')
    edge_re = re.compile(r'^(-?\d+) -> (-?\d+) \[label="([^"]*)"')
    for line in open(path):
        m = edge_re.match(line)
        if m:
            edges.append((m.group(1), m.group(2), m.group(3)))
            continue
        m = node_re.match(line)
        if m:
            txt = m.group(2).replace('\\"', '"').replace("\\n", "\n").replace("\\\\", "\\")
            lm = re.search(r'lbl = <<(.*?)>>', txt)
            parts = [x.strip().strip('"') for x in lm.group(1).split(",")] if lm else []
            mm = re.search(r'mpc = "(\w+)"', txt)
            nodes[m.group(1)] = {"lbl": parts, "mpc": mm.group(1) if mm else None}
            if m.group(3):
                init = m.group(1)
    return init, nodes, edges


def edge_cover_paths(init, nodes, edges, rng, limit=None):
    """Paths (lists of node ids from init) that together traverse every edge at least once:
    shortest path to an uncovered edge, then greedily along uncovered edges."""
    from collections import deque, defaultdict
    adj = defaultdict(list)
    for u, v, a in edges:
        if u != v:
            adj[u].append(v)
    parent = {init: None}
    dq = deque([init])
    while dq:
        u = dq.popleft()
        for v in adj[u]:
            if v not in parent:
                parent[v] = u
                dq.append(v)

    def path_to(u):
        p = []
        while u is not None:
            p.append(u)
            u = parent[u]
        return p[::-1]
    uncovered = set((u, v) for u, v, a in edges if u != v and u in parent)
    order = list(uncovered)
    rng.shuffle(order)
    paths = []
    for (u, v) in order:
        if (u, v) not in uncovered:
            continue
        p = path_to(u) + [v]
        for a, b in zip(p, p[1:]):
            uncovered.discard((a, b))
        cur = v
        while True:
            nxt = [w for w in adj[cur] if (cur, w) in uncovered]
            if not nxt:
                break
            w = rng.choice(nxt)
            uncovered.discard((cur, w))
            p.append(w)
            cur = w
        paths.append(p)
        if limit and len(paths) >= limit:
            break
    return paths, len(uncovered)


# finite `go' commands and positions used in scripts; data-dependent shortcuts in the go handler (a forced move, a mate
# in one, a clock search) must not change the synchronisation
FINITE_GO = ["go depth 1", "go wtime 60000 btime 60000", "go movetime 10", "go depth 2", "go wtime 400 btime 400 movestogo 1"]
SCRIPT_POSITIONS = ["position startpos moves e2e4 e7e5",
                    "position fen 7k/8/8/8/8/8/r7/7K w - - 0 1",          # exactly one legal move
                    "position fen 7k/5Q2/6K1/8/8/8/8/8 w - - 0 1",        # mate in one
                    "position fen 8/8/8/8/8/7k/7p/7K w - - 0 1 moves h1g1",  # hmm: illegal? replaced below
                    "position fen r3k2r/p1ppqpb1/bn2pnp1/3PN3/1p2P3/2N2Q1p/PPPBBPPP/R3K2R w KQkq - 0 1"]
SCRIPT_POSITIONS[3] = "position fen 6k1/8/8/8/8/8/5PPP/r5K1 w - - 0 1"  # in check, few replies (none: mate) -> not used with go
SCRIPT_POSITIONS = [p for i, p in enumerate(SCRIPT_POSITIONS) if i != 3]
# dead material: every search, `go infinite` included, runs through the whole depth range and ends by itself
SCRIPT_POSITIONS.append("position fen 8/8/8/4k3/8/8/8/4K3 w - - 0 1")


def path_to_script(nodes, path, variant=0):
    """Model path -> (commands for stdin, schedule labels with real search ids)."""
    cmds, sched = [], []
    slot_id = {}
    n_go = 0
    for nid in path[1:]:
        lbl = nodes[nid]["lbl"]
        if lbl[0] == "M":
            w = lbl[1]
            if w in ("go", "goinf"):
                n_go += 1
                slot_id[((n_go - 1) % 3) + 1] = n_go
            if w in ("stopwake", "newgamelock"):
                sched.append("M:" + w)
                continue
            if w == "go":
                cmds.append(FINITE_GO[(variant + n_go) % len(FINITE_GO)])
            elif w == "position":
                cmds.append(SCRIPT_POSITIONS[(variant + len(cmds)) % len(SCRIPT_POSITIONS)])
            else:
                cmds.append(CMD_TEXT[w])
            hook_word = "setoption" if w.startswith("sethash") else w
            sched.append("M:" + hook_word)
        elif lbl[0] == "S":
            sched.append("S%d:%s" % (slot_id[int(lbl[1])], lbl[2]))
    return cmds, sched


def run_forced(binary, cmds, sched, workdir, tag, watchdog=20.0, suffix=True):
    """Runs a command script under a forced schedule; afterwards (gates open) sends stop/isready/quit.
    Returns dict(rc, out, events, consumed)."""
    sp = os.path.join(workdir, tag + ".sched")
    tp = os.path.join(workdir, tag + ".events")
    with open(sp, "w") as f:
        f.write(" ".join(sched) + "\n")
    if os.path.exists(tp):
        os.remove(tp)
    s = Session(binary, schedule=sp, trace=tp)
    for c in cmds:
        s.send(c)
    extra = []
    unanswered = False
    if suffix and (not cmds or cmds[-1] != "quit"):
        # free-running suffix once the scheduled prefix is through: stop, then every go must have been answered
        # (C05: "each go is answered by exactly one bestmove ... after stop"), then isready, quit
        n_go = sum(1 for c in cmds if c.startswith("go"))
        s.send("stop")
        if not s.wait_count("bestmove", n_go, watchdog):
            unanswered = True
        s.send("isready")
        s.send("quit")
        extra = ["stop", "isready", "quit"]
    rc = s.finish(watchdog)
    ev = read_events(tp)
    consumed = 0
    for a in ev:
        if consumed < len(sched) and a == sched[consumed]:
            consumed += 1
    return {"rc": rc, "out": s.out(), "events": ev, "consumed": consumed, "cmds": cmds + extra, "sched": sched,
            "unanswered": unanswered}


def expectations(res):
    """PropertyView of C05 on one finished session: every isready answered, one bestmove per go,
    the process exits after quit."""
    cmds = res["cmds"]
    out = res["out"]
    problems = []
    if res["rc"] is None:
        problems.append("process did not exit (killed by the watchdog)")
    elif res.get("unanswered"):
        problems.append("a go was not answered by bestmove within the watchdog after stop (bestmove %d, go %d)" %
                        (count(out, "bestmove"), sum(1 for c in cmds if c.startswith("go"))))
    n_ready = sum(1 for c in cmds if c == "isready")
    n_go = sum(1 for c in cmds if c.startswith("go"))
    if "quit" in cmds:
        qi = cmds.index("quit")
        n_ready = sum(1 for c in cmds[:qi] if c == "isready")
    if res["rc"] is not None:
        if count(out, "readyok") != n_ready:
            problems.append("readyok %d != isready %d" % (count(out, "readyok"), n_ready))
        if count(out, "bestmove") > n_go:
            problems.append("bestmove %d > go %d" % (count(out, "bestmove"), n_go))
    if any("panicked" in l or "panic occurred" in l for l in out):
        problems.append("panic: " + [l for l in out if "panic" in l][0][:200])
    return problems
