"""C06 FEN is lossless on legal positions and never crashes the reader."""
import os, json
import vlib, games


def main():
    chk = vlib.Check("C06", "model_checking")
    q = chk.quick
    roots = os.path.join(chk.outdir, "roots.ndjson")
    r = vlib.sh(["python3", os.path.join(vlib.VERIF, "tools", "fen2json.py"), os.path.join(vlib.VERIF, "data", "roots.txt")])
    open(roots, "w").write(r.stdout)
    nsh = 26
    shards = [chk.seed % nsh, (chk.seed + 7) % nsh, (chk.seed + 13) % nsh] if q else list(range(nsh))
    # writer clause on every walk event + the positions' FENs as reader inputs
    results, paths = games.walk_traces(chk, events=500 if q else 10000, files=4 if q else 16)
    n_events, _ = games.collect_walk(chk, results, paths)
    walk_texts = []
    for p in paths:
        for e in vlib.read_ndjson(p):
            walk_texts.append({"op": "walk-fen", "cs": [ord(c) for c in e["fen"]]})
    wt = os.path.join(chk.outdir, "walk_texts.ndjson")
    vlib.write_ndjson(wt, walk_texts if not q else walk_texts[:1500])

    def gen(sh):
        cfg = os.path.join(chk.outdir, "gf_%d.cfg" % sh)
        games.gen_cfg(cfg, {"SHARD": sh, "NSHARDS": nsh, "LEVEL": 1 if q else 2}, "INIT Init\nNEXT Next\n")
        g = vlib.tlc("Gen_Fen", cfg=cfg, env={"ROOTS": roots}, timeout=3000, xmx="2g")
        if g.error:
            raise vlib.ToolError("Gen_Fen: " + g.error)
        p = os.path.join(chk.outdir, "gf_%d.ndjson" % sh)
        vlib.write_ndjson(p, [d for t, d in g.reports if t == "GEN"])
        return p
    texts = vlib.pmap(gen, shards, n=16) + [wt]
    jobs = []
    for prof in ("dev", "opt"):
        hb = vlib.build_harness(prof)
        for i, p in enumerate(texts):
            jobs.append((prof, hb, p, i))

    def judge(job):
        prof, hb, p, i = job
        ev = os.path.join(chk.outdir, "fev_%s_%d.ndjson" % (prof, i))
        nrand = (1500 if q else 12000)
        vlib.harness(hb, ["fen", p, ev, "--random", nrand, "--seed", chk.seed * 7 + i])
        t = vlib.tlc("Trace_Fen", env={"TRACE": ev}, timeout=3000, xmx="3g")
        if t.error or not t.stats("fen"):
            raise vlib.ToolError("Trace_Fen: " + (t.error or t.stdout[-1500:]))
        return t, ev, prof
    tot = {"events": 0, "ok": 0, "err": 0, "panic": 0, "spec_ok": 0, "ranks_bad": 0}
    for t, ev, prof in vlib.pmap(judge, jobs, n=16):
        s = t.stats("fen")[0]
        for k in tot:
            tot[k] += s[k]
        for d in t.viols("C06"):
            det = d["detail"]
            chk.violation("%s|%s" % (d["what"], det.get("text")), d["what"], {"report": d, "profile": prof},
                          replay={"kind": "fen-text", "text": det.get("text"), "profile": prof})
    if tot["spec_ok"] == 0 or tot["ranks_bad"] == 0:
        raise vlib.ToolError("vacuous FEN run: %s" % tot)
    chk.cov.update({
        "states": tot["events"], "transitions": tot["events"],
        "evaluations": tot["events"] + n_events,
        "distinct_nontrivial": tot["ranks_bad"] + tot["spec_ok"],
        "reader_events": tot,
        "rule": "texts = specification-written canonical FENs of base positions x ~350 corruption operators (TLC-enumerated) + FENs of walk "
                "positions + random bytes / token soups / mutated FENs, each fed to the reader in the checked and the optimised build and "
                "judged by the grammar Fen.tla; writer clause on every walk event. non-trivial = texts with wrong rank structure or accepted by the grammar",
    })
    chk.sample({"text": "3k41/3p3/8/K1P4r/8/8/8/8 b - - 0 1", "op": "compensate", "expected": "err"})
    chk.assumptions += ["counters with more than nine digits and the move number 0 are outside the grammar: only 'no crash' is required for them"]
    return chk.finish()
