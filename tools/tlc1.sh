#!/bin/sh
# usage: tlc1.sh <metadir> <cfg> <tla> [extra tlc args]   (single worker, serial GC, deep stack, depth-first queue)
META=$1; CFG=$2; TLA=$3; shift 3
exec java -XX:+UseSerialGC -Xss1g -Xmx${TLC_XMX:-3g} -Dtlc2.tool.queue.IStateQueue=StateDeque \
  -cp /opt/veriftools/tla/tla2tools.jar:/opt/veriftools/tla/CommunityModules-deps.jar tlc2.TLC \
  -workers 1 -nowarning -metadir "$META" -noGenerateSpecTE -config "$CFG" "$@" "$TLA"
