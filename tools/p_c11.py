"""C11 Repetition, fifty-move and dead-material draws follow the game history."""
import os, json
import vlib, games, nodes


def main():
    chk = vlib.Check("C11", "model_checking")
    q = chk.quick
    mc = games.mc_game(chk, depth=2 if q else 3, workers=8 if q else 16)
    roots = os.path.join(vlib.VERIF, "data", "roots_c11.txt")
    results, paths = games.walk_traces(chk, events=700 if q else 15000, files=8 if q else 32, roots=roots,
                                       max_depth=30, label="clocks")
    n1, _ = games.collect_walk(chk, results, paths)
    results2, paths2 = games.walk_traces(chk, events=300 if q else 10000, files=4 if q else 16, label="general")
    n2, _ = games.collect_walk(chk, results2, paths2)
    st = [r.stats("trace")[0] for r in results + results2]
    tot = {k: sum(s[k] for s in st) for k in ("reps", "fifties", "clock100", "insuf", "nulls", "undos", "makes")}
    if tot["reps"] == 0 or tot["clock100"] == 0 or tot["insuf"] == 0:
        raise vlib.ToolError("walks produced no repetition / no clock>=100 / no dead material: vacuous (%s)" % tot)
    # dead material: enumerated signatures
    hb = vlib.build_harness("dev")
    shards = 7

    def one(sh):
        cfg = os.path.join(chk.outdir, "gm_%d.cfg" % sh)
        games.gen_cfg(cfg, {"SHARD": sh, "NSHARDS": shards, "DENSITY": 8 if q else 1, "MaxExtra": 3}, "INIT Init\nNEXT Next\n")
        r = vlib.tlc("Gen_Material", cfg=cfg, timeout=3400, xmx="2g")
        if r.error:
            raise vlib.ToolError("Gen_Material: " + r.error)
        gen = [d for t, d in r.reports if t == "GEN"]
        p = os.path.join(chk.outdir, "gm_%d.ndjson" % sh)
        vlib.write_ndjson(p, gen)
        return json.loads(vlib.harness(hb, ["replay-positions", p])), p, gen
    n_mat = 0
    verdicts = {"T": 0, "F": 0, "-": 0}
    for o, p, gen in vlib.pmap(one, list(range(shards)), n=7):
        n_mat += o["n"]
        for g in gen:
            verdicts[g["ipv"]] += 1
        for m in o["mismatches"]:
            if m["what"] == "material":
                chk.violation("material|%s" % m["fen"], "material-generated", m, replay={"kind": "gen-position", "file": p})
            elif m["what"] == "material-cv":
                chk.drift.append({"what": "material-cv", "detail": m, "source": p})
    if min(verdicts["T"], verdicts["F"]) == 0:
        raise vlib.ToolError("material family is one-sided: %s" % verdicts)
    # node level (hook H6, Trace_Nodes.tla): every step of every node of recorded searches replayed on a stack of
    # rule-book positions; this check reports the clauses filed under its own property
    nstat = nodes.standard(chk, ("C11",), scale=0.5)
    if nstat["counts"].get("D", 0) == 0:
        raise vlib.ToolError("no draw recognised inside a recorded search: %s" % nstat)
    chk.cov.update({
        "evaluations": n1 + n2 + n_mat,
        "distinct_nontrivial": tot["reps"] + tot["clock100"] + verdicts["T"],
        "walk_totals": tot, "material_positions": n_mat, "material_verdicts": verdicts,
        "rule": "per event: repetition verdict = rule-book scan of the saved positions back to the last capture/pawn move "
                "(null-free histories; with null moves only soundness), fifty-move verdict = clock>=100 and a legal move exists, "
                "material verdict against the stated cases; plus all material signatures with <=3 extra pieces on 7 squares x 12 king "
                "placements x both sides to move. non-trivial = events with a true repetition, clock >= 100, or generated positions "
                "that must be declared dead",
    })
    chk.sample({"first_trace": paths[0], "totals": tot})
    chk.assumptions += ["with null moves in the history only the sound direction of the repetition rule is required"]
    return chk.finish()
