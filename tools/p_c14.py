"""C14 Time allocation never exceeds what the clock allows.

Phase W (timing-sensitive, nothing else of this check running): wall-clock runs of the released binary,
one at a time (`go wtime t btime t ...`, elapsed from writing `go` to reading `bestmove` must be < t; a miss
is re-run twice, three misses out of three are a violation) and the poll-gap measurement (harness
`time pollgap`, validated by Trace_TimeAlloc, whose largest gap becomes MaxPollGap of the timed model).
Phase M (parallel TLC jobs): MC_TimeAlloc on the grid (CodeView => PropertyView; the same grid is written
out for the harness), the timed poll model with the measured MaxPollGap, the real TimeStrategy::new on the
grid + seeded random situations + the wall-clock situations + crash probes in both build profiles, and
Trace_TimeAlloc on every recorded event (PropertyView -> VIOLATION, CodeView -> DRIFT)."""
import os, json, glob, math, queue, subprocess, threading, time, filecmp
from concurrent.futures import ThreadPoolExecutor
import vlib
from vlib import ToolError, log

REM_MIN_MS = 200       # "given at least a fifth of a second on its clock"
CHUNK = 50000          # events per trace file (an event is < 0.3 kB)
T_SET = [200, 250, 500, 1000, 3000]


# ----------------------------------------------------------------------------- UCI process, one timed `go`
class Engine:
    def __init__(self, path):
        self.p = subprocess.Popen([path, "uci"], stdin=subprocess.PIPE, stdout=subprocess.PIPE,
                                  stderr=subprocess.DEVNULL, bufsize=0)
        self.q = queue.Queue()
        self.last_info = None
        threading.Thread(target=self._rd, daemon=True).start()

    def _rd(self):
        for l in iter(self.p.stdout.readline, b""):
            self.q.put((time.monotonic(), l.decode(errors="replace").strip()))
        self.q.put((time.monotonic(), None))

    def send(self, s):
        try:
            self.p.stdin.write((s + "\n").encode())
        except (BrokenPipeError, OSError):
            pass

    def wait(self, prefix, timeout):
        end = time.monotonic() + timeout
        while True:
            try:
                t, l = self.q.get(timeout=max(0.0, end - time.monotonic()))
            except queue.Empty:
                return None, None
            if l is None:
                return None, "eof"
            if l.startswith("info"):
                self.last_info = l[:160]
            if l.startswith(prefix):
                return t, l

    def close(self):
        self.send("quit")
        try:
            self.p.wait(3)
        except subprocess.TimeoutExpired:
            self.p.kill()
            self.p.wait()


class Unusable(Exception):
    """The position gives no move at depth 1 (terminal, or not accepted): nothing can be timed on it."""


def timed_go(eng_path, fen, go, overhead, hash_mb=None):
    """One fresh process, one timed `go`: dict(elapsed s or None, bestmove line, depth-1 round trip s, last info)."""
    e = Engine(eng_path)
    try:
        e.send("uci")
        if e.wait("uciok", 20)[0] is None:
            raise ToolError("engine did not answer uci")
        if overhead:
            e.send("setoption name Move Overhead value %d" % overhead)
        e.send("position fen " + fen)
        e.send("isready")
        if e.wait("readyok", 120)[0] is None:
            raise ToolError("engine did not answer isready (position %s)" % fen)
        t0 = time.monotonic()
        e.send("go depth 1")
        t, l = e.wait("bestmove", 20)
        if t is None or len(l.split()) < 2 or l.split()[1] in ("0000", "(none)"):
            raise Unusable(fen)
        lat = t - t0
        # the timed search starts on cold tables (the probe above must not make it cheaper)
        if hash_mb:
            # a table of the largest advertised size is asked for before the game: whatever that costs is over when
            # isready has been answered, and must not be charged to the clock of the first search after it
            e.send("setoption name Hash value %d" % hash_mb)
        e.send("ucinewgame")
        e.send("position fen " + fen)
        e.send("isready")
        e.wait("readyok", 120)
        t0 = time.monotonic()
        e.send(go)
        t, l = e.wait("bestmove", 30)          # generous watchdog: only a hang or a crash ends here
        return {"elapsed": (t - t0) if t is not None else None, "line": l, "latency": lat, "last_info": e.last_info}
    finally:
        e.close()


def wall_clock_cases(chk, fens):
    """(fen, situation in the model's vocabulary, go text). Side to move is read off the FEN."""
    cases = []

    def add(k, t, inc=None, mtg=None, ovh=0, only_own=False, want_black=None):
        pool = [f for f in fens if want_black is None or (f.split()[1] == "b") == want_black]
        fen = pool[(k + chk.seed) % len(pool)]
        black = fen.split()[1] == "b"
        own, oth = ("b", "w") if black else ("w", "b")
        parts = {own + "time": t}
        # the opponent's clock is ten times larger: an engine that reads the wrong side's clock overruns its own
        ot = t * 10
        if not only_own:
            parts[oth + "time"] = ot
        if inc is not None:
            parts[own + "inc"] = inc
            if not only_own:
                parts[oth + "inc"] = inc
        go = "go" + "".join(" %s %d" % (k2, parts[k2]) for k2 in ("wtime", "btime", "winc", "binc") if k2 in parts)
        if mtg is not None:
            go += " movestogo %d" % mtg
        has_oinc = 1 if (inc is not None and not only_own) else 0
        sit = {"rem": t, "inc": inc if inc is not None else -1, "mtg": mtg if mtg is not None else -1, "mt": -1,
               "ovh": ovh, "orem": ot, "oinc": inc if has_oinc else -1, "stm": "b" if black else "w",
               "has": [1, 0 if inc is None else 1, 0 if mtg is None else 1, 0, 0 if only_own else 1, has_oinc]}
        cases.append({"fen": fen, "go": go, "ovh": ovh, "t": t, "sit": sit})

    k = 0
    if chk.quick:
        rot = [dict(mtg=1), dict(inc=5000), dict(inc=None, mtg=40)]
        for j, t in enumerate(T_SET):
            add(k, t); k += 1
            v = dict(rot[j % 3])
            if "inc" in v and v["inc"] is None:
                v["inc"] = t // 10
            add(k, t, **v); k += 1
        add(k, 200, mtg=1, want_black=True); k += 1
        add(k, 250, inc=5000, ovh=50); k += 1
    else:
        for rnd in range(3):
            for t in T_SET:
                for inc in (None, t // 10, 5000):
                    for mtg in (None, 1, 40):
                        add(k, t, inc=inc, mtg=mtg); k += 1
        for t in T_SET:
            add(k, t, mtg=1, only_own=True); k += 1
            add(k, t, inc=5000, ovh=min(50, t // 4)); k += 1
            add(k, t, mtg=1, want_black=True); k += 1
    # the largest advertised table, set before the game
    n0 = len(cases)
    add(k, 300 if chk.quick else 250); k += 1
    if not chk.quick:
        add(k, 500, inc=50); k += 1
    for c in cases[n0:]:
        c["hash"] = 1024
    # positions whose very first iteration takes seconds (quiescence explosion): the clock must still be respected
    heavy = [l.strip() for l in open(os.path.join(vlib.VERIF, "data", "explosive_heavy.txt")) if l.strip()]
    fens_save = list(fens)
    fens[:] = heavy
    try:
        for j in range(2 if chk.quick else len(heavy)):
            add(j, 300 if j % 2 == 0 else 500)
    finally:
        fens[:] = fens_save
    return cases


def phase_wall_clock(chk, eng, fens):
    cases = wall_clock_cases(chk, fens)
    worst_ratio, lats, first_misses = 0.0, [], 0
    for c in cases:
        tries = []
        for attempt in range(3):
            r = None
            for alt in range(6):                    # a root without a move at depth 1 is replaced by the next one
                try:
                    r = timed_go(eng, c["fen"], c["go"], c["ovh"], c.get("hash"))
                    break
                except Unusable:
                    same = [f for f in fens if f.split()[1] == c["fen"].split()[1]]
                    c["fen"] = same[(same.index(c["fen"]) + 1) % len(same)]
            if r is None:
                raise ToolError("no usable position for the wall-clock run near %s" % c["fen"])
            lats.append(r["latency"])
            el = r["elapsed"]
            tries.append(None if el is None else round(el * 1000, 3))
            if el is not None and el * 1000 < c["t"]:
                break
            if attempt == 0:
                first_misses += 1
            log("  wall-clock miss %d/3: %s | %s -> %s ms (%s; engine's last report: %s)" %
                (attempt + 1, c["fen"], c["go"], tries[-1], r["line"], r["last_info"]))
        c["tries"] = tries
        ok = tries[-1] is not None and tries[-1] < c["t"]
        c["elapsed_ms"] = tries[-1]
        if ok:
            worst_ratio = max(worst_ratio, tries[-1] / c["t"])
        else:
            what = "no-move-at-all-crash-or-hang" if all(x is None for x in tries) else "move-returned-after-clock-ran-out"
            chk.violation("%s|%s|overhead=%d" % (c["fen"], c["go"], c["ovh"]), what,
                          {"elapsed_ms_three_attempts": tries, "clock_ms": c["t"]},
                          replay={"kind": "wall-clock", "fen": c["fen"], "go": c["go"], "move_overhead": c["ovh"],
                                  "binary": "cargo build --release in /repo (default features), started as `engine uci`"})
    # third largest: a latency that belongs to the code shows at least three times, a hiccup of the box does not
    lat = sorted(lats)[-3] if len(lats) >= 3 else max(lats)
    return cases, worst_ratio, lat, max(lats), first_misses



# ----------------------------------------------------------------------------- the real `go` arm of the UCI loop
START = {"w": "rnbqkbnr/pppppppp/8/8/8/8/PPPPPPPP/RNBQKBNR w KQkq - 0 1",
         "b": "rnbqkbnr/pppppppp/8/8/8/8/PPPPPPPP/RNBQKBNR b KQkq - 0 1"}


def ns_limbs(ns):
    ms = ns // 1000000
    return [-1, -1] if ms > 2000000000 else [ms, ns % 1000000]


def engine_go_events(eng_hooks, evs, out):
    """Sends the situations of the harness events `evs` to the hooks build of the real binary as UCI text
    (setoption Move Overhead, position, go, stop) and rewrites each event with what the binary's own `go` arm
    computed (hook `note_go`): kind of time control, limits, and what the parser had made of the text."""
    log_path = out + ".golimits"
    if os.path.exists(log_path):
        os.remove(log_path)
    env = dict(os.environ)
    env["TCHERAN_VERIF_GOLIMITS"] = log_path
    p = subprocess.Popen([eng_hooks, "uci"], stdin=subprocess.PIPE, stdout=subprocess.PIPE, stderr=subprocess.DEVNULL,
                         env=env, text=True, bufsize=1)

    def wait(prefix):
        while True:
            l = p.stdout.readline()
            if not l:
                return False
            if l.startswith(prefix):
                return True
    sent = []
    try:
        for e in evs:
            p.stdin.write("setoption name Move Overhead value %d\nposition fen %s\n%s\nstop\n" % (e["ovh"], START[e["side"]], e["go"]))
            p.stdin.flush()
            if not wait("bestmove"):
                break
            sent.append(e)
        p.stdin.write("quit\n")
        p.stdin.flush()
    except (BrokenPipeError, OSError):
        pass
    try:
        p.wait(10)
    except subprocess.TimeoutExpired:
        p.kill()
        p.wait()
    notes = vlib.read_ndjson(log_path) if os.path.exists(log_path) else []
    if len(sent) != len(evs) or len(notes) != len(evs):
        raise ToolError("real go arm: %d situations sent, %d answered, %d hook lines (is the note_go hook compiled in?)"
                        % (len(evs), len(sent), len(notes)))
    res = []
    for e, n in zip(evs, notes):
        if n["stm"] != e["side"]:
            raise ToolError("real go arm: side to move %s for situation %s" % (n["stm"], e))
        own, inc = ("wtime", "winc") if e["side"] == "w" else ("btime", "binc")
        ms = lambda v: -1 if v < 0 else (-2 if v // 1000000 > 2000000000 else v // 1000000)
        r = dict(e)
        r.update({"src": "engine", "tc": n["tc"], "soft": ns_limbs(n["soft"]), "hard": ns_limbs(n["hard"]), "out": "ok", "msg": "",
                  "parsed": [ms(n[own]), ms(n[inc]), n["mtg"], ms(n["mt"]), n["ovh"]]})
        res.append(r)
    vlib.write_ndjson(out, res)
    os.remove(log_path)
    return res

# ----------------------------------------------------------------------------- helpers
def trace(path, what):
    r = vlib.tlc("Trace_TimeAlloc", env={"TRACE": path}, timeout=3000, xmx="2g")
    if r.error or not r.ok:
        raise ToolError("Trace_TimeAlloc failed on %s: %s" % (path, r.error or r.stdout[-1500:]))
    if r.viols("TRACE"):
        raise ToolError("malformed trace %s: %s" % (path, r.viols("TRACE")[0]))
    if not r.stats(what):
        raise ToolError("Trace_TimeAlloc printed no %s statistics for %s" % (what, path))
    r.path = path
    return r


def write_cfg(path, consts, tail):
    with open(path, "w") as f:
        f.write("CONSTANTS\n")
        for k, v in consts.items():
            f.write("  %s = %s\n" % (k, v))
        f.write(tail)


def limb_ms(l):
    return l[0] + l[1] / 1e6


def main():
    chk = vlib.Check("C14", "model_checking")
    q = chk.quick
    od = chk.outdir
    hb_dev = vlib.build_harness("dev")
    hb_opt = vlib.build_harness("opt")
    eng = vlib.build_engine(profile="release", hooks=False)
    fens = [l.strip() for l in open(os.path.join(vlib.VERIF, "data", "roots.txt")) if l.strip()]

    # ------------------------------------------------------------------ phase W: timing-sensitive, sequential
    tw = time.time()
    cases, worst_ratio, lat_max, lat_any, first_misses = phase_wall_clock(chk, eng, fens)
    log("[C14] wall-clock: %d runs, %d first-attempt misses, max elapsed/clock %.3f, %.1fs" %
        (len(cases), first_misses, worst_ratio, time.time() - tw))
    fenfile = os.path.join(od, "pollgap_fens.txt")
    with open(fenfile, "w") as f:
        rich = fens[:12]                              # start position and the perft roots: searches that last
        f.write("\n".join(rich[(chk.seed + i) % len(rich)] for i in range(3 if q else 8)) + "\n")
    # Three repetitions of the same searches: a poll gap that belongs to the code shows in all three, a scheduling
    # hiccup of the box (or of the monitor thread) does not -- the same discipline as for the wall-clock runs.
    reps = []
    for rep in range(3):
        pf = os.path.join(od, "pollgap_%d.ndjson" % rep)
        with open(pf, "w") as f:
            for j, go in enumerate(["go wtime 1000 btime 1000 movestogo 1", "go wtime 3000 btime 3000"]):
                p = os.path.join(od, "pollgap_%d_%d.ndjson" % (rep, j))
                o = json.loads(vlib.harness(hb_opt, ["time", "pollgap", fenfile, go, 3 if q else 8, p], timeout=600))
                if o["runs"] == 0 or o["polls"] == 0:
                    raise ToolError("vacuous poll-gap measurement: %s" % o)
                f.write(open(p).read())
                os.remove(p)
        reps.append(pf)
    rps = vlib.pmap(lambda p: trace(p, "poll"), reps, n=3)
    pss = [r.stats("poll")[0] for r in rps]
    if sum(x["runs_stopped_by_hard"] for x in pss) == 0:
        raise ToolError("no measured search was ended by its hard limit: %s" % pss)
    gap_ms = min(x["max_gap_ns"] for x in pss) / 1e6              # systematic: present in every repetition
    gap_any_ms = max(x["max_gap_ns"] for x in pss) / 1e6
    ps = {"runs": sum(x["runs"] for x in pss), "polls": sum(x["polls"] for x in pss),
          "max_over_hard_ns": max(x["max_over_hard_ns"] for x in pss)}
    # abstract time unit of the timed model: 2 ms, coarser when the measured gap is large (keeps MaxPollGap <= 8 units;
    # rounding is conservative: gaps and latencies up, the clock down)
    unit_ms = max(2, math.ceil(gap_ms / 8))
    g_units = max(1, math.ceil(gap_ms / unit_ms))
    # go -> bestmove of a depth-1 search bounds start-up plus return latency; charged in full to each of them
    lat_units = max(1, math.ceil(lat_max * 1000 / unit_ms))
    log("[C14] measured MaxPollGap %.3f ms in each of three repetitions (largest single gap %.3f ms; %d polls in %d "
        "searches), depth-1 round trip %.3f ms" % (gap_ms, gap_any_ms, ps["polls"], ps["runs"], lat_max * 1000))

    # ------------------------------------------------------------------ phase M: TLC jobs in parallel
    nsh = 4 if q else 16
    rem_units = REM_MIN_MS // unit_ms

    def job(j):
        kind = j[0]
        if kind == "grid":
            sh = j[1]
            cfg = os.path.join(od, "mc_grid_%d.cfg" % sh)
            write_cfg(cfg, {"Dense": "FALSE" if q else "TRUE", "Shard": sh, "NShards": nsh, "MaxPollGap": 1,
                            "StartLat": 0, "RetLat": 0, "RemChoices": "{1}", "DenseSoft": "FALSE"},
                      "SPECIFICATION GSpec\nINVARIANT CodeImpliesProperty\nINVARIANT NoCrashInDomain\n"
                      "INVARIANT SoftNeverAboveHard\nINVARIANT Normalised\nCHECK_DEADLOCK FALSE\n")
            base = os.path.join(od, "grid_%d" % sh)
            r = vlib.tlc("MC_TimeAlloc", cfg=cfg, env={"GRIDOUT": base}, extra=["-coverage", "1"], timeout=3000)
            if r.error or not r.ok:
                raise ToolError("MC_TimeAlloc (grid shard %d): the CodeView formula does not satisfy the "
                                "PropertyView invariants, or TLC failed:\n%s" % (sh, r.error or r.stdout[-2000:]))
            if r.coverage.get("Allocate", (0, 0))[0] == 0:
                raise ToolError("vacuous grid shard %d: %s" % (sh, r.coverage))
            grid = base + ".ndjson"
            with open(grid, "w") as f:
                for p in sorted(glob.glob(base + ".*")):
                    if p != grid:
                        f.write(open(p).read())
                        os.remove(p)
            return ("grid", r, grid, 0)
        if kind == "timed":
            _, name, rems, dense = j
            cfg = os.path.join(od, "mc_timed_%s.cfg" % name)
            write_cfg(cfg, {"Dense": "FALSE", "Shard": 0, "NShards": 1, "MaxPollGap": g_units, "StartLat": lat_units,
                            "RetLat": lat_units, "RemChoices": rems, "DenseSoft": dense},
                      "SPECIFICATION TimedSpec\nINVARIANT ReturnsInTime\nINVARIANT NeverLate\nINVARIANT TTypeOK\n"
                      "PROPERTY EventuallyStops\nCHECK_DEADLOCK FALSE\n")
            r = vlib.tlc("MC_TimeAlloc", cfg=cfg, env={"GRIDOUT": ""}, extra=["-coverage", "1"], timeout=3000)
            r.name = name
            return ("timed", r, None, 0)
        if kind == "extra":       # wall-clock situations, crash probes with numbers beyond 32 bits, random situations
            grid = os.path.join(od, "extra_grid.ndjson")
            big = 9223372036854775807
            probes = []
            for stm in ("w", "b"):
                for rem, inc, mt, has in [(big, big, -1, [1, 1, 0, 0, 1, 1]), (big, -1, -1, [1, 0, 0, 0, 0, 0]),
                                          (-1, -1, big, [0, 0, 0, 1, 0, 0]), (4294967296000, 0, -1, [1, 1, 0, 0, 1, 1]),
                                          (2000000001, 5, -1, [1, 1, 0, 0, 1, 1]), (-big, -big, -1, [1, 1, 0, 0, 1, 1])]:
                    probes.append({"rem": rem, "inc": inc, "mtg": -1, "mt": mt, "ovh": 0, "orem": abs(rem) if rem != -1 else -1,
                                   "oinc": abs(inc) if inc != -1 else -1, "has": has, "stm": stm})
                # PropertyView-only range (beyond the CodeView arithmetic) and very large movestogo
                probes.append({"rem": 1999999999, "inc": 1000, "mtg": 2000000000, "mt": -1, "ovh": 0, "orem": 5, "oinc": 5,
                               "has": [1, 1, 1, 0, 1, 1], "stm": stm})
                probes.append({"rem": 60000, "inc": 1000, "mtg": 4294967295, "mt": -1, "ovh": 0, "orem": 5, "oinc": 5,
                               "has": [1, 1, 1, 0, 1, 1], "stm": stm})
                probes.append({"rem": 500000000, "inc": 100000000, "mtg": 65536, "mt": -1, "ovh": 250000000, "orem": 5,
                               "oinc": 5, "has": [1, 1, 1, 0, 1, 1], "stm": stm})
            vlib.write_ndjson(grid, [c["sit"] for c in cases] + probes)
            return ("extra", None, grid, 20000 if q else 100000)
        raise AssertionError(kind)

    # the timed model runs beside the grid pipeline (all limits allowed by PropertyView, clocks of 200 ms and more)
    u = rem_units
    timed_jobs = [("timed", "sparse", "{%d, %d}" % (u, u + 1), "FALSE")] if q else \
                 [("timed", "sparse", "{%d, %d, %d}" % (u, u + 1, 250 // unit_ms), "FALSE"),
                  ("timed", "dense", "{%d}" % u, "TRUE")]
    bg = ThreadPoolExecutor(max_workers=2)
    timed_futs = [bg.submit(job, tj) for tj in timed_jobs]
    tm = time.time()
    stage1 = vlib.pmap(job, [("grid", sh) for sh in range(nsh)] + [("extra",)], n=14)
    log("[C14] grid model-checked in %d shards, %.1fs" % (nsh, time.time() - tm))

    # real TimeStrategy::new on every situation, both build profiles
    def run_harness(item):
        kind, r, grid, nrand = item
        if grid is None:
            return []
        tag = os.path.basename(grid)[:-7]
        evs = {}
        for prof, hb in (("dev", hb_dev), ("opt", hb_opt)):
            ev = os.path.join(od, "ev_%s_%s.ndjson" % (tag, prof))
            o = json.loads(vlib.harness(hb, ["time", "tuples", grid, nrand, chk.seed, ev], timeout=1800))
            if o["events"] == 0:
                raise ToolError("harness produced no events for %s" % grid)
            evs[prof] = ev
        same = filecmp.cmp(evs["dev"], evs["opt"], shallow=False)
        files = [evs["dev"]] if same else [evs["dev"], evs["opt"]]
        if same:
            os.remove(evs["opt"])
        chunks = []
        for fpath in files:
            with open(fpath) as f:
                lines = f.readlines()
            for k in range(0, len(lines), CHUNK):
                cp = "%s.%d" % (fpath, k // CHUNK)
                with open(cp, "w") as g:
                    g.writelines(lines[k:k + CHUNK])
                chunks.append((cp, same, kind))
            if kind != "extra":
                os.remove(fpath)
        return chunks
    chunks = [c for cs in vlib.pmap(run_harness, stage1, n=8) for c in cs]
    log("[C14] harness events recorded in both profiles, %.1fs" % (time.time() - tm))
    traces = vlib.pmap(lambda c: trace(c[0], "lim"), chunks, n=14)
    log("[C14] %d trace files validated, %.1fs" % (len(traces), time.time() - tm))

    # ------------------------------------------------------------------ phase E: the binary's own `go` arm
    # The harness copies the statements of the `go` arm; here the same situations go through the real UCI loop of
    # the hooks build (checked arithmetic) as text, and the limits its TimeStrategy computed are judged by the same
    # clauses.  Limits that differ from the harness's for the same text mean the copy no longer represents the code.
    eng_hooks = vlib.build_engine(profile="dev", hooks=True)
    pool = [e for e in vlib.read_ndjson(os.path.join(od, "ev_extra_grid_dev.ndjson"))
            if e["rng"] == 2 and e["out"] == "ok" and not (e["has"][2] == 1 and e["mtg"] == 0)]
    n_e = 600 if q else 6000
    head = pool[:len(cases)]                                   # the wall-clock situations
    rest = pool[len(cases):]
    step = max(1, len(rest) // max(1, n_e - len(head)))
    picked = head + rest[chk.seed % step::step][:n_e - len(head)]
    parts = [picked[i::8] for i in range(8)]
    eouts = vlib.pmap(lambda a: engine_go_events(eng_hooks, a[1], os.path.join(od, "ev_engine_%d.ndjson" % a[0])),
                      list(enumerate(parts)), n=8)
    etraces = vlib.pmap(lambda i: trace(os.path.join(od, "ev_engine_%d.ndjson" % i), "lim"), list(range(8)), n=8)
    eng_events = eng_differs = 0
    for i, (r, part, got) in enumerate(zip(etraces, parts, eouts)):
        cp = os.path.join(od, "ev_engine_%d.ndjson" % i)
        traces.append(r)
        chunks.append((cp, True, "extra"))
        for h, g in zip(part, got):
            eng_events += 1
            if (h["soft"], h["hard"], h["tc"], h["parsed"]) != (g["soft"], g["hard"], g["tc"], g["parsed"]):
                eng_differs += 1
                chk.drift.append({"what": "go-arm-of-the-binary-differs-from-the-harness-copy",
                                  "detail": {"go": h["go"], "side": h["side"], "ovh": h["ovh"],
                                             "harness": [h["tc"], h["parsed"], h["soft"], h["hard"]],
                                             "binary": [g["tc"], g["parsed"], g["soft"], g["hard"]]}, "source": cp})
    if eng_events == 0:
        raise ToolError("no situation went through the real go arm")
    log("[C14] %d situations through the real go arm of the UCI loop (%d differ from the harness copy), %.1fs"
        % (eng_events, eng_differs, time.time() - tm))

    # ------------------------------------------------------------------ collect
    states = transitions = 0
    for kind, r, grid, _ in stage1:
        if kind == "grid":
            states += r.distinct
            transitions += r.distinct // 2          # one Allocate/Crash step per situation
    timed_ok, timed_states = True, 0
    for f in timed_futs:
        timed = f.result()[1]
        if timed.ok and not timed.error:
            for a in ("TAdvance", "TPoll", "TBoundary"):
                if timed.coverage.get(a, (0, 0))[0] == 0:
                    raise ToolError("timed model: action %s never taken: %s" % (a, timed.coverage))
            states += timed.distinct
            timed_states += timed.distinct
            transitions += timed.states
        elif timed.error and "ReturnsInTime" in timed.error:
            timed_ok = False
            chk.drift.append({"what": "measured-poll-gap-breaks-the-premise-of-the-timed-model",
                              "detail": {"max_poll_gap_ms": gap_ms, "unit_ms": unit_ms, "MaxPollGap": g_units,
                                         "StartLat": lat_units, "RetLat": lat_units}, "source": "MC_TimeAlloc TimedSpec " + timed.name})
        else:
            raise ToolError("MC_TimeAlloc (timed %s): %s" % (timed.name, timed.error or timed.stdout[-2000:]))
    bg.shutdown()
    log("[C14] timed model done, %.1fs" % (time.time() - tm))

    tot = {}
    ood, identical = [], True
    for r, (cp, same, kind) in zip(traces, chunks):
        identical = identical and same
        for k, v in r.stats("lim")[0].items():
            tot[k] = tot.get(k, 0) + v
        for d in r.viols("C14"):
            det = d["detail"]
            chk.violation("%s|%s|overhead=%s|side=%s" % (d["what"], det.get("go"), det.get("ovh"), det.get("side")),
                          d["what"], {"report": d, "trace": cp},
                          replay={"kind": "time-tuple", "setoption": "setoption name Move Overhead value %s" % det.get("ovh"),
                                  "go": det.get("go"), "side_to_move": det.get("side"), "trace": cp, "line": d.get("at"),
                                  "how": "harness `time tuples <grid> 0 0 <out>` with this situation; Trace_TimeAlloc on <out>"})
        for d in r.drifts("C14"):
            chk.drift.append({"what": d["what"], "detail": d["detail"], "source": cp})
        ood += r.viols("C14-OOD")
        if kind != "extra" and not r.viols("C14") and not r.drifts("C14"):
            os.remove(cp)                            # only chunks named by a report are kept
    for r in rps:
        ood += r.viols("C14-OOD")
    if tot.get("nontrivial", 0) == 0 or tot.get("cap_binds", 0) == 0 or tot.get("crash_only", 0) == 0:
        raise ToolError("vacuous trace validation: %s" % tot)

    # hard limits of the wall-clock situations, from the harness events (first lines of the extra file)
    evx = vlib.read_ndjson(os.path.join(od, "ev_extra_grid_dev.ndjson"))[:len(cases)]
    over = 0.0
    for c, e in zip(cases, evx):
        if e["go"] != c["go"]:
            raise ToolError("wall-clock situation and harness event differ: %s / %s" % (c["go"], e["go"]))
        c["hard_ms"] = limb_ms(e["hard"])
        if c.get("elapsed_ms") is not None:
            over = max(over, c["elapsed_ms"] - c["hard_ms"])
    for c in cases[:3]:
        chk.sample({"fen": c["fen"], "go": c["go"], "hard_limit_ms": round(c["hard_ms"], 3), "elapsed_ms": c["tries"]})
    for e in evx[3:6]:
        chk.sample({"go": e["go"], "move_overhead": e["ovh"], "soft": e["soft"], "hard": e["hard"]})

    ood_keys = sorted({(d["what"], d["detail"].get("msg", "")) for d in ood})
    for w, m in ood_keys:
        ex = next(d for d in ood if d["what"] == w and d["detail"].get("msg", "") == m)
        log("NOTE outside the domain of C14 (not a violation): %s: %s  e.g. %s" %
            (w, m, ex["detail"].get("go") or ex["detail"].get("fen")))

    # supplementary, unbounded: TLAPS proves soft <= hard <= cap for the abstract shape of the formula, for all naturals
    pr = vlib.tlaps("TimeAllocProof", chk.outdir)
    chk.cov["tlaps_limit_inequalities"] = {"proved": pr[0], "total": pr[1]} if pr else "not-run"
    if pr and pr[0] != pr[1]:
        raise ToolError("TLAPS no longer proves TimeAllocProof: %s" % (pr,))
    chk.cov.update({
        "states": states, "transitions": transitions,
        "traces_validated_against_impl": len(traces) + len(rps),
        "evaluations": tot["events"], "distinct_nontrivial": tot["nontrivial"],
        "rule": "clock situations (remaining, increment, movestogo, overhead, side to move, which fields were sent) from the "
                "model-checked grid, seeded random draws and the wall-clock runs, sent as UCI text through the real parser into "
                "the real TimeStrategy::new in both build profiles; non-trivial = inside the property's domain, mover's clock "
                "sent, no movetime, positive remaining time after overhead",
        "in_domain": tot["in_domain"], "cap_binding": tot["cap_binds"], "pv_only_range": tot["pv_only"],
        "crash_probes_beyond_32_bit": tot["crash_only"],
        "build_profiles_byte_identical": identical,
        "situations_through_the_real_go_arm": eng_events, "go_arm_differs_from_harness_copy": eng_differs,
        "cv_beyond_single_tolerance": tot["cv_beyond_single_tolerance"],
        "out_of_domain_crashes": len(ood),
        "out_of_domain_crash_kinds": ["%s: %s" % k for k in ood_keys],
        "wallclock_runs": len(cases), "wallclock_first_attempt_misses": first_misses,
        "wallclock_max_elapsed_over_clock": round(worst_ratio, 4),
        "wallclock_max_ms_beyond_hard_limit": round(over, 3),
        "depth1_round_trip_ms_third_largest": round(lat_max * 1000, 3), "depth1_round_trip_ms_largest": round(lat_any * 1000, 3),
        "poll_gap_ms_in_all_three_repetitions": round(gap_ms, 3), "poll_gap_ms_largest_single": round(gap_any_ms, 3),
        "poll_gap_searches": ps["runs"], "polls_observed": ps["polls"],
        "ms_beyond_hard_limit_in_harness_max": round(ps["max_over_hard_ns"] / 1e6, 3),
        "timed_model": {"unit_ms": unit_ms, "clock_ms": REM_MIN_MS, "MaxPollGap": g_units, "StartLat": lat_units, "RetLat": lat_units,
                        "holds": timed_ok, "states": timed_states},
    })
    chk.assumptions += [
        "float tolerance fixed in DESIGN.md C14: PropertyView bounds may be exceeded by one part in 2^22 plus 1 us "
        "(Duration::mul_f32); CodeView equality uses that tolerance composed over the two chained multiplications "
        "(2 parts in 2^22 plus 7 us); exceedances of the single tolerance are counted in cv_beyond_single_tolerance",
        "the wall-clock clause is a measurement on this machine (three-out-of-three rule), tied to the timed model by the "
        "measured poll gap and depth-1 round trip; it is not a proof about other machines or loads",
        "a missing clock for the side to move lies outside the property's text: only soft <= hard is required there",
    ]
    return chk.finish()
