"""C18 SAN output identifies the move."""
import os, json
import vlib, games


def main():
    chk = vlib.Check("C18", "model_checking")
    q = chk.quick
    hb = vlib.build_harness("dev")
    nsh = 8
    jobs = []
    for fam in ("like", "pawncap", "promo", "castle"):
        for sh in ([chk.seed % nsh, (chk.seed + 3) % nsh] if q else range(nsh)):
            jobs.append((fam, sh))
    # every way a move gives check (Gen_Movegen family "givechk": direct, unmasked, through the pawn removed en passant,
    # castling rook, promoted piece): the check suffix
    for sh in ([chk.seed % nsh, (chk.seed + 3) % nsh] if q else range(nsh)):
        jobs.append(("givechk", sh))
    # positions from play
    base = os.path.join(chk.outdir, "walk")
    vlib.harness(hb, ["walk", "--seed", chk.seed, "--events", 1500 if q else 12000, "--files", 4 if q else 16, "--out", base])
    for i in range(4 if q else 16):
        jobs.append(("walk", i))

    def one(job):
        fam, sh = job
        if fam == "walk":
            p = "%s.%d" % (base, sh)
        elif fam == "givechk":
            cfg = os.path.join(chk.outdir, "gs_%s_%d.cfg" % (fam, sh))
            games.gen_cfg(cfg, {"FAMILY": fam, "SHARD": sh, "NSHARDS": nsh, "DENSITY": 32 if q else 4}, "INIT Init\nNEXT Next\n")
            g = vlib.tlc("Gen_Movegen", cfg=cfg, timeout=3000, xmx="2g")
            if g.error:
                raise vlib.ToolError("Gen_Movegen: " + g.error)
            p = os.path.join(chk.outdir, "gs_%s_%d.ndjson" % (fam, sh))
            vlib.write_ndjson(p, [d for t, d in g.reports if t == "GEN"])
        else:
            cfg = os.path.join(chk.outdir, "gs_%s_%d.cfg" % (fam, sh))
            games.gen_cfg(cfg, {"FAMILY": fam, "SHARD": sh, "NSHARDS": nsh, "DENSITY": 6 if q else 1}, "INIT Init\nNEXT Next\n")
            g = vlib.tlc("Gen_San", cfg=cfg, timeout=3000, xmx="2g")
            if g.error:
                raise vlib.ToolError("Gen_San: " + g.error)
            p = os.path.join(chk.outdir, "gs_%s_%d.ndjson" % (fam, sh))
            vlib.write_ndjson(p, [d for t, d in g.reports if t == "GEN"])
        ev = os.path.join(chk.outdir, "sev_%s_%d.ndjson" % (fam, sh))
        o = json.loads(vlib.harness(hb, ["san", p, ev]))
        if o["positions"] == 0:
            return o, None, ev, fam
        t = vlib.tlc("Trace_San", env={"TRACE": ev}, timeout=3400, xmx="3g")
        if t.error or not t.stats("san"):
            raise vlib.ToolError("Trace_San: " + (t.error or t.stdout[-1500:]))
        return o, t, ev, fam
    tot = {"positions": 0, "moves": 0, "ambiguous_positions": 0}
    fams = {}
    for o, t, ev, fam in vlib.pmap(one, jobs, n=16):
        for k in tot:
            tot[k] += o[k]
        fams[fam] = fams.get(fam, 0) + o["positions"]
        if t is None:
            continue
        for d in t.viols("C18"):
            det = d["detail"]
            chk.violation("%s|%s|%s" % (d["what"], det.get("fen"), det.get("mv")), d["what"], d,
                          replay={"kind": "san-position", "fen": det.get("fen"), "events": ev})
    for f in ("like", "pawncap", "promo", "castle", "givechk", "walk"):
        if fams.get(f, 0) == 0:
            raise vlib.ToolError("family %s produced nothing" % f)
    chk.cov.update({
        "states": tot["positions"], "transitions": tot["moves"], "traces_validated_against_impl": len(jobs),
        "evaluations": tot["moves"], "distinct_nontrivial": tot["ambiguous_positions"],
        "positions_by_family": fams,
        "rule": "every move of the engine's list in every distinct position (TLC-generated families: 2-3 like pieces reaching one square, "
                "pawn captures beside other capturers, promotions, checking castles; plus walk positions): text in San!SanTexts, read back "
                "to the same move, texts pairwise different. non-trivial = positions where two like pieces (N,B,R,Q) can reach one square",
    })
    chk.sample({"fen": "7r/2p3k1/1p1p1qp1/1P1Bp3/p1P2r1P/P7/4R3/Q4RK1 w - - 0 36", "move": "f1e1", "expected": "Rfe1"})
    return chk.finish()
