"""Node-level traces of the tree search (hook H6) validated by spec/Trace_Nodes.tla.

`node_phase(chk, ids, ...)` builds sessions of recorded searches (small positions at depths 1..4 on shared tables,
so that later searches meet entries of earlier ones; positions reached through histories with repetitions and a
high fifty-move clock; optionally searches whose stop request is observed inside the tree), runs them in the
checked build and lets TLC replay every step of every node on a stack of rule-book positions.

Reporting policy: inside one search only the FIRST PropertyView mismatch counts (later ones are usually its
consequences, because the specification's position no longer is the engine's); it is returned only if its id is
one of `ids`.  CodeView mismatches (id NODES) are drift."""
import os, json
import vlib, searches
from fen2json import fen2pos

# histories with repetitions / clocks near the limit: (fen, uci moves played before the search)
HISTORIES = [
    ("8/8/8/4k3/8/8/8/R3K3 w - - 0 1", ["a1a2", "e5e6", "a2a1", "e6e5"]),
    ("8/8/8/4k3/8/8/8/R3K3 w - - 0 1", ["a1a2", "e5e6", "a2a1", "e6e5", "a1a2", "e5e6"]),
    ("6k1/5ppp/8/8/8/8/5PPP/3R2K1 w - - 0 1", ["d1d2", "g8f8", "d2d1", "f8g8"]),
    ("r3k2r/8/8/8/8/8/8/R3K2R w KQkq - 0 1", ["a1b1", "a8b8", "b1a1", "b8a8"]),
    ("4k3/8/8/8/8/8/3Q4/4K3 b - - 0 1", ["e8f8", "d2d3", "f8e8", "d3d2"]),
    ("8/2k5/8/8/8/5N2/3K4/8 w - - 96 70", []),
    ("8/2k5/8/8/8/5N2/3K1R2/8 w - - 97 70", []),
    ("8/2k5/4p3/8/8/5N2/3K1R2/8 b - - 98 70", []),
    ("q7/2k5/8/8/8/8/3K1R2/8 w - - 99 70", []),
    ("8/8/3k4/8/8/3BK3/8/8 w - - 10 40", []),
    ("8/8/3k4/8/2n5/3BK3/8/8 w - - 10 40", []),
    ("8/8/3k4/8/2n5/3BK3/4P3/8 w - - 10 40", []),
]


def _jobs(chk, mates, draws, pool, n_mates, n_draws, n_pool, stops):
    rng = chk.rng
    jobs = []
    rng.shuffle(mates)
    for i in range(0, min(n_mates, len(mates) - 1), 2):
        a, b = mates[i], mates[i + 1]
        jobs.append({"hash": 1, "tag": "mates", "searches":
                     [{"pos": a, "depth": d, "record": True, "budget": 30000} for d in (1, 2, 3, 4)] +
                     [{"pos": b, "depth": d, "record": True, "budget": 30000} for d in (2, 4)] +
                     [{"pos": a, "depth": 5, "record": True, "budget": 30000}]})
    rng.shuffle(draws)
    for i in range(min(n_draws, len(draws))):
        jobs.append({"hash": 1, "tag": "draws", "searches": [{"pos": draws[i], "depth": d, "record": True, "budget": 30000} for d in (1, 2, 3)]})
    for fen, uci in HISTORIES:
        jobs.append({"hash": 1, "tag": "history", "searches": [{"pos": fen2pos(fen), "uci": uci, "depth": d, "record": True, "budget": 40000}
                                                                 for d in (2, 3, 4, 5)]})
    rng.shuffle(pool)
    for i in range(min(n_pool, len(pool))):
        jobs.append({"hash": 1, "tag": "general", "searches": [{"pos": pool[i], "depth": d, "record": True, "budget": 25000} for d in (1, 2, 3)]})
    # the stop request observed inside the tree: the flag reads true from the k-th load on (loads happen at the start of
    # every iteration after the first and every 10 000 nodes), so only long searches are stopped inside the tree
    for pos, depth, k in stops:
        jobs.append({"hash": 1, "tag": "stop", "searches": [{"pos": pos, "depth": depth, "stopk": k, "record": True, "budget": 400000}]})
    return jobs


def node_phase(chk, ids, mates, draws, pool, n_mates=40, n_draws=20, n_pool=20, stops=(), shards=14, label="nodes"):
    """Returns (violations [(witness, what, detail, file)], drift list, stats dict)."""
    hb = vlib.build_harness("dev")
    jobs = _jobs(chk, list(mates), list(draws), list(pool), n_mates, n_draws, n_pool, list(stops))
    # long (stop) jobs first, one per shard
    jobs.sort(key=lambda j: j["tag"] != "stop")
    parts = [[] for _ in range(shards)]
    for i, j in enumerate(jobs):
        parts[i % shards].append(j)
    parts = [p for p in parts if p]

    def one(ip):
        i, part = ip
        jf = os.path.join(chk.outdir, "%s_%d.jobs" % (label, i))
        ef = os.path.join(chk.outdir, "%s_%d.ndjson" % (label, i))
        vlib.write_ndjson(jf, part)
        o = json.loads(vlib.harness(hb, ["nodes", jf, ef], timeout=1800))
        if o["searches"] == 0:
            return None
        r = vlib.tlc("Trace_Nodes", env={"TRACE": ef}, timeout=3000, xmx="3g")
        if r.error or not r.ok:
            raise vlib.ToolError("Trace_Nodes did not accept the whole of %s: %s" % (ef, r.error or r.stdout[-1500:]))
        if r.viols("ROOT"):
            raise vlib.ToolError("unusable root in %s: %s" % (ef, r.viols("ROOT")[0]))
        # root level of the same traces as a behaviour of SearchCtl.tla (its own actions, Trace_SearchCtl.tla)
        pf = ef[:-7] + ".ctl.ndjson"
        with open(ef) as f, open(pf, "w") as g:
            for line in f:
                if '"e":"root"' in line:
                    g.write('{"e":"start"}\n')
                elif line.startswith('{"e":"N"') and '"p":0,' in line:
                    v = json.loads(line)["v"]
                    g.write(json.dumps({"e": "N0", "a": v[0], "b": v[1], "d": v[2]}) + "\n")
                elif line.startswith('{"e":"O"') and '"p":0,' in line:
                    g.write(json.dumps({"e": "O0", "v": json.loads(line)["v"][0]}) + "\n")
                elif line.startswith('{"e":"X"'):
                    g.write('{"e":"X"}\n')
                elif '"e":"end"' in line:
                    g.write('{"e":"end"}\n')
        c = vlib.tlc("Trace_SearchCtl", env={"TRACE": pf}, timeout=600, xmx="2g")
        cs = c.stats("searchctl")
        if c.error or not cs:
            raise vlib.ToolError("Trace_SearchCtl failed on %s: %s" % (pf, c.error or c.stdout[-1500:]))
        r.ctl = cs[0]
        r.ctl["file"] = pf
        return ef, o, r
    res = [x for x in vlib.pmap(one, list(enumerate(parts)), n=min(16, len(parts))) if x]
    viols, drifts = [], []
    dirty = []
    tot = {"searches": 0, "events": 0, "over_budget": 0, "counts": {}, "files": len(res), "aborted_inside_tree": 0}
    for ef, o, r in res:
        for k in ("searches", "events", "over_budget"):
            tot[k] += o[k]
        tot["ctl_events"] = tot.get("ctl_events", 0) + r.ctl["events"]
        if r.ctl["matched"] < r.ctl["events"]:
            drifts.append({"what": "root-level-is-not-a-behaviour-of-SearchCtl", "detail": {"matched": r.ctl["matched"], "events": r.ctl["events"],
                                                                                         "first_unmatched": r.ctl["first_unmatched"]},
                           "source": r.ctl["file"], "at": r.ctl["matched"] + 1})
        for s in r.stats("nodes"):
            for k, v in s["counts"].items():
                tot["counts"][k] = tot["counts"].get(k, 0) + v
        # boundaries of the searches in this file, to apply first-mismatch-per-search
        roots = []
        with open(ef) as f:
            for n, line in enumerate(f, 1):
                if line.startswith('{"b":') or '"e":"root"' in line:
                    roots.append((n, json.loads(line)))
        all_v = sorted([d for t, d in r.reports if t == "VIOL"], key=lambda d: d.get("at", 0))
        seen = set()
        for d in all_v:
            at = d.get("at", 0)
            idx = max([i for i, (n, _) in enumerate(roots) if n <= at], default=0)
            if idx in seen:
                continue
            seen.add(idx)
            if d.get("id") in ids:
                root = roots[idx][1] if roots else {}
                w = "%s|%s|depth=%s|%s" % (d["what"], root.get("fen"), root.get("depth"), json.dumps(d.get("detail", {}).get("move") or d.get("detail", {}).get("fen")))
                viols.append((w, d["what"], {"report": d, "root": {k: root.get(k) for k in ("fen", "pre", "depth", "stopk", "tag", "sid")}}, ef))
        for t, d in r.reports:
            if t == "GEN" and d.get("kind") == "dirty":
                idx = max([i for i, (n, _) in enumerate(roots) if n <= d.get("at", 0)], default=0)
                d["root_event"] = roots[idx][1] if roots else {}
                dirty.append(d)
            if t == "DRIFT":
                drifts.append({"what": d["what"], "detail": d.get("detail"), "source": ef, "at": d.get("at")})
    tot["aborted_inside_tree"] = tot["counts"].get("X", 0)
    tot["dirty"] = dirty
    return viols, drifts, tot


def standard(chk, ids, scale=1.0, stops=(), label="nodes"):
    """node_phase on the usual pools (TLC-generated near-mate endings and draw-by-next-move positions, bench / perft
    roots, walk positions); `scale` multiplies the number of sessions.  Reports violations and drift into `chk`."""
    q = chk.quick
    mates = searches.mate_positions(chk, [chk.seed % 7] if q else [chk.seed % 7, (chk.seed + 3) % 7], 40 if q else 8)
    draws = searches.draw_positions(chk, [chk.seed % 8] if q else [chk.seed % 8, (chk.seed + 3) % 8], 24 if q else 6)
    pool = searches.root_positions() + searches.walk_positions(chk, 60 if q else 400)
    # positions whose legal moves are all captures (boxed-in king in check): a search that loses a capture there claims mate
    nq = searches.family_positions(chk, "noquiet", [chk.seed % 8] if q else [chk.seed % 8, (chk.seed + 3) % 8], 4 if q else 1)
    chk.rng.shuffle(nq)
    chk.rng.shuffle(pool)
    pool = pool[:int(20 * scale * (1 if q else 8))] + nq[:int(30 * scale) if q else int(300 * scale)]
    k = scale * (1 if q else 8)
    nv, ndrift, nstat = node_phase(chk, ids, mates, draws, pool, n_mates=int(40 * k), n_draws=int(20 * k), n_pool=len(pool),
                                   stops=stops, label=label)
    for w, what, det, ef in nv:
        chk.violation(w, what, det, replay={"kind": "node-trace", "trace": ef, "line": det["report"].get("at"),
                                            "how": "harness `nodes <jobs> <out>` on the session of the named root; Trace_Nodes.tla on <out>"})
    chk.drift += ndrift
    if nstat["counts"].get("M", 0) == 0:
        raise vlib.ToolError("vacuous node traces: %s" % nstat)
    dirty = nstat.pop("dirty", [])
    chk.cov["node_traces"] = nstat
    nstat = dict(nstat)
    nstat["dirty"] = dirty
    return nstat
