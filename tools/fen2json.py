#!/usr/bin/env python3
"""FEN -> position fields (b, stm, cr, ep, hmc, pl) as ND-JSON. Trivial, trusted tooling used to
write model-checking roots; the engine's own FEN reader is not involved."""
import sys, json
PC = "PNBRQKpnbrqk"
def fen2pos(fen):
    t = fen.split()
    b = [0] * 64
    for ri, row in enumerate(t[0].split("/")):
        r = 7 - ri; f = 0
        for ch in row:
            if ch.isdigit(): f += int(ch)
            else:
                b[r * 8 + f] = PC.index(ch) + 1; f += 1
    cr = sum(v for k, v in zip("KQkq", (1, 2, 4, 8)) if k in t[2])
    ep = -1 if t[3] == "-" else (ord(t[3][0]) - 97) + 8 * (int(t[3][1]) - 1)
    hmc = int(t[4]) if len(t) > 4 else 0
    full = int(t[5]) if len(t) > 5 else 1
    stm = 0 if t[1] == "w" else 1
    return {"b": b, "stm": stm, "cr": cr, "ep": ep, "hmc": hmc, "pl": (full - 1) * 2 + stm, "fen": fen}
if __name__ == "__main__":
    for line in open(sys.argv[1]):
        line = line.strip()
        if line and not line.startswith("#"):
            print(json.dumps(fen2pos(line)))
