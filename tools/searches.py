"""Shared machinery for the search properties (C04, C08, C09, C12): position sources, job files for
the harness `search` subcommand, judging by Trace_Search.tla."""
import os, json
import vlib, games
from fen2json import fen2pos

EXTRA_FENS = [
    # mate appears only at depth >= 5 (score jumps through the aspiration window)
    "8/6k1/8/2R5/8/1K6/3Q1p2/8 w - - 1 25",
    "8/8/8/8/8/5k2/8/4K2r w - - 0 1",
    "6k1/5ppp/8/8/8/8/5PPP/R5K1 w - - 0 1",
    "r5k1/5ppp/8/8/8/8/5PPP/6K1 b - - 0 1",
    # many promoted pieces / extreme material
    "QQQQQQ2/7k/8/8/8/8/8/K7 w - - 0 1",
    "qqqqk3/qqqq4/8/8/8/8/QQQQ4/QQQQK3 w - - 0 1",
    "rrrrkrrr/8/8/8/8/8/8/RRRRKRRR w - - 0 1",
    "nnnnknnn/pppppppp/8/8/8/8/PPPPPPPP/NNNNKNNN w - - 0 1",
    "4k3/P1P1P1P1/8/8/8/8/p1p1p1p1/4K3 w - - 0 1",
    # stalemate / mate adjacent
    "7k/5Q2/6K1/8/8/8/8/8 w - - 0 1",
    "7k/8/5KQ1/8/8/8/8/8 w - - 0 1",
    "k7/8/1KQ5/8/8/8/8/8 b - - 0 1",
    "8/8/8/8/8/2k5/1p6/3K4 b - - 0 1",
    "8/8/8/8/8/1k6/1p6/3K4 w - - 0 1",
    # fifty-move / repetition edge
    "8/8/4k3/8/8/3K4/8/R7 w - - 99 80",
    "7k/5Q2/6K1/8/8/8/8/8 w - - 99 90",
]


def root_positions():
    fens = [l.strip() for l in open(os.path.join(vlib.VERIF, "data", "roots.txt")) if l.strip()]
    return [fen2pos(f) for f in fens + EXTRA_FENS]


def walk_positions(chk, n, seed_off=0):
    """Positions from a harness walk (position fields only), deduplicated by FEN."""
    hb = vlib.build_harness("dev")
    p = os.path.join(chk.outdir, "poswalk%d" % seed_off)
    vlib.harness(hb, ["walk", "--seed", chk.seed + seed_off, "--events", n * 3, "--out", p, "--max-depth", 24])
    seen, out = set(), []
    for e in vlib.read_ndjson(p):
        if e["fen"] in seen or not e["mvs"]:
            continue
        seen.add(e["fen"])
        out.append({k: e[k] for k in ("b", "stm", "cr", "ep", "hmc", "pl", "fen")})
        if len(out) >= n:
            break
    return out


def mate_positions(chk, shards, density, nshards=7):
    def one(sh):
        cfg = os.path.join(chk.outdir, "gmt_%d.cfg" % sh)
        games.gen_cfg(cfg, {"SHARD": sh, "NSHARDS": nshards, "DENSITY": density}, "INIT Init\nNEXT Next\n")
        r = vlib.tlc("Gen_Mates", cfg=cfg, timeout=3000, xmx="2g")
        if r.error:
            raise vlib.ToolError("Gen_Mates: " + r.error)
        return [d for t, d in r.reports if t == "GEN"]
    out = []
    for g in vlib.pmap(one, shards, n=len(shards)):
        out += g
    return out


def run_jobs(chk, jobs, profile, label, timeout=3000, shards=8):
    """Splits sessions over `shards` harness processes; returns list of event-file paths."""
    hb = vlib.build_harness(profile)
    parts = [[] for _ in range(shards)]
    for i, j in enumerate(jobs):
        parts[i % shards].append(j)
    parts = [p for p in parts if p]

    def one(ip):
        i, part = ip
        jf = os.path.join(chk.outdir, "%s_%s_%d.jobs" % (label, profile, i))
        ef = os.path.join(chk.outdir, "%s_%s_%d.events" % (label, profile, i))
        vlib.write_ndjson(jf, part)
        try:
            # a single search that does not come back is recorded by the harness's own watchdog as "out":"timeout"
            vlib.harness(hb, ["search", jf, ef], timeout=timeout,
                         env={"VERIF_SEARCH_WATCHDOG_S": str(300 if chk.quick else 1200)})
        except Exception as ex:
            # a search that does not come back is data, not a tool failure: report what was running
            done = len(vlib.read_ndjson(ef)) if os.path.exists(ef) else 0
            return ef, {"hang_after_events": done, "error": str(ex)[:300], "jobs": jf}
        return ef, None
    return vlib.pmap(one, list(enumerate(parts)), n=min(16, len(parts)))


def judge(chk, event_files, ids=("C04", "C08"), n=16):
    """Trace_Search over every event file. Returns (viols by id, stats)."""
    def one(ef):
        if not os.path.exists(ef) or os.path.getsize(ef) == 0:
            return None, ef
        t = vlib.tlc("Trace_Search", env={"TRACE": ef}, timeout=3400, xmx="3g")
        if t.error or not t.stats("search"):
            raise vlib.ToolError("Trace_Search: " + (t.error or t.stdout[-1500:]))
        if t.viols("ROOT"):
            raise vlib.ToolError("search root is terminal or illegal: %s" % t.viols("ROOT")[0])
        return t, ef
    viols = {i: [] for i in ids}
    stats = {"searches": 0, "infos": 0, "mates": 0}
    for t, ef in vlib.pmap(one, event_files, n=n):
        if t is None:
            continue
        s = t.stats("search")[0]
        for k in stats:
            stats[k] += s[k]
        for i in ids:
            for d in t.viols(i):
                d["_file"] = ef
                viols[i].append(d)
    return viols, stats


def witness(d):
    det = d.get("detail") or {}
    return "%s|%s|%s" % (d.get("what"), det.get("fen"), det.get("tag"))


def explosive_positions():
    """Legal positions whose depth-1 search already costs more than one polling interval (quiescence explosion):
    a stop can be observed before any root move has been scored."""
    return [fen2pos(l.strip()) for l in open(os.path.join(vlib.VERIF, "data", "explosive.txt")) if l.strip()]


def draw_positions(chk, shards, density, nshards=8):
    """Gen_Draws: positions whose best line ends in an immediately recognised draw."""
    def one(sh):
        cfg = os.path.join(chk.outdir, "gd_%d.cfg" % sh)
        games.gen_cfg(cfg, {"SHARD": sh, "NSHARDS": nshards, "DENSITY": density}, "INIT Init\nNEXT Next\n")
        r = vlib.tlc("Gen_Draws", cfg=cfg, timeout=3000, xmx="2g")
        if r.error:
            raise vlib.ToolError("Gen_Draws: " + r.error)
        return [d for t, d in r.reports if t == "GEN"]
    out = []
    for g in vlib.pmap(one, shards, n=len(shards)):
        out += g
    return out


def family_positions(chk, family, shards, density, nshards=8):
    """Positions of one Gen_Movegen family (position fields only)."""
    def one(sh):
        cfg = os.path.join(chk.outdir, "gfam_%s_%d.cfg" % (family, sh))
        games.gen_cfg(cfg, {"FAMILY": family, "SHARD": sh, "NSHARDS": nshards, "DENSITY": density}, "INIT Init\nNEXT Next\n")
        r = vlib.tlc("Gen_Movegen", cfg=cfg, timeout=3000, xmx="2g")
        if r.error:
            raise vlib.ToolError("Gen_Movegen %s: %s" % (family, r.error))
        return [{k: d[k] for k in ("b", "stm", "cr", "ep", "hmc", "pl")} for t, d in r.reports if t == "GEN" and d["mvs"]]
    out = []
    for g in vlib.pmap(one, shards, n=len(shards)):
        out += g
    return out
