"""C12 Same state, same search; ucinewgame means a fresh engine."""
import os, json, time, re, subprocess
import vlib, games, uci, searches
from fen2json import fen2pos

POSITIONS = ["startpos", "startpos moves e2e4 e7e5 g1f3 b8c6",
             "fen r3k2r/p1ppqpb1/bn2pnp1/3PN3/1p2P3/2N2Q1p/PPPBBPPP/R3K2R w KQkq - 0 1",
             "fen 8/2p5/3p4/KP5r/1R3p1k/8/4P1P1/8 w - - 0 1",
             "fen 4rrk1/2p1b1p1/p1p3q1/4p3/2P2n1p/1P1NR2P/PB3PP1/3R1QK1 b - - 2 24",
             "fen r1bq1rk1/pp2b1pp/n1pp1n2/3P1p2/2P1p3/2N1P2N/PP2BPPP/R1BQ1RK1 b - - 2 10",
             "fen 8/8/1p2k1p1/3p3p/1p1P1P1P/1P2PK2/8/8 w - - 3 54",
             "fen 7k/5Q2/6K1/8/8/8/8/8 w - - 0 1 moves f7f1 h8g8"]
OPT_INDEX = {"Hash": 1, "Threads": 2, "Move Overhead": 3}


def normalise(lines):
    out = []
    for l in lines:
        if l.startswith("info depth"):
            t = l.split()
            keep = []
            i = 1
            while i < len(t):
                if t[i] in ("time", "nps", "tbhits"):
                    i += 2
                    continue
                if t[i] == "pv":
                    keep += t[i:]
                    break
                keep.append(t[i])
                i += 1
            out.append(" ".join(keep))
        elif l.startswith("bestmove"):
            out.append(l)
    return " | ".join(out)


def run_proc(args):
    """Runs one process with a script of abstract commands; returns the event list for Trace_Session."""
    binary, script, proc = args
    # "-slowexit" processes run the hooked binary with the window between bestmove and the release of the search
    # state widened (timing perturbation: a GUI command arriving right after bestmove finds the search thread still there)
    # (the release of the search state and, separately, the step after bestmove are slowed down: a state that is still
    # held when the move has been announced stays held for another 60 ms)
    env = {"TCHERAN_VERIF_DELAY_MS": "exit=60,latch=60"} if "slowexit" in proc else None
    s = uci.Session(binary, env=env)
    events = [{"cmd": "start", "i": 0, "v": 0, "p": "", "d": 0, "out": "", "proc": proc}]
    nready = 0
    problems = []
    for c in script:
        if c[0] == "newgame":
            s.send("ucinewgame")
            events.append({"cmd": "newgame", "i": 0, "v": 0, "p": "", "d": 0, "out": "", "proc": proc})
        elif c[0] == "setoption":
            s.send("setoption name %s value %d" % (c[1], c[2]))
            events.append({"cmd": "setoption", "i": OPT_INDEX[c[1]], "v": c[2], "p": "", "d": 0, "out": "", "proc": proc})
        elif c[0] == "position":
            s.send("position " + c[1])
            events.append({"cmd": "position", "i": 0, "v": 0, "p": c[1], "d": 0, "out": "", "proc": proc})
        elif c[0] == "analyse":
            nb = s.counts["bestmove"]
            s.send("go infinite")
            time.sleep(c[1] / 1000.0)
            s.send("stop")
            if not s.wait_count("bestmove", nb + 1, 60):
                problems.append("no bestmove after go infinite / stop")
                break
            events.append({"cmd": "analyse", "i": 0, "v": 0, "p": "%s#%d" % (proc, len(events)), "d": 0, "out": "", "proc": proc})
        elif c[0] == "analyse_setopt":
            # a Hash change that arrives while a search holds the tables is refused with an error message (or, if it wins the
            # race against the search thread, carried out at once); the GUI repeats it once the engine is idle
            nb = s.counts["bestmove"]
            nr = s.counts["readyok"]
            s.send("isready")                    # everything sent so far (a large table is being allocated) has been processed
            if not s.wait_count("readyok", nr + 1, 60):
                problems.append("no readyok before the analysis")
                break
            s.send("go infinite")
            time.sleep(c[1] / 1000.0)
            s.send("setoption name Hash value %d" % c[2])
            s.send("stop")
            if not s.wait_count("bestmove", nb + 1, 60):
                problems.append("no bestmove after go infinite / setoption / stop")
                break
            events.append({"cmd": "analyse", "i": 0, "v": 0, "p": "%s#%d" % (proc, len(events)), "d": 0, "out": "", "proc": proc})
        elif c[0] == "latestop":
            s.send("stop")                       # no search is running: the previous go has been answered
            events.append({"cmd": "idlestop", "i": 0, "v": 0, "p": "", "d": 0, "out": "", "proc": proc})
        elif c[0] == "go":
            mark = len(s.lines)
            nb = s.counts["bestmove"]
            s.send("go depth %d" % c[1])
            if not s.wait_count("bestmove", nb + 1, 120):
                problems.append("no bestmove for go depth %d" % c[1])
                break
            events.append({"cmd": "go", "i": 0, "v": 0, "p": "", "d": c[1], "out": normalise([l for _, l in s.lines[mark:]]), "proc": proc})
    s.send("quit")
    s.finish(20)
    return events, problems, proc


def main():
    chk = vlib.Check("C12", "model_checking")
    q = chk.quick
    rng = chk.rng
    bins = {"dev": vlib.build_engine("dev", hooks=False)}
    hooked = vlib.build_engine("dev", hooks=True)
    if not q:
        bins["release"] = vlib.build_engine("release", hooks=False)
    procs = []
    n_sets = 8 if q else 60

    def suffix():
        ss = []
        for _ in range(rng.randrange(1, 4)):
            ss.append(("position", rng.choice(POSITIONS)))
            ss.append(("go", rng.randrange(3, 6 if q else 8)))
        return ss

    def prefix(kind):
        hh = []
        if kind.startswith("many"):
            # around the wrap of the table's 8-bit search counter: exactly 256 (quick) or 255 / 256 / 257 / 512
            for k in range(int(kind[4:])):
                hh.append(("position", POSITIONS[k % len(POSITIONS)]))
                hh.append(("go", 1))
        else:
            for _ in range(rng.randrange(1, 6)):
                r = rng.random()
                if r < 0.25:
                    hh.append(("setoption", "Hash", rng.choice([1, 2, 16, 64])))
                elif r < 0.35:
                    hh.append(("setoption", "Move Overhead", rng.choice([0, 10, 100])))
                hh.append(("position", rng.choice(POSITIONS)))
                hh.append(("go", rng.randrange(2, 6)))
        return hh
    for i in range(n_sets):
        S = suffix()
        H = prefix(("many256" if q else ["many255", "many256", "many257", "many512"][(i // 8) % 4]) if i % 8 == 7 else "mixed")
        # the last thing before the new game is a stop: an analysis ended by stop, or a stop after the search has answered
        if i % 4 == 1:
            H = H + [("position", rng.choice(POSITIONS)), ("analyse", 30 + 20 * (i % 3))]
        elif i % 4 == 2:
            H = H + [("latestop",)]
        hashv = rng.choice([256, 256, 2, 16])
        if i % 8 == 3:
            # the size in force at the end is first asked for during an analysis (refused or not), then repeated when idle
            # (smallest table and a search long enough to fill it: the size in force shows in fill and node counts)
            hashv = 1
            H = [("setoption", "Hash", 64), ("position", rng.choice(POSITIONS)), ("analyse_setopt", 150, hashv)]
            S = [("position", rng.choice(POSITIONS)), ("go", 7)]
        setup = [] if hashv == 256 else [("setoption", "Hash", hashv)]
        restore = [("setoption", "Hash", hashv), ("setoption", "Move Overhead", 0)]
        for prof, b in bins.items():
            procs.append((b, setup + S, "%s-fresh-%d" % (prof, i)))
            procs.append((b, setup + H + restore + [("newgame",)] + S, "%s-afternewgame-%d" % (prof, i)))
            procs.append((b, setup + S + S, "%s-again-%d" % (prof, i)))          # warm tables: second S differs from the first but
            procs.append((b, setup + S + S, "%s-again2-%d" % (prof, i)))         # must equal the second S of an identical process
        procs.append((hooked, setup + H + restore + [("newgame",)] + S, "dev-slowexit-afternewgame-%d" % i))
    results = vlib.pmap(run_proc, procs, n=8)
    events = []
    n_go = 0
    for ev, problems, proc in results:
        for pr in problems:
            chk.violation("%s|%s" % (proc, pr), "session-aborted: " + pr, {"proc": proc}, replay={"kind": "uci-session", "proc": proc})
        events += ev
        n_go += sum(1 for e in ev if e["cmd"] == "go")
    # library level: identical jobs in the checked and the optimised build must agree (a different "machine")
    pool = searches.root_positions()
    rng.shuffle(pool)
    jobs = []
    for i in range(0, 24 if q else 400, 3):
        grp = pool[i % len(pool): i % len(pool) + 3]
        jobs.append({"hash": [1, 2][i % 2], "tag": "det%d" % i, "searches": [{"pos": p, "depth": 3 + (i + k) % 3} for k, p in enumerate(grp)]})
    for prof in ("dev", "opt"):
        for rep in range(2):
            for ef, hang in searches.run_jobs(chk, jobs, prof, "c12lib%d" % rep, timeout=1800, shards=4):
                if hang:
                    raise vlib.ToolError("library search did not finish: %s" % hang)
                cur_sess = None
                for e in vlib.read_ndjson(ef):
                    proc = "lib-%s-%d-%s" % (prof, rep, e["tag"])
                    if (e["tag"], e["session"]) != cur_sess:
                        cur_sess = (e["tag"], e["session"])
                        events.append({"cmd": "start", "i": 0, "v": 0, "p": "", "d": 0, "out": "", "proc": proc})
                        events.append({"cmd": "setoption", "i": 1, "v": e["hash"], "p": "", "d": 0, "out": "", "proc": proc})
                    out = " | ".join("depth %d seldepth %d score %s %d nodes %d hashfull %d pv %s" %
                                     (x["d"], x["sd"], x["sk"], x["sv"], x["nodes"], x["hashfull"], " ".join(x["pv"])) for x in e["infos"])
                    out += " | bestmove " + e["best"]
                    events.append({"cmd": "position", "i": 0, "v": 0, "p": "lib " + e["fen"], "d": 0, "out": "", "proc": proc})
                    events.append({"cmd": "go", "i": 0, "v": 0, "p": "", "d": e["lim"], "out": out, "proc": proc})
                    n_go += 1
    tf = os.path.join(chk.outdir, "sessions.ndjson")
    vlib.write_ndjson(tf, events)
    t = vlib.tlc("Trace_Session", env={"TRACE": tf}, timeout=3000, xmx="4g", dfs=True)
    st = t.stats("session")
    if t.error or not st or t.depth != st[0]["events"] + 1:
        raise vlib.ToolError("Trace_Session: " + (t.error or t.stdout[-1500:]))
    for d in t.viols("C12"):
        det = d["detail"]
        chk.violation("%s|%s|%s|%s" % (det.get("proc"), det.get("first_proc"), det.get("position"), det.get("depth")), d["what"], d,
                      replay={"kind": "session-events", "events": tf, "line": d.get("at")})
    # the engine's own benchmark (87 positions searched one after the other on fresh tables each): two processes of the
    # optimised build must report the same node count (thorough tier; the checked build needs minutes for it)
    if not q:
        def bench(_):
            r = subprocess.run([bins["release"], "uci"], input="bench\nquit\n", capture_output=True, text=True, timeout=900)
            m = re.findall(r"(\d+) nodes", r.stdout)
            return m[-1] if m else "no-output:" + r.stdout[-200:]
        b = vlib.pmap(bench, [0, 1, 2], n=3)
        chk.cov["bench_nodes_three_processes"] = b
        if len(set(b)) != 1 or not b[0].isdigit():
            chk.violation("bench|%s" % "|".join(b), "bench-node-count-differs-between-processes", {"nodes": b},
                          replay={"kind": "bench", "how": "echo bench | engine uci (release build), three times"})
    # the move-ordering memories themselves (OrderingTables.tla): random operations on the real tables, every step validated;
    # a history reset that leaves something behind is a C12 violation, any other mismatch is drift of the CodeView
    hb = vlib.build_harness("dev")
    of = os.path.join(chk.outdir, "ordering.ndjson")
    vlib.harness(hb, ["ordering", chk.seed, 4000 if q else 20000, of])
    ot = vlib.tlc("Trace_Ordering", env={"TRACE": of}, timeout=1800, xmx="3g")
    if ot.error or not ot.ok:
        raise vlib.ToolError("Trace_Ordering: " + (ot.error or ot.stdout[-1500:]))
    for d in ot.viols("ORD"):
        det = d.get("detail") or {}
        if isinstance(det, dict) and det.get("op") == "reset":
            chk.violation("ordering-reset|%s" % json.dumps(det.get("got")), "history-not-cleared-by-reset", d,
                          replay={"kind": "ordering-trace", "events": of, "line": d.get("at")})
        else:
            chk.drift.append({"what": "ordering-table-step", "detail": det, "source": of})
    chk.cov["ordering_table_operations_validated"] = 4000 if q else 20000
    # bench twice (thorough): total node count must repeat
    if not q:
        counts = []
        for _ in range(2):
            s = uci.Session(bins["release"])
            s.send("bench")
            l = s.wait_line(lambda x: " nodes " in x and x.endswith("nps"), 600)
            s.send("quit")
            s.finish(20)
            counts.append(l.split()[0] if l else None)
        chk.cov["bench_nodes"] = counts
        if counts[0] is None or counts[0] != counts[1]:
            chk.violation("bench|%s" % counts, "bench-node-count-differs", {"counts": counts}, replay={"kind": "bench"})
    repeats = st[0]["observations"] - st[0]["states"]
    if repeats <= 0:
        raise vlib.ToolError("no abstract state was observed twice: vacuous")
    chk.cov.update({
        "states": st[0]["states"], "transitions": st[0]["events"], "traces_validated_against_impl": len(procs) + 4,
        "evaluations": n_go, "distinct_nontrivial": repeats,
        "abstract_states_observed": st[0]["states"], "observations": st[0]["observations"],
        "rule": "command logs of real processes (fresh process running S; H then ucinewgame then S, with H containing option changes and up to "
                "260 searches; S S twice) and of library sessions in the checked and optimised builds are replayed by TLC through Session.tla; "
                "whenever two observations share the abstract state (options, history since reset) their outputs (per iteration depth, seldepth, "
                "score, nodes, hashfull, line; best move; times removed) must be identical. non-trivial = repeated observations of a state",
    })
    chk.sample({"process": procs[1][2], "script": [list(c) for c in procs[1][1][:10]]})
    chk.assumptions += ["the checked build (several times slower) and parallel execution of 8 processes serve as the timing / load perturbation"]
    return chk.finish()
