#!/bin/bash
# Runs every thorough tier (three lanes in parallel, the timing-sensitive C14 alone at the end); one line per check in thorough.log
cd "$(dirname "$0")/.."
./setup.sh > /dev/null 2>&1
lane() { for c in "$@"; do s=$(date +%s); ./check $c --tier thorough > thorough_$c.log 2>&1; echo "EXIT $c $? $(( $(date +%s)-s ))s" >> thorough.log; done; }
rm -f thorough.log
lane C01 C08 C12 C05 C06 C07 &
lane C04 C09 C13 C17 C18 C19 C20 &
lane C10 C02 C11 C16 C03 C15 &
wait
lane C14
echo ALLDONE >> thorough.log
