#!/bin/bash
# thorough_some.sh "<lane 1 checks>" "<lane 2 checks>" ... : lanes in parallel, C14 (if named in the LAST argument as "C14") alone at the end
cd "$(dirname "$0")/.."
./setup.sh > /dev/null 2>&1
lane() { for c in "$@"; do s=$(date +%s); ./check $c --tier thorough > thorough_$c.log 2>&1; echo "EXIT $c $? $(( $(date +%s)-s ))s" >> thorough.log; done; }
rm -f thorough.log
last="${@: -1}"
if [ "$last" = "C14" ]; then set -- "${@:1:$(($#-1))}"; fi
for l in "$@"; do lane $l & done
wait
[ "$last" = "C14" ] && lane C14
echo ALLDONE >> thorough.log
