"""C15 Incrementally maintained evaluation state equals recomputation."""
import vlib, games


def main():
    chk = vlib.Check("C15", "model_checking")
    q = chk.quick
    mc = games.mc_game(chk, depth=2 if q else 3, workers=8 if q else 16)
    results, paths = games.walk_traces(chk, events=800 if q else 25000, files=8 if q else 32)
    n1, d1 = games.collect_walk(chk, results, paths)
    # positions with more phase points than the nominal maximum (promotions with all pieces still on): captures there
    import os
    results_s, paths_s = games.walk_traces(chk, events=500 if q else 8000, files=4 if q else 16, max_depth=20, label="surplus",
                                           roots=os.path.join(vlib.VERIF, "data", "roots_surplus.txt"))
    n_s, _ = games.collect_walk(chk, results_s, paths_s)
    n1 += n_s
    # one long game with passes, played and taken back: more take-backs in a row than any fixed-size store of snapshots holds
    results_l, paths_l = games.walk_traces(chk, events=0, files=1 if q else 2, label="walk_long", long=700 if q else 1100)
    n_l, _ = games.collect_walk(chk, results_l, paths_l)
    n1 += n_l
    results = results + results_s + results_l
    st = [r.stats("trace")[0] for r in results]
    files = games.gen_game(chk, "mixed", behaviours=32 if q else 2000, steps=60, max_depth=12, jvms=4 if q else 16)
    for m, p in games.replay_games(chk, files):
        if "acc" in m.get("fields", []) or m["what"] == "panic":
            w = "%s|%s|%s" % (m["what"], m.get("root"), " ".join(m.get("ops", [])))
            chk.violation(w, "replayed-behaviour-acc", m, replay={"kind": "gen-game", "file": p})
    chk.cov.update({
        "evaluations": n1,
        "distinct_nontrivial": sum(s["specials"] + s["nulls"] + s["undos"] for s in st),
        "rule": "per event: (phase, midgame, endgame) accumulators = IncrementalEvalFields::init(board) (and, CodeView, = sum of "
                "the engine's own table entries over the specification's board); events with identical key must have identical "
                "static evaluation. non-trivial = events that are promotions/en passant/castling moves, null moves or take-backs",
    })
    chk.sample({"first_trace": paths[0], "events": n1})
    return chk.finish()
