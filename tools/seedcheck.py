#!/usr/bin/env python3
"""seedcheck.py <worktree> <seed-subdir> <name> <Cxx> [more Cyy ...]

Confirms a change written by a fault-seeding agent and runs the checks against it WITHOUT touching /repo:
  1. in the agent's scratch worktree: the patch applies; the existing suite still passes (181); the
     demonstration fails with the patch and passes without it;
  2. a scratch copy of /verif (no build output) is pointed at the patched worktree through TCHERAN_REPO and
     the quick tier of the named checks is run there;
  3. the result is recorded under /verif/seeded/<name>/ (patch.diff, demo, README, meta.json).
"""
import os, sys, json, subprocess, shutil, time, re

VERIF = os.path.dirname(os.path.dirname(os.path.abspath(__file__)))


def sh(cmd, cwd=None, env=None, timeout=3600):
    e = dict(os.environ)
    e.update(env or {})
    r = subprocess.run(cmd, shell=True, cwd=cwd, env=e, stdout=subprocess.PIPE, stderr=subprocess.STDOUT, text=True, timeout=timeout)
    return r.returncode, r.stdout


def main():
    wt, sub, name = sys.argv[1], sys.argv[2], sys.argv[3]
    props = sys.argv[4:]
    seed = os.path.join(wt, sub)
    patch = os.path.join(seed, "patch.diff")
    meta = {"name": name, "property": props[0], "checks": props, "worktree_head": sh("git rev-parse HEAD", cwd=wt)[1].strip()}
    sh("git checkout -- . ; rm -f src/tests/seed_demo.rs", cwd=wt)
    rc, out = sh("git apply --check %s" % patch, cwd=wt)
    if rc != 0:
        print("PATCH DOES NOT APPLY", out)
        sys.exit(2)
    demo_rs = os.path.join(seed, "demo.rs")
    demo_other = [f for f in ("demo.sh", "demo.py") if os.path.exists(os.path.join(seed, f))]

    def demo(with_patch):
        sh("git checkout -- . ; rm -f src/tests/seed_demo.rs", cwd=wt)
        if with_patch:
            sh("git apply %s" % patch, cwd=wt)
        if os.path.exists(demo_rs):
            shutil.copy(demo_rs, os.path.join(wt, "src/tests/seed_demo.rs"))
            with open(os.path.join(wt, "src/tests/mod.rs"), "a") as f:
                f.write("mod seed_demo;\n")
            rc, out = sh("cargo test --offline seed_demo 2>&1 | tail -30", cwd=wt)
            m = re.search(r"test result: (\w+)\. (\d+) passed; (\d+) failed", out)
            ok = bool(m) and m.group(1) == "ok" and int(m.group(2)) > 0
            return ok, out[-1500:]
        elif demo_other:
            f = demo_other[0]
            rc, out = sh(("bash " if f.endswith(".sh") else "python3 ") + os.path.join(seed, f), cwd=wt, timeout=900)
            return rc == 0, out[-1500:]
        return None, "no demo"
    # suite with the patch (without the demo)
    sh("git checkout -- . ; rm -f src/tests/seed_demo.rs", cwd=wt)
    sh("git apply %s" % patch, cwd=wt)
    rc, out = sh("cargo test --workspace --no-fail-fast --offline 2>&1 | grep 'test result'", cwd=wt)
    meta["suite_with_patch"] = out.strip()
    suite_ok = "181 passed; 0 failed" in out
    ok_with, log_with = demo(True)
    ok_without, log_without = demo(False)
    meta["demo_fails_with_patch"] = (ok_with is False)
    meta["demo_passes_without_patch"] = (ok_without is True)
    print("suite with patch:", meta["suite_with_patch"], "| demo with patch passes:", ok_with, "| without:", ok_without)
    confirmed = suite_ok and ok_with is False and ok_without is True
    meta["confirmed"] = confirmed
    # run the checks against the patched worktree from a scratch copy of /verif
    sh("git checkout -- . ; rm -f src/tests/seed_demo.rs", cwd=wt)
    # the checks run against /repo's CURRENT head plus the patch (the agent's worktree may be older than the hooks the
    # harness needs): a fresh scratch worktree, removed afterwards
    cw = "/tmp/vw-%s" % name.replace("/", "-")
    sh("git -C /repo worktree remove --force %s" % cw)
    rc, out = sh("git -C /repo worktree add --detach %s HEAD" % cw)
    if rc != 0:
        print("worktree failed", out)
        sys.exit(2)
    rc, out = sh("git apply %s" % patch, cwd=cw)
    if rc != 0:
        rc, out = sh("git apply -3 %s" % patch, cwd=cw)
        if rc != 0:
            print("PATCH DOES NOT APPLY TO /repo HEAD", out)
            sh("git -C /repo worktree remove --force %s" % cw)
            sys.exit(2)
        # keep a patch that applies to the current head
        patch_head = sh("git diff HEAD", cwd=cw)[1]
        open(os.path.join(seed, "patch.diff"), "w").write(patch_head)
    meta["checked_against"] = sh("git rev-parse --short HEAD", cwd=cw)[1].strip()
    wt_checks = cw
    scratch = "/tmp/vf-%s" % name.replace("/", "-")
    shutil.rmtree(scratch, ignore_errors=True)
    sh("rsync -a --exclude out --exclude harness/target --exclude .git --exclude harness/repo_link %s/ %s/" % (VERIF, scratch))
    results = {}
    for p in props:
        t0 = time.time()
        tier = os.environ.get("SEED_TIER", "quick")
        rc, out = sh("./check %s --tier %s" % (p, tier), cwd=scratch, env={"TCHERAN_REPO": wt_checks}, timeout=6000)
        viol = [l for l in out.splitlines() if l.startswith("VIOLATION")]
        detail = [l for l in out.splitlines() if l.startswith("  ")][:3]
        results[p] = {"exit": rc, "violations": len(viol), "wall_s": round(time.time() - t0, 1), "first": detail,
                      "tail": out.splitlines()[-2:] if rc not in (0, 1) else []}
        print("check", p, "-> exit", rc, "violations", len(viol), detail[:1])
    meta["check_results"] = results
    meta["tier"] = os.environ.get("SEED_TIER", "quick")
    meta["caught_by"] = [p for p, r in results.items() if r["exit"] == 1 and r["violations"] > 0]
    sh("git checkout -- . ; rm -f src/tests/seed_demo.rs", cwd=wt)
    shutil.rmtree(scratch, ignore_errors=True)
    sh("git -C /repo worktree remove --force %s" % cw)
    # record
    dst = os.path.join(VERIF, "seeded", name)
    os.makedirs(dst, exist_ok=True)
    for f in os.listdir(seed):
        if os.path.isfile(os.path.join(seed, f)):
            shutil.copy(os.path.join(seed, f), os.path.join(dst, f))
    meta["what_i_ran"] = ["cargo test --workspace --no-fail-fast --offline (with patch)", "demo with patch / without patch",
                          "TCHERAN_REPO=<patched worktree> ./check <Cxx> --tier quick (from a scratch copy of /verif)"]
    json.dump(meta, open(os.path.join(dst, "meta.json"), "w"), indent=1)
    print("RESULT", name, "confirmed" if confirmed else "NOT-CONFIRMED", "caught_by", meta["caught_by"])


main()
