"""C07 Attack tables equal first-principles geometry (exhaustive in both tiers)."""
import os, json
import vlib, games


def main():
    chk = vlib.Check("C07", "model_checking")
    hb = vlib.build_harness("dev")
    nsh = 16

    def one(sh):
        cfg = os.path.join(chk.outdir, "gt_%d.cfg" % sh)
        games.gen_cfg(cfg, {"SHARD": sh, "NSHARDS": nsh}, "INIT Init\nNEXT Next\n")
        r = vlib.tlc("Gen_Tables", cfg=cfg, timeout=3000, xmx="3g")
        if r.error:
            raise vlib.ToolError("Gen_Tables: " + r.error)
        gen = [d for t, d in r.reports if t == "GEN"]
        p = os.path.join(chk.outdir, "gt_%d.ndjson" % sh)
        vlib.write_ndjson(p, gen)
        idx = os.path.join(chk.outdir, "idx_%d.ndjson" % sh)
        try:
            o = json.loads(vlib.harness(hb, ["tables", p, idx, chk.seed + sh]))
        except vlib.HarnessCrash as ex:
            # a lookup that takes the process down (an unchecked index outside its table) is data: the shard is reported
            # as a violation with the file to reproduce it; its remaining cases are not examined
            return {"sliders": 0, "perturbed": 0, "leapers": 0, "between": 0, "samples": [], "crash": str(ex)[:300],
                    "mismatches": [{"t": "crash", "what": "table lookup ended the process (signal)", "shard": sh, "stderr": ex.stderr[-300:]}]}, None, p, idx
        t = vlib.tlc("Trace_Tables", env={"TRACE": idx}, timeout=3000, xmx="3g")
        if t.error or not t.stats("tables"):
            raise vlib.ToolError("Trace_Tables: " + (t.error or t.stdout[-1500:]))
        return o, t, p, idx
    tot = {"sliders": 0, "perturbed": 0, "leapers": 0, "between": 0}
    lookups = 0
    for o, t, p, idx in vlib.pmap(one, list(range(nsh)), n=16):
        for k in tot:
            tot[k] += o[k]
        for s in o["samples"][:1]:
            chk.sample(s, cap=4)
        for m in o["mismatches"]:
            chk.violation(json.dumps(m, sort_keys=True), "table-vs-geometry", m, replay={"kind": "tables", "file": p})
        if t is None:
            continue
        for d in t.viols("C07"):
            chk.violation(json.dumps(d["detail"], sort_keys=True), d["what"], d, replay={"kind": "tables-index", "file": idx})
        lookups += t.stats("tables")[0]["lookups"]
    if not chk.violations and (tot["sliders"] != 107648 or tot["leapers"] != 256 or tot["between"] != 4096):
        raise vlib.ToolError("enumeration incomplete: %s" % tot)
    chk.cov.update({
        "states": tot["sliders"] + tot["leapers"] + tot["between"],
        "transitions": tot["sliders"] + tot["perturbed"],
        "traces_validated_against_impl": 16,
        "evaluations": tot["sliders"] + tot["perturbed"] + tot["leapers"] + tot["between"],
        "distinct_nontrivial": tot["sliders"],
        "index_lookups_checked": lookups,
        "exhaustive": True,
        "rule": "every subset of every square's relevant blocker mask for rook and bishop (107,648 cases, enumerated by TLC with "
                "attack sets obtained by ray walking) + 8 occupancies per case differing only outside the mask; knight/king for 64 "
                "squares, pawns for 2x64, between for 64x64; table index < table length for every canonical and all-irrelevant-set lookup",
        "cases": tot,
    })
    return chk.finish()
