"""Shared driver machinery: building the harness, running TLC, collecting reports, writing
evidence and replay files, matching known findings.

Exit codes (DESIGN.md 2.5): 0 property held on everything explored; 1 violation (always with a
`VIOLATION property=<id> replay=<path>` line and an existing replay file); 2 tool error/timeout.
"""
import json, os, re, subprocess, sys, time, shutil, hashlib, random, threading
from concurrent.futures import ThreadPoolExecutor

VERIF = os.path.dirname(os.path.dirname(os.path.abspath(__file__)))
REPO = os.environ.get("TCHERAN_REPO", "/repo")
SPEC = os.path.join(VERIF, "spec")
HARNESS = os.path.join(VERIF, "harness")
OUT = os.path.join(VERIF, "out")
JAR = "/opt/veriftools/tla/tla2tools.jar:/opt/veriftools/tla/CommunityModules-deps.jar"
NCPU = os.cpu_count() or 4


class ToolError(Exception):
    pass


class HarnessCrash(ToolError):
    """The harness process was killed by a signal (abort, segfault): the code under test took the process down in a
    way catch_unwind cannot turn into an event. Checks that know what was running treat it as data (a violation)."""

    def __init__(self, msg, returncode, stderr, args):
        super().__init__(msg)
        self.returncode, self.stderr, self.args_ = returncode, stderr, args


def log(*a):
    print(*a, file=sys.stderr, flush=True)


def sh(cmd, timeout=None, env=None, cwd=None, input=None):
    e = dict(os.environ)
    if env:
        e.update(env)
    return subprocess.run(cmd, shell=isinstance(cmd, str), stdout=subprocess.PIPE, stderr=subprocess.STDOUT,
                          text=True, timeout=timeout, env=e, cwd=cwd, input=input)


# ----------------------------------------------------------------------------- harness
_built = {}
_build_lock = threading.Lock()


def _link_repo():
    """harness/repo_link -> the tree under test.  The harness includes that tree's sources through the link, and cargo decides
    staleness by modification times: pointing the link at ANOTHER tree (whose files may be older than the last build) would
    leave a binary of the previous tree in place.  So the tree the last build was made from is recorded in the target
    directory, and a different tree forces the harness crate to be rebuilt."""
    link = os.path.join(HARNESS, "repo_link")
    stamp = os.path.join(HARNESS, "target", ".built-from")
    real = os.path.realpath(REPO)
    prev = open(stamp).read().strip() if os.path.exists(stamp) else None
    if not (os.path.islink(link) and os.readlink(link) == REPO):
        if os.path.islink(link) or os.path.exists(link):
            os.remove(link)
        os.symlink(REPO, link)
    if prev is not None and prev != real:
        sh(["cargo", "clean", "--offline", "-p", "tcheran-verif-harness"], cwd=HARNESS, timeout=300)
        for prof in ("opt",):
            sh(["cargo", "clean", "--offline", "--profile", prof, "-p", "tcheran-verif-harness"], cwd=HARNESS, timeout=300)
    os.makedirs(os.path.dirname(stamp), exist_ok=True)
    with open(stamp, "w") as f:
        f.write(real + "\n")


def build_harness(profile="dev"):
    """cargo build of the harness: always compiles the current working tree of /repo."""
    with _build_lock:
        if profile in _built:
            return _built[profile]
        _link_repo()
        args = ["cargo", "build", "--offline", "--quiet"]
        if profile != "dev":
            args += ["--profile", profile]
        env = {"CARGO_NET_OFFLINE": "true", "TCHERAN_REPO": REPO}
        r = sh(args, cwd=HARNESS, env=env, timeout=1800)
        if r.returncode != 0:
            raise ToolError("harness build failed:\n" + r.stdout[-4000:])
        d = "debug" if profile == "dev" else profile
        p = os.path.join(HARNESS, "target", d, "tcheran-verif-harness")
        if not os.path.exists(p):
            raise ToolError("harness binary missing: " + p)
        _built[profile] = p
        return p


def build_engine(profile="dev", hooks=True):
    """Builds the real engine binary from /repo (never inside /repo): used for the UCI properties."""
    key = ("engine", profile, hooks)
    with _build_lock:
        if key in _built:
            return _built[key]
        tdir = os.path.join(HARNESS, "target", "repo-bin-" + ("hooks" if hooks else "plain"))
        flags = "--cfg jgilchrist_tcheran_verif --check-cfg cfg(jgilchrist_tcheran_verif)" if hooks else ""
        args = ["cargo", "build", "--offline", "--quiet", "--target-dir", tdir]
        if profile == "release":
            args += ["--release"]
        env = {"CARGO_NET_OFFLINE": "true", "RUSTFLAGS": flags}
        r = sh(args, cwd=REPO, env=env, timeout=1800)
        if r.returncode != 0:
            raise ToolError("engine build failed:\n" + r.stdout[-4000:])
        p = os.path.join(tdir, "release" if profile == "release" else "debug", "engine")
        if not os.path.exists(p):
            raise ToolError("engine binary missing: " + p)
        _built[key] = p
        return p


def harness(binpath, args, timeout=3600, input=None, env=None):
    r = subprocess.run([binpath] + [str(a) for a in args], stdout=subprocess.PIPE, stderr=subprocess.PIPE,
                       text=True, timeout=timeout, input=input, env={**os.environ, **(env or {})})
    if r.returncode < 0:
        raise HarnessCrash("harness %s killed by signal %d: %s" % (args[:2], -r.returncode, r.stderr[-2000:]),
                           r.returncode, r.stderr[-2000:], args)
    if r.returncode != 0:
        raise ToolError("harness %s failed (%d): %s" % (args[:2], r.returncode, r.stderr[-2000:]))
    return r.stdout


# ----------------------------------------------------------------------------- TLC
class TlcResult:
    def __init__(self):
        self.reports = []     # (tag, dict)
        self.stdout = ""
        self.states = 0
        self.distinct = 0
        self.depth = 0
        self.ok = False       # "Model checking completed. No error has been found." or simulation finished
        self.error = None     # TLC error text (invariant violated, deadlock, exception...)
        self.coverage = {}    # action name -> (taken, distinct)
        self.wall = 0.0

    def viols(self, pid=None):
        return [d for t, d in self.reports if t == "VIOL" and (pid is None or d.get("id") == pid)]

    def drifts(self, pid=None):
        return [d for t, d in self.reports if t == "DRIFT" and (pid is None or d.get("id") == pid)]

    def stats(self, name=None):
        return [d["v"] for t, d in self.reports if t == "STAT" and (name is None or d.get("name") == name)]


_rep_re = re.compile(r'^"@@(VIOL|DRIFT|STAT|GEN) (.*)"$')


def _unescape(s):
    # TLC prints strings with \" and \\ escapes
    return s.replace('\\"', '"').replace("\\\\", "\\")


def parse_tlc(out):
    res = TlcResult()
    res.stdout = out
    for line in out.splitlines():
        m = _rep_re.match(line)
        if m:
            try:
                res.reports.append((m.group(1), json.loads(_unescape(m.group(2)))))
            except Exception as ex:
                raise ToolError("unparsable report line: %s (%s)" % (line[:300], ex))
            continue
        m = re.match(r"^(\d+) states generated, (\d+) distinct states found", line)
        if m:
            res.states, res.distinct = int(m.group(1)), int(m.group(2))
        m = re.match(r"^The depth of the complete state graph search is (\d+)", line)
        if m:
            res.depth = int(m.group(1))
        m = re.match(r"^<(\w+) line \d+, col \d+ to line \d+, col \d+ of module \w+>: (\d+):(\d+)", line)
        if m:
            a = res.coverage.get(m.group(1), (0, 0))
            res.coverage[m.group(1)] = (a[0] + int(m.group(3)), a[1] + int(m.group(2)))
    # TLC's own error lines start with "Error:"; the same text inside a report line (e.g. a panic message of the code
    # under test quoted in a @@VIOL detail) is data
    m = re.search(r"^Error:", out, flags=re.M)
    if "Model checking completed. No error has been found." in out or "Finished in" in out and not m:
        res.ok = True
    if m:
        res.ok = False
        res.error = out[m.start():m.start() + 3000]
    return res


def tlc(module, cfg=None, env=None, meta=None, workers=1, timeout=3600, xmx="3g", extra=None, dfs=True,
        cwd=None):
    """Runs TLC on SPEC/module.tla with SPEC/cfg. One JVM; serial GC for single-worker runs."""
    t0 = time.time()
    cfg = cfg or module + ".cfg"
    meta = meta or os.path.join(OUT, "meta", "%s-%d-%d" % (module, os.getpid(), random.randrange(1 << 30)))
    os.makedirs(meta, exist_ok=True)
    gc = "-XX:+UseSerialGC" if workers == 1 else "-XX:+UseParallelGC"
    cmd = ["java", gc, "-Xss1g", "-Xmx" + xmx]
    if dfs:
        cmd.append("-Dtlc2.tool.queue.IStateQueue=StateDeque")
    cmd += ["-cp", JAR, "tlc2.TLC", "-workers", str(workers), "-nowarning", "-metadir", meta,
            "-noGenerateSpecTE", "-config", os.path.join(SPEC, cfg)]
    cmd += list(extra or [])
    cmd.append(os.path.join(SPEC, module + ".tla"))
    e = dict(os.environ)
    e.update({k: str(v) for k, v in (env or {}).items()})
    e.pop("JAVA_TOOL_OPTIONS", None)
    try:
        r = subprocess.run(cmd, stdout=subprocess.PIPE, stderr=subprocess.STDOUT, text=True, timeout=timeout,
                           env=e, cwd=cwd or SPEC)
    except subprocess.TimeoutExpired:
        shutil.rmtree(meta, ignore_errors=True)
        raise ToolError("TLC timeout after %ss on %s" % (timeout, module))
    shutil.rmtree(meta, ignore_errors=True)
    res = parse_tlc(r.stdout)
    res.wall = time.time() - t0
    if "Parsing or semantic analysis failed" in r.stdout or "java.lang.OutOfMemoryError" in r.stdout:
        raise ToolError("TLC failed on %s:\n%s" % (module, r.stdout[-3000:]))
    return res


def tlaps(module, outdir, timeout=300):
    """Supplementary: runs the TLA+ proof system on SPEC/module.tla in a scratch copy. Returns (proved, total) or None."""
    d = os.path.join(outdir, "tlaps")
    os.makedirs(d, exist_ok=True)
    shutil.copy(os.path.join(SPEC, module + ".tla"), d)
    try:
        r = sh(["tlapm", "--threads", "4", module + ".tla"], cwd=d, timeout=timeout)
    except Exception:
        return None
    m = re.search(r"All (\d+) obligations? proved", r.stdout)
    if m:
        return int(m.group(1)), int(m.group(1))
    m = re.search(r"(\d+)/(\d+) obligations? failed", r.stdout)
    if m:
        return int(m.group(2)) - int(m.group(1)), int(m.group(2))
    return None


def pmap(fn, items, n=None):
    n = n or max(1, min(NCPU, len(items)))
    with ThreadPoolExecutor(max_workers=n) as ex:
        return list(ex.map(fn, items))


# ----------------------------------------------------------------------------- findings
def load_known():
    p = os.path.join(VERIF, "known_findings.json")
    if not os.path.exists(p):
        return []
    return json.load(open(p)).get("findings", [])


def match_known(pid, witness, known):
    """A known finding suppresses exactly the witnesses it names (string equality, or a regex that is
    anchored and written for one specific input/history)."""
    for k in known:
        if k.get("status") != "open" or k.get("property") != pid:
            continue
        if "witness" in k and k["witness"] == witness:
            return k
        if "witness_regex" in k and re.fullmatch(k["witness_regex"], witness):
            return k
    return None


# ----------------------------------------------------------------------------- check context
class Check:
    def __init__(self, pid, level, tier=None, seed=None):
        self.pid = pid
        self.level = level
        self.tier = tier or os.environ.get("VERIF_TIER", "quick")
        s = seed if seed is not None else os.environ.get("VERIF_SEED")
        self.seed = int(s) if s not in (None, "") else 20261004
        self.t0 = time.time()
        self.cov = {"samples": []}
        self.assumptions = []
        self.violations = []   # dict(witness, what, detail)
        self.drift = []
        self.outdir = os.path.join(OUT, pid)
        shutil.rmtree(self.outdir, ignore_errors=True)
        os.makedirs(self.outdir, exist_ok=True)
        os.makedirs(os.path.join(OUT, "replays"), exist_ok=True)
        self.rng = random.Random(self.seed)
        global _current_check
        _current_check = self

    @property
    def quick(self):
        return self.tier != "thorough"

    def add(self, key, n):
        self.cov[key] = self.cov.get(key, 0) + n

    def sample(self, s, cap=6):
        if len(self.cov["samples"]) < cap:
            self.cov["samples"].append(s)

    def violation(self, witness, what, detail=None, replay=None):
        self.violations.append({"witness": witness, "what": what, "detail": detail, "replay": replay})

    def take_reports(self, res, src=None, witness_of=None):
        """Collects VIOL/DRIFT reports for this property from a TLC result."""
        for d in res.viols(self.pid):
            w = witness_of(d) if witness_of else json.dumps(d.get("detail"), sort_keys=True)
            self.violation(w, d.get("what"), {"report": d, "source": src})
        for d in res.drifts(self.pid):
            self.drift.append({"what": d.get("what"), "detail": d.get("detail"), "source": src})

    def finish(self):
        known = load_known()
        new, seen = [], set()
        for v in self.violations:
            key = (v["what"], v["witness"])
            if key in seen:
                continue
            seen.add(key)
            k = match_known(self.pid, v["witness"], known)
            if k:
                print("KNOWN-FINDING: property=%s %s" % (self.pid, k.get("summary", v["witness"])))
            else:
                new.append(v)
        for d in self.drift[:20]:
            print("DRIFT property=%s %s %s" % (self.pid, d["what"], json.dumps(d["detail"])[:300]))
        self.cov["fidelity_mismatches"] = len(self.drift)
        if self.drift:
            self.assumptions.append("CodeView drift observed: model-checking results about the CodeView no longer "
                                    "transfer to the code; PropertyView clauses are unaffected")
        ev = {"property_id": self.pid, "tier": "thorough" if self.tier == "thorough" else "quick",
              "seed": self.seed, "level": self.level, "coverage": self.cov, "assumptions": self.assumptions,
              "wall_s": round(time.time() - self.t0, 2), "violations": len(new)}
        os.makedirs(os.path.join(VERIF, "evidence"), exist_ok=True)
        with open(os.path.join(VERIF, "evidence", self.pid + ".json"), "w") as f:
            json.dump(ev, f, indent=1, sort_keys=True)
            f.write("\n")
        for i, v in enumerate(new[:25]):
            h = hashlib.sha1((v["what"] + "|" + v["witness"]).encode()).hexdigest()[:10]
            rp = os.path.join(OUT, "replays", "%s-%s.json" % (self.pid, h))
            with open(rp, "w") as f:
                json.dump({"property": self.pid, "what": v["what"], "witness": v["witness"],
                           "detail": v["detail"], "replay": v.get("replay"), "seed": self.seed,
                           "tier": self.tier}, f, indent=1)
            print("VIOLATION property=%s replay=%s" % (self.pid, rp))
            log("  %s: %s" % (v["what"], v["witness"][:300]))
        log("[%s] tier=%s wall=%.1fs violations=%d known=%d drift=%d" %
            (self.pid, self.tier, time.time() - self.t0, len(new), len(seen) - len(new), len(self.drift)))
        return 1 if new else 0


_current_check = None


def _tool_error(msg):
    """A tool error ends the check with exit 2 - unless violations (with witnesses) had already been found: those stand
    on their own observations, and a later phase that cannot cope with the broken code must not hide them."""
    log("TOOL-ERROR: " + msg)
    c = _current_check
    if c is not None and c.violations:
        log("NOTE violations found before the tool error are reported; the phases after it did not run")
        c.assumptions.append("the check ended early with a tool error after these violations had been found: " + msg[:300])
        try:
            code = c.finish()
        except Exception:
            code = 2
        sys.exit(1 if code == 1 else 2)
    sys.exit(2)


def run_check(fn):
    """Wraps a check's main: tool errors -> exit 2 without a VIOLATION line."""
    try:
        code = fn()
    except ToolError as ex:
        _tool_error(str(ex))
    except subprocess.TimeoutExpired as ex:
        _tool_error("timeout " + str(ex))
    except SystemExit:
        raise
    except Exception:
        # a bug of the machinery is a tool error, never a verdict about the code under test
        import traceback
        _tool_error("unexpected exception in the check itself\n" + traceback.format_exc())
    sys.exit(code)


def read_ndjson(path):
    with open(path) as f:
        return [json.loads(x) for x in f if x.strip()]


def write_ndjson(path, rows):
    with open(path, "w") as f:
        for r in rows:
            f.write(json.dumps(r, separators=(",", ":")) + "\n")
