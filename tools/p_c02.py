"""C02 Making and unmaking moves follows the rules and is exactly reversible."""
import json
import vlib, games


def main():
    chk = vlib.Check("C02", "model_checking")
    q = chk.quick
    mc = games.mc_game(chk, depth=2 if q else 3, workers=8 if q else 16)
    results, paths = games.walk_traces(chk, events=600 if q else 20000, files=8 if q else 32)
    # one game longer than any fixed-size history: more than 1024 plies played and taken back again, every step validated
    r4, p4 = games.walk_traces(chk, events=0, files=1 if q else 2, label="walk_long", long=1100 if q else 1300)
    results, paths = results + r4, paths + p4
    n_events, distinct = games.collect_walk(chk, results, paths)
    # double pushes landing beside an enemy pawn that is pinned on any line or free (TLC family, every successor judged)
    games.dblpush_lines(chk)
    st = [r.stats("trace")[0] for r in results]
    files = games.gen_game(chk, "mixed", behaviours=64 if q else 4000, steps=60 if q else 120,
                           max_depth=12 if q else 30, jvms=8 if q else 16)
    files += games.gen_game_all(chk, depth=2 if q else 3, workers=8 if q else 16)
    for m, p in games.replay_games(chk, files):
        w = "%s|%s|%s" % (m["what"], m.get("root"), " ".join(m.get("ops", [])))
        chk.violation(w, "replayed-behaviour", m, replay={"kind": "gen-game", "file": p, "game": m.get("game")})
    undos = sum(s["undos"] for s in st) + chk.cov["replayed_behaviours"]["ops"].get("undo", 0)
    if undos == 0:
        raise vlib.ToolError("no take-back exercised (vacuous)")
    chk.cov.update({
        "evaluations": n_events + chk.cov["replayed_behaviours"]["steps"],
        "distinct_nontrivial": sum(s["specials"] for s in st) + chk.cov["replayed_behaviours"]["special_moves"],
        "rule": "every operation (make/null/undo/undonull) of random walks (engine chooses), of TLC-simulated ChessGame "
                "behaviours (specification chooses) and of EVERY path of moves/null moves of the bounded model (nesting depth 2 quick / 3 "
                "thorough from 19 roots, each followed by the take-backs to the root) is compared field by field with the specification's successor / saved "
                "state, three board views included; non-trivial = castling, en passant, promotion or capture-promotion moves played",
        "walk": {k: sum(s[k] for s in st) for k in ("makes", "nulls", "undos", "loads", "maxdepth")},
    })
    chk.sample({"trace_event_ops": "load/make/null/undo/undonull with full projection", "first_trace": paths[0]})
    chk.assumptions += ["bounded model: %d roots, nesting depth %d" % (chk.cov["mc_roots"], chk.cov["mc_depth"]),
                        "EpConvention: en-passant target recorded only when an enemy pawn stands beside the pushed pawn"]
    return chk.finish()
