#!/usr/bin/env python3
"""Regenerates MANIFEST.json from the table below (keeps the file valid at all times)."""
import json, os, subprocess
V = os.path.dirname(os.path.dirname(os.path.abspath(__file__)))
ALL = ["C%02d" % i for i in range(1, 21)]

CHECKS = {
 "C01": dict(cat="model_checking", ref="DESIGN.md 4 C01", tech="TLA+ rule book (Chess.tla) evaluated by TLC: trace validation of engine walks + TLC-enumerated position families replayed into the move generator",
   text="Every recorded position's move list, flags and check verdict are compared by TLC with the first-principles rule book; seven mechanism-directed families of legal positions are enumerated by TLC with their expected move sets and replayed into the real generator, both colours. Exact oracle, bounded input space.",
   note="Trusted: Chess.tla (sanity-checked by perft 20/400/8902 in TLC), TLC, the harness projection (piece_at / Move accessors). Positions outside the families and walks are not examined."),
 "C02": dict(cat="model_checking", ref="DESIGN.md 4 C02", tech="TLA+ state machine ChessGame.tla model-checked with TLC (CodeView => PropertyView), trace validation of engine walks, replay of TLC-simulated behaviours",
   text="ChessGame.tla transcribes make/undo/null micro-step by micro-step; TLC checks exhaustively on a bounded model (12 roots, nesting depth 2 quick / 3 thorough, all interleavings of move/null/undo) that the transcription yields the rule book's successor, restores every saved field and keeps the three board views in agreement. Real executions are bound to it in both directions: every walk operation is validated against the action's successor state, and TLC-simulated behaviours (moves chosen by the rule book) are replayed through the real make/undo with field-by-field comparison.",
   note="Trusted: Chess.tla/ChessGame.tla, TLC, harness projection. Bounded nesting depth in the model; walks/behaviours are samples."),
 "C03": dict(cat="model_checking", ref="DESIGN.md 4 C03", tech="TLA+ key-as-component-set model checked with TLC; trace validation incl. XOR of the engine's real words selected by the spec; sort-by-key collision clause",
   text="The key is modelled as the set of active components (XOR = symmetric difference); TLC checks KeyConsistent on the bounded ChessGame model. On every recorded event TLC compares the carried key with the from-scratch key and with the XOR (Bitwise) of the engine's own 838 words selected by the specification; per trace file events are sorted by key and equal keys must be identical positions; the 838 words are pairwise distinct and non-zero.",
   note="Collisions are sought within one trace file only. Word table read through the public toggle API."),
 "C11": dict(cat="model_checking", ref="DESIGN.md 4 C11", tech="TLA+ rule-book repetition scan / fifty-move / dead-material definitions evaluated by TLC on engine traces; window rule model-checked; TLC-enumerated material signatures replayed",
   text="TLC model-checks that the engine's window rule (last halfmove-clock saved keys) coincides with the rule-book definition on null-free histories of the bounded model, validates the three verdicts on every event of walks that seek repetitions and drive clocks across 100 (FEN roots with non-zero clocks included), and enumerates material signatures (<=3 extra pieces, 12 king placements) with the stated verdicts.",
   note="With null moves in the history only soundness of the repetition verdict is required (as designed). Material cases on which the property is silent are CodeView only."),
 "C15": dict(cat="model_checking", ref="DESIGN.md 4 C15", tech="TLA+ accumulator model checked with TLC (AccConsistent), trace validation against IncrementalEvalFields::init and the engine's own tables summed by TLC",
   text="The accumulator is a specification variable updated inside the set/remove micro-steps; TLC checks it equals the from-scratch value in every state of the bounded model. Every recorded event compares the carried (phase, mg, eg) with the recomputation, and events with equal keys must have equal static evaluation.",
   note="Table-sum clause is CodeView (drift) so that a refactoring of the evaluation terms does not alarm."),
 "C06": dict(cat="model_checking", ref="DESIGN.md 4 C06", tech="TLA+ FEN grammar (Fen.tla: writer and reader over character codes) evaluated by TLC on recorded reader/writer calls; TLC-enumerated corruption families",
   text="Fen.tla defines writer, reader and the rank-structure predicate. TLC enumerates canonical texts of base positions and ~350 systematic corruptions each; the harness feeds them, the FENs of walk positions and random strings to the real reader in the checked and optimised builds; TLC judges every event: no panic, bad rank structure rejected, grammar-accepted texts accepted with identical fields/key, canonical text reproduced, write-then-read identity. Writer text is also compared on every walk event.",
   note="Counters beyond nine digits and move number 0 are outside the grammar (only crash-freedom required)."),
 "C07": dict(cat="model_checking", ref="DESIGN.md 4 C07", tech="TLA+ geometry (ray walking) enumerated exhaustively by TLC and replayed against the engine's tables; index trace (hook H2) validated by TLC",
   text="Exhaustive in both tiers: TLC enumerates every subset of every relevant blocker mask for both slider kinds (107,648 cases) with the attack set obtained by ray walking, all leaper/pawn tables and all 4,096 between pairs; the harness compares each with the real tables, also under 8 occupancies per case that differ only in irrelevant bits, and logs the table index of the lookups (hook), which TLC checks to lie inside the table.",
   note="exhaustive: true for the slider/leaper/between spaces; perturbations are random samples of the irrelevant bits plus the two extremes.", engine="tla-game"),
 "C18": dict(cat="model_checking", ref="DESIGN.md 4 C18", tech="TLA+ SAN definition (San.tla) evaluated by TLC on recorded writer/reader calls; TLC-generated ambiguity families",
   text="San.tla defines the standard text of a legal move (minimal disambiguation, capture, promotion, castling, check suffix with + and # equivalent on mate). For every move of every distinct position (TLC-generated families of 2-3 like pieces reaching one square, pawn captures beside other capturers, promotions, checking castles, both colours; plus walk positions) TLC checks the engine's text, that the texts of a position are pairwise different, and that the reader returns the same move without panicking.",
   note="Moves absent from the engine's move list are C01's business and are skipped here."),
 "C20": dict(cat="model_checking", ref="DESIGN.md 4 C20", tech="TLA+ swap-list exchange evaluation (See.tla, set-valued on ties) evaluated by TLC on recorded verdicts; TLC-generated exchange constellations; mirror validated against Chess!Mirror",
   text="See.tla computes the set of possible swap-list verdicts (ties between equally valued least attackers are non-deterministic, x-rays arise from geometry). For every non-en-passant capture of generated constellations (batteries, capturing promotions) and walk positions TLC checks colour symmetry (on a mirror it validates itself), the undefended and captured>=capturer clauses, and membership of the engine's verdict in the set.",
   note="Abstractions shared with the engine are stated in See.tla (pins ignored, no promotion during the exchange)."),
 "C04": dict(cat="model_checking", ref="DESIGN.md 4 C04", tech="TLA+ control skeleton SearchCtl.tla (iterative deepening x aspiration x 8-bit generation, explicit machine-range checks) model-checked with TLC; real searches judged by the TLA+ rule book (Trace_Search.tla)",
   text="SearchCtl.tla is model-checked for every interleaving of fail-low / fail-high / abort over a boundary-heavy score grid and a generation counter crossing 255 (NoOverflow, window sanity, termination of the aspiration loop). Real searches run in sessions on shared tables (unrelated positions back to back, time and clock limits down to 0 ms, more than 256 searches on one table, score-jump positions, hash 1/2/16 MB) in the checked and the optimised build; TLC judges each: a move came back, it is legal by the rule book, no panic, the run ended.",
   note="The tree search is abstract in the model. Optimised-build wrap-around is visible only through its consequences."),
 "C05": dict(cat="model_checking", ref="DESIGN.md 4 C05", tech="TLA+ concurrent model Uci.tla (input thread, search threads, latch, mutex, stop handle) model-checked with TLC incl. liveness; its state graph replayed as forced schedules on the hooked binary; event logs of free-running sessions validated against the model",
   text="Uci.tla has one action per critical section of the UCI layer; TLC checks deadlock freedom, 'a blocked command always returns' and 'an answerable go is answered' under weak fairness for unbounded command histories of a protocol-conforming GUI. The bounded state graph is dumped, an edge cover of paths computed and every path forced label for label on the real binary through gate/done hooks, with a watchdog for hangs; free-running sessions with random timing are logged at linearization points (sequence numbers under the hook's lock) and must be behaviours of the model.",
   note="Searches in forced schedules are depth-1 or infinite. Schedules that the code cannot realise are reported as drift after a relaxed re-run shows no hang.", engine="tla-uci"),
 "C08": dict(cat="model_checking", ref="DESIGN.md 4 C08", tech="TLA+ rule book replays every reported line (Trace_Search.tla): legality move by move, depth sequence, mate announcements verified to end in checkmate; TLC-generated near-mate endings as positions",
   text="Every info line of every iteration of real searches is replayed by TLC through Chess!Legal / Make; depths must be 1,2,3,... within the limit; a 'mate n' must have exactly the matching number of plies and end with the announced side checkmated by the rule book. Positions: TLC-enumerated elementary endings near mate (searched on fresh tables and after searching a neighbouring position), bench/perft roots, walk positions, move-time limited runs.",
   note="Quick tier uses the optimised build only; thorough both."),
 "C09": dict(cat="model_checking", ref="DESIGN.md 4 C09", tech="hook-controlled stop at every poll index k (fault enumeration over poll points) with the outcome judged by the TLA+ rule book and Trace_Search.tla clauses",
   text="For each (position, limit) the number P of stop-flag loads of the unstopped search is counted through the hook; the search is then run once for every k = 1..P with the flag reading true from the k-th load on, followed by two ordinary searches on the same tables. TLC judges: legal move returned, caller's game untouched, no flag load / larger node count after the observing poll, follow-up searches return legal moves and legal lines.",
   note="Poll indices are exhaustive per pair up to a cap (40 quick / 200 thorough), both ends sampled beyond. The abstract abort action of SearchCtl.tla covers the design level; a node-level Negamax.tla is a growth item."),
 "C12": dict(cat="model_checking", ref="DESIGN.md 4 C12", tech="TLA+ abstract-state model Session.tla; recorded command logs of real processes and library sessions replayed by TLC (Trace_Session.tla) which rejects two different outputs for one abstract state",
   text="Session.tla defines the abstract state (options in force, history of position/go commands since the last reset, where process start and ucinewgame are resets). Real processes run scripts built to coincide (fresh S; H-ucinewgame-S with option changes and up to 260 searches in H; S S twice) and library sessions run in the checked and optimised builds; TLC replays all command logs through the model and rejects any pair of observations that share the abstract state but differ in best move, scores, lines, node counts or fill.",
   note="Timing perturbation = checked vs optimised build and 8 processes in parallel. Output of a search is compared as text with time/nps removed."),
 "C13": dict(cat="model_checking", ref="DESIGN.md 4 C13", tech="crash clause of Uci.tla model-checked with the advertised Hash minimum; TLC-enumerated option scripts (Gen_Options.tla) run on the real binary; answers judged by the TLA+ rule book",
   text="The advertised spin ranges are read from the binary's own uci output. TLC checks NoCrash of Uci.tla instantiated with the advertised Hash minimum (a zero-entry table is the model's crash state) and enumerates option scripts (min, min+1, default, max-1, max and interior values of every spin option, before and between searches, pairs of boundaries); every script runs on the real binary: readyok after each setoption, searches complete with a move the rule book accepts, clean exit.",
   note="Quick: debug build, boundaries singly plus sampled interiors/pairs; thorough: debug and release builds, everything. At most two concurrent processes with a large table.", engine="tla-uci"),
 "C17": dict(cat="model_checking", ref="DESIGN.md 4 C17", tech="TLC -simulate of ChessGame.tla generates games with expected FEN and reply set after every ply (Gen_Game.tla); replayed through the real binary's position command",
   text="TLC plays games by the rule book (start position and FEN roots, up to 300 plies, biased to castling, en passant and promotions) and prints moves in long algebraic text with the specification's FEN and legal-reply set after every ply; the real binary is given 'position ... moves ...' for whole games and random prefixes and must print the same FEN and the same reply set; sampled bestmoves must be replies.",
   note="Text is compared with text; the expected values come from TLC only.", engine="tla-uci"),
 "C19": dict(cat="model_checking", ref="DESIGN.md 4 C19, A.8", tech="TLA+ state machine TransTable.tla with PropertyView/CodeView layers; TLC exhaustive model checking; trace validation of recorded executions of the real table; replay of TLC-simulated behaviours and TLC counterexamples on the real table",
   text="TransTable.tla separates what C19 states (PropertyView, on the true search number) from the transcription of the code (CodeView, 8-bit age = search mod 256). TLC explores the complete reachable state space of a bounded model (3/2 slots, 5 keys with colliding pairs, depths 0..2, 3 bounds, 4 stored ages, every interleaving of insert/probe/new-search/reset/resize) and shows CodeView => PropertyView whenever fewer than GenMod searches lie between two emptyings, and that age aliasing is the only failure across a full wrap. Every operation of ~10^4 (quick) / ~10^6 (thorough) random, TLC-generated and TLC-counterexample operation sequences executed on the real table in the checked and the optimised build, sizes 1/2/3/16 MB and once 1024 MB, is a validated step of the trace specification.",
   note="One entry per slot assumed; f32 permille compared with tolerance 1. Open known finding: an entry exactly 256k searches old is treated as current."),
 "C16": dict(cat="model_checking", ref="DESIGN.md 4 C16", tech="TLA+ blend/packing definitions (EvalBlend.tla) evaluated exhaustively by TLC on a boundary grid; recorded evaluations of TLC-generated extreme-material positions and their TLC-validated colour mirrors judged by Trace_Eval.tla",
   text="EvalBlend.tla states the blend as coded and the between-ness the property demands; TLC evaluates it on a 25x25 grid x phase 0..100 plus carry-freedom of the packed two-phase number. The same triples go through the real for_phase. Positions with material far outside normal play (TLC-generated: up to nine queens, ten rooks or ten minors a side behind pawn walls, phase up to 88), material signatures, near-mate endings, walk and bench positions are evaluated in both builds; TLC checks no panic, eval = eval of the mirror (mirror validated against Chess!Mirror), |eval| < 31900 and eval between the pure middlegame and pure endgame assessments.",
   note="Evaluation terms are not re-derived in TLA+; C16 is decided through metamorphic clauses. Symbolic discharge of the blend clause with Apalache is a growth item."),
 "C10": dict(cat="model_checking", ref="DESIGN.md 4 C10", tech="TLA+ state machine of the staged generator (MovePicker.tla) model-checked with TLC over all bounded configurations, sharded, with per-branch action coverage; trace validation of recorded picker runs with the rule book (Chess.tla) as judge; MovePicker.tla composed with See.tla as CodeView predictor; hook H5 writes killer pairs",
   text="MovePicker.tla transcribes MovePicker::next / next_best_move block by block (selection step, hash-move skip, swap-to-front of killers and counter move, bad-capture parking, captures-only variant). TLC checks exhaustively that for every configuration within the bounds (quick <=2 captures x <=3 quiets; thorough <=3x3 and 4x<=2: 6.95 M configurations, 104 M states) the stream at Done is a permutation of the listed moves (loud: duplicate-free and contains all captures), over all weak orderings of capture scores and history values, every threshold position, hash move listed or none, killers and counter move independently listed, none or foreign; every branch action taken; termination by a progress measure. Every stream of the real picker on real positions x adversarial table contents (killers/counter among legal quiets, captures, queen promotions, moves legal only in sibling positions, arbitrary Move values, equal to each other; history ties and saturation; plies 0..254) is judged by TLC against Chess!Legal(pos) and compared with the model's predicted stream.",
   note="Hash move restricted to legal moves or none (the property's quantifier). History values only those reachable through add_bonus_for. A stream that differs from the model's prediction is drift, not a violation.", engine="tla-game"),
 "C14": dict(cat="model_checking", ref="DESIGN.md 4 C14, A.9", tech="TLA+ exact-rational time allocation checked by TLC (grid as initial states) plus a timed poll automaton; TLC-generated grid replayed into TimeStrategy::new via the verif_limits accessor; trace validation on two-limb nanosecond values; wall-clock UCI runs",
   text="TimeAlloc.tla gives the coded limit formula in exact rational arithmetic (CodeView) and the property's bounds (PropertyView). TLC checks CodeView => PropertyView and no crash inside the domain on a dense grid (remaining 0-10^7 ms, increments, movestogo 1..100, overhead 0..rem/2, either clock missing, movetime). The same grid plus seeded random situations and probes beyond 32 bits are sent as UCI text through the real parser into the real TimeStrategy::new in both build profiles, and every recorded (soft, hard) is validated by TLC against PropertyView (tolerance 2^-22 + 1 us). A timed poll model over all PropertyView-admissible limits shows return-before-flag for clocks >= 200 ms under the measured poll gap and latency. A sample of the situations (600 quick / 6000 thorough) also goes as text through the UCI loop of the real binary, whose go arm logs the limits it computed (hook note_go); they are judged by the same clauses and compared with the harness's. The released binary is timed on go wtime t runs (12 quick / 150 thorough).",
   note="The wall-clock clause is a measurement on this machine (three-out-of-three rule), tied to the model by the measured MaxPollGap. A missing mover's clock requires only soft <= hard. 'movestogo 0' panics (division by zero) but lies outside the property's domain; it is reported in the evidence under out_of_domain_crashes, not as a violation."),
}

def main():
    hooks_commits = []
    try:
        out = subprocess.run(["git", "-C", "/repo", "log", "--format=%h %s"], capture_output=True, text=True).stdout
        hooks_commits = [l.split()[0] for l in out.splitlines() if " verif-hook" in l or l.split(" ", 1)[1].startswith("hook:")]
    except Exception:
        pass
    checks = []
    for pid in ALL:
        if pid not in CHECKS:
            continue
        c = CHECKS[pid]
        checks.append({
            "property_id": pid,
            "quick_cmd": "./check %s --tier quick" % pid,
            "thorough_cmd": "./check %s --tier thorough" % pid,
            "evidence_file": "/verif/evidence/%s.json" % pid,
            "replay_cmd_template": "./check --replay {path}",
            "engine": c.get("engine", "tla-game"),
            "level_claimed": {"category": c["cat"], "text": c["text"], "design_ref": c["ref"]},
            "level_note": c["note"],
            "technique": c["tech"],
        })
    na = [{"property_id": p, "reason": NA.get(p, "check not built yet in this round; planned per DESIGN.md section 4")}
          for p in ALL if p not in CHECKS]
    m = {
        "version": 1,
        "setup_cmd": "./setup.sh",
        "hooks": {
            "guard": "jgilchrist_tcheran_verif",
            "enable": "RUSTFLAGS='--cfg jgilchrist_tcheran_verif --check-cfg cfg(jgilchrist_tcheran_verif)' (set in /verif/harness/.cargo/config.toml for the harness; passed explicitly when the engine binary is built into /verif/harness/target/repo-bin-hooks)",
            "baseline_off_cmd": "cd /repo && cargo test --workspace --no-fail-fast --offline",
            "source_commits": hooks_commits,
            "add_only": True,
        },
        "engines": [
            {"name": "tla-uci", "path": "/verif/spec/Uci.tla", "serves_properties": [p for p in ALL if p in CHECKS and CHECKS[p].get("engine") == "tla-uci"],
             "kind_free_text": "TLA+ model of the concurrent UCI layer; forced-schedule replay on the hooked engine binary (/verif/tools/uci.py) and trace validation of its event logs"},
            {"name": "tla-game", "path": "/verif/spec", "serves_properties": [p for p in ALL if p in CHECKS and CHECKS[p].get("engine", "tla-game") == "tla-game"],
             "kind_free_text": "explicit TLA+ specifications checked with TLC; bound to the code by trace validation (harness -> ND-JSON -> Trace_*.tla) and by replay of TLC-generated inputs/behaviours (Gen_*.tla -> harness)"},
        ],
        "checks": checks,
        "not_applicable": na,
        "notes": "Exit 0 held / 1 VIOLATION line with replay file / 2 tool error. PropertyView mismatches are violations, CodeView mismatches are DRIFT (exit 0). See DESIGN.md.",
    }
    with open(os.path.join(V, "MANIFEST.json"), "w") as f:
        json.dump(m, f, indent=1)
        f.write("\n")

NA = {}
if __name__ == "__main__":
    main()
