"""C17 The position command reproduces the game exactly."""
import os, json, re
import vlib, games, uci

START = "rnbqkbnr/pppppppp/8/8/8/8/PPPPPPPP/RNBQKBNR w KQkq - 0 1"


def play_games(args):
    """One engine process, many (game, prefix) cases. Returns list of case results."""
    binary, cases, with_go = args
    s = uci.Session(binary)
    s.send("uci")
    out = []
    nready = 0
    for c in cases:
        root, moves = c["root"], c["moves"]
        if c.get("newgame"):
            s.send("ucinewgame")
        if c.get("uci"):
            s.send("uci")               # a GUI may repeat its greeting; whatever it resets, the next position command decides
        base = "position startpos" if root == START and c["use_startpos"] else "position fen " + root
        cmd = base + ((" moves " + " ".join(moves)) if moves else "")
        mark = len(s.lines)
        s.send(cmd)
        s.send("d fen")
        s.send("d perftdiv 1")
        if with_go and c.get("go"):
            nb = s.counts["bestmove"]
            s.send("go depth 1")
            if not s.wait_count("bestmove", nb + 1, 30):
                out.append(dict(c, problem="no bestmove", lines=[l for _, l in s.lines[mark:]][-8:]))
                break
        s.send("isready")
        nready += 1
        if not s.wait_count("readyok", nready, 30):
            out.append(dict(c, problem="engine stopped answering (crash or hang)", lines=[l for _, l in s.lines[mark:]][-8:]))
            break
        lines = [l for _, l in s.lines[mark:]]
        fen = next((l[5:] for l in lines if l.startswith("FEN: ")), None)
        replies = set(m.group(1) for l in lines for m in [re.match(r"^([a-h][1-8][a-h][1-8][nbrq]?): 1$", l)] if m)
        best = next((l.split()[1] for l in lines if l.startswith("bestmove")), None)
        out.append(dict(c, fen=fen, replies=sorted(replies), best=best, problem=None))
    s.send("quit")
    s.finish(10)
    return out


def main():
    chk = vlib.Check("C17", "model_checking")
    q = chk.quick
    binary = vlib.build_engine("dev", hooks=False)
    # TLC plays the games: moves in long algebraic text, expected FEN and reply set after every ply
    batches = []
    for steps, n in ((12, 40), (60, 40), (150, 16), (300, 8)) if q else ((12, 2000), (60, 2000), (150, 600), (300, 300)):
        batches.append((steps, n))
    cases = []
    n_games = n_plies = 0
    specials = 0
    for steps, n in batches:
        files = games.gen_game(chk, "game", behaviours=n, steps=steps, max_depth=steps + 1, jvms=8 if q else 16)
        for p, cnt, _ in files:
            os.rename(p, p + ".%d" % steps)
            for g in vlib.read_ndjson(p + ".%d" % steps):
                st = g["steps"]
                root = st[0]["fen"]
                mv = [x["uci"] for x in st[1:]]
                n_games += 1
                n_plies += len(mv)
                specials += sum(1 for x in st[1:] if x["mv"] >= 65536 or (x["mv"] // 4096) % 8 != 0)
                cut = sorted(set([len(mv)] + [chk.rng.randrange(0, len(mv) + 1) for _ in range(2)]))
                if n_games % 4 == 0:
                    # the way a GUI sends a game: the same position command growing move by move, ucinewgame now and then
                    cut = sorted(set(cut + list(range(0, min(len(mv), 24) + 1))))
                sp = chk.rng.random() < 0.5
                promo_steps = [k for k in range(1, len(st)) if st[k].get("alts")]
                cut = sorted(set(cut + promo_steps))
                for k in cut:
                    cases.append({"root": root, "moves": mv[:k], "want_fen": st[k]["fen"], "want_replies": sorted(st[k]["replies"]),
                                  "use_startpos": sp, "go": chk.rng.random() < 0.1 and len(st[k]["replies"]) > 0,
                                  "newgame": chk.rng.random() < 0.2, "uci": chk.rng.random() < 0.08})
                    # a promotion taken back and replaced by another piece: same squares, another letter, then the game goes on
                    for a in (st[k].get("alts") or []):
                        cases.append({"root": root, "moves": mv[:k - 1] + [a["uci"]], "want_fen": a["fen"],
                                      "want_replies": sorted(a["replies"]), "use_startpos": sp, "go": False, "newgame": False})
                        cases.append({"root": root, "moves": mv[:k], "want_fen": st[k]["fen"], "want_replies": sorted(st[k]["replies"]),
                                      "use_startpos": sp, "go": False, "newgame": False})
                        specials += 1
    # targeted family: every legal move of any piece onto an en-passant target square (the genuine capture and the
    # king / knight / bishop / rook / queen moves that merely land there)
    goe = vlib.tlc("Gen_OntoEp", timeout=1200, xmx="2g")
    if goe.error:
        raise vlib.ToolError("Gen_OntoEp: " + goe.error)
    onto = [d for t, d in goe.reports if t == "GEN"]
    if len(onto) < 500:
        raise vlib.ToolError("Gen_OntoEp produced only %d cases" % len(onto))
    if q:
        chk.rng.shuffle(onto)
        onto = onto[:400]
    for d in onto:
        cases.append({"root": d["root"], "moves": [d["move"]], "want_fen": d["want_fen"], "want_replies": sorted(d["want_replies"]),
                      "use_startpos": False, "go": False, "newgame": False})
        specials += 1
    # one very long game (longer than any fixed-size history): played by the harness walk, every ply validated by
    # Trace_Game (so the final FEN is the specification's), then sent to the binary as one position command
    hb = vlib.build_harness("dev")
    lw, lp = games.walk_traces(chk, events=0, files=1, label="walk_long", long=1100 if q else 2200, extra=("--nonull", 1))
    rows = [e for e in vlib.read_ndjson(lp[0])]
    if lw[0].viols("C02") or lw[0].viols("C01"):
        raise vlib.ToolError("the long game itself is not played correctly (C01/C02 report it): %s" % (lw[0].viols("C02") + lw[0].viols("C01"))[0])
    line, fens, peak = [], [], None
    for e in rows:
        if e["op"] == "load":
            line, fens = [], [e["fen"]]
        elif e["op"] == "make":
            f, t, pr = e["mv"] % 64, (e["mv"] // 64) % 64, (e["mv"] // 4096) % 8
            sq = lambda x: "abcdefgh"[x % 8] + str(x // 8 + 1)
            line.append(sq(f) + sq(t) + {0: "", 2: "n", 3: "b", 4: "r", 5: "q"}[pr])
            fens.append(e["fen"])
            if peak is None or len(line) > len(peak[0]):
                peak = (list(line), e["fen"], fens[0])
        elif e["op"] == "undo":
            # a dead end (mate, stalemate) is taken back and the game goes on; at the end everything is taken back
            line.pop()
            fens.pop()
        else:
            raise vlib.ToolError("unexpected operation %s in the long game" % e["op"])
    if peak is None or len(peak[0]) < 500:
        raise vlib.ToolError("long game too short: %s" % (peak and len(peak[0])))
    n_long = len(peak[0])
    cases.append({"root": peak[2], "moves": peak[0], "want_fen": peak[1], "want_replies": None, "use_startpos": False, "go": False,
                  "newgame": False})
    # keep the cases of one game together and in order (growing move lists): contiguous chunks
    per = -(-len(cases) // 16)
    chunks = [cases[i:i + per] for i in range(0, len(cases), per)]
    results = vlib.pmap(play_games, [(binary, c, True) for c in chunks if c], n=16)
    n_cases = 0
    for res in results:
        for r in res:
            n_cases += 1
            w = "%s moves %s" % (r["root"], " ".join(r["moves"]))
            if r["problem"]:
                chk.violation(w, r["problem"], {"lines": r.get("lines")}, replay={"kind": "uci-position", "root": r["root"], "moves": r["moves"]})
                continue
            if r["fen"] != r["want_fen"]:
                chk.violation(w, "fen-after-position", {"got": r["fen"], "want": r["want_fen"]},
                              replay={"kind": "uci-position", "root": r["root"], "moves": r["moves"]})
            if r["want_replies"] is not None and r["replies"] != r["want_replies"]:
                chk.violation(w, "reply-set", {"got": r["replies"], "want": r["want_replies"]},
                              replay={"kind": "uci-position", "root": r["root"], "moves": r["moves"]})
            if r["best"] is not None and r["want_replies"] is not None and r["best"] not in r["want_replies"]:
                chk.violation(w, "bestmove-not-a-reply", {"best": r["best"]}, replay={"kind": "uci-position", "root": r["root"], "moves": r["moves"]})
    if specials == 0 or n_cases == 0:
        raise vlib.ToolError("vacuous: no castling/en passant/promotion in the generated games")
    chk.cov["long_game_plies"] = n_long
    chk.cov.update({
        "states": n_plies, "transitions": n_plies, "traces_validated_against_impl": n_cases,
        "evaluations": n_cases, "distinct_nontrivial": specials,
        "games": n_games, "plies": n_plies,
        "rule": "TLC -simulate plays games of ChessGame (start position and FEN roots, up to 300 plies, biased to castling / en passant / "
                "promotions) and prints the moves in long algebraic text with the expected FEN and legal-reply set after every ply; the real "
                "binary receives 'position ... moves ...' for the whole game and for random prefixes and must print the same FEN ('d fen') and "
                "the same reply set ('d perftdiv 1'); sampled 'go depth 1' answers must be replies. non-trivial = castling, en-passant and "
                "promotion moves played",
    })
    chk.sample({"root": cases[0]["root"], "moves": cases[0]["moves"][:12], "expected_fen": cases[0]["want_fen"]})
    return chk.finish()
