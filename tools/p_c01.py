"""C01 Legal move generation is exact."""
import json
import vlib, games, nodes


def main():
    chk = vlib.Check("C01", "model_checking")
    q = chk.quick
    # --- direction A: walk traces validated by Trace_Game (rule book evaluated on every event)
    results, paths = games.walk_traces(chk, events=700 if q else 20000, files=8 if q else 32)
    n_events, distinct = games.collect_walk(chk, results, paths)
    # double pushes landing beside an enemy pawn that is pinned on any line or free (TLC family, every successor judged);
    # thorough tier only here - the quick tiers of C02 and C03 run the same family through the same trace specification
    if not chk.quick:
        games.dblpush_lines(chk)
    # --- direction B: enumerated families replayed into the generator
    fams = ["ep", "castle", "pin", "dblchk", "promo", "promopin", "kingwalk", "evade", "givechk", "noquiet"]
    if q:
        # quick: the line-through-the-king cases of ep / pin completely (all shards, thinning keeps them), the small
        # targeted families completely, the large cross products thinned
        outs, jobs = games.run_movegen_families(chk, ["ep", "pin"], nshards=16, density=16)
        o2, j2 = games.run_movegen_families(chk, ["castle", "promopin"], nshards=8, density=1)
        o3, j3 = games.run_movegen_families(chk, ["dblchk", "kingwalk", "evade"], nshards=16, density=16,
                                            shards=[chk.seed % 16, (chk.seed + 5) % 16])
        # the promo family is split by pawn file: 8 shards
        o4, j4 = games.run_movegen_families(chk, ["promo"], nshards=8, density=16, shards=[chk.seed % 8, (chk.seed + 5) % 8])
        # every way a move gives check: the verdict after PLAYING each move (and after taking it back)
        o5, j5 = games.run_movegen_families(chk, ["givechk"], nshards=8, density=16)
        o6, j6 = games.run_movegen_families(chk, ["noquiet"], nshards=8, density=4, shards=[chk.seed % 8, (chk.seed + 3) % 8])
        o5, j5 = o5 + o6, j5 + j6
        outs, jobs = outs + o2 + o3 + o4 + o5, jobs + j2 + j3 + j4 + j5
    else:
        outs, jobs = games.run_movegen_families(chk, fams, nshards=16, density=1)
    n_gen = n_dist = n_nontriv = 0
    fam_counts = {}
    for (o, p), (fam, sh) in zip(outs, jobs):
        n_gen += o["n"]; n_dist += o["distinct"]; n_nontriv += o["nontrivial"]
        for k, v in o["families"].items():
            fam_counts[k] = fam_counts.get(k, 0) + v
        for s in o["samples"][:1]:
            chk.sample(s, cap=8)
        for m in o["mismatches"]:
            w = "%s|%s|missing=%s|extra=%s" % (m.get("what"), m.get("fen"), m.get("missing", m.get("moves")), m.get("extra"))
            chk.violation(w, "movelist-generated", m, replay={"kind": "gen-position", "file": p, "fen": m.get("fen")})
    for f in fams:
        if not any(k.startswith(f) for k in fam_counts):
            raise vlib.ToolError("family %s produced nothing (vacuous)" % f)
    # node level (hook H6, Trace_Nodes.tla): every step of every node of recorded searches replayed on a stack of
    # rule-book positions; this check reports the clauses filed under its own property
    nstat = nodes.standard(chk, ("C01",), scale=0.5)
    chk.cov.update({
        "states": sum(r.distinct for r in results),
        "transitions": sum(r.states for r in results),
        "evaluations": n_events + n_gen,
        "distinct_nontrivial": n_nontriv,
        "generated_positions": n_gen, "generated_distinct": n_dist, "families": fam_counts,
        "walk_distinct_keys": distinct,
        "rule": "walk: random make/null/undo from 130 roots, every event's move list/check verdict compared by TLC "
                "with Chess!Legal; generated: Gen_Movegen families enumerated by TLC with expected move sets, "
                "replayed into generate_legal_moves. distinct = distinct FEN; non-trivial = generated position that is "
                "in check or has an en-passant, castling or promotion move legal",
        "exhaustive": False,
    })
    chk.assumptions += ["rule book Chess.tla is the oracle (sanity: perft 20/400/8902 from the start position)",
                        "positions outside the enumerated families and walks are not examined"]
    return chk.finish()
