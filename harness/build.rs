// Compiles the fathom tablebase prober from /repo exactly as /repo/build.rs does.
fn main() {
    let repo = std::env::var("TCHERAN_REPO").unwrap_or_else(|_| "/repo".to_string());
    println!("cargo:rerun-if-env-changed=TCHERAN_REPO");
    println!("cargo:rerun-if-changed={repo}/src/engine/tablebases/fathom/src");
    cc::Build::new()
        .include(format!("{repo}/src/engine/tablebases/fathom/src"))
        .file(format!("{repo}/src/engine/tablebases/fathom/src/tbprobe.c"))
        .warnings(false)
        .compile("fathom");
}
