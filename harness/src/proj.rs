//! Projection of engine state onto the specification's vocabulary (DESIGN.md Appendix A).
use crate::chess::game::Game;
use crate::chess::moves::Move;
use crate::chess::piece::{Piece, PieceKind, PromotionPieceKind};
use crate::chess::player::Player;
use crate::chess::square::Square;
use crate::chess::zobrist;
use crate::engine::eval::{self, IncrementalEvalFields};
use serde_json::{json, Map, Value};
use std::collections::HashMap;

pub fn piece_code(p: Option<Piece>) -> i64 {
    match p {
        None => 0,
        Some(p) => (p.player.array_idx() * 6 + p.kind.array_idx() + 1) as i64,
    }
}

pub fn piece_from_code(c: i64) -> Option<Piece> {
    if c == 0 {
        return None;
    }
    let c = (c - 1) as usize;
    let player = if c / 6 == 0 { Player::White } else { Player::Black };
    Some(Piece::new(player, PieceKind::ALL[c % 6]))
}

pub fn pack_move(m: Move) -> i64 {
    let promo = match m.promotion() {
        None => 0,
        Some(PromotionPieceKind::Knight) => 2,
        Some(PromotionPieceKind::Bishop) => 3,
        Some(PromotionPieceKind::Rook) => 4,
        Some(PromotionPieceKind::Queen) => 5,
    };
    let kind = if m.is_en_passant() {
        2
    } else if m.is_castling() {
        3
    } else if m.is_capture() {
        1
    } else {
        0
    };
    m.src().idx() as i64 + 64 * m.dst().idx() as i64 + 4096 * promo + 32768 * kind
}

/// Finds, in the engine's own move list, the move with the given packed encoding.
pub fn find_move(game: &Game, packed: i64) -> Option<Move> {
    game.moves().iter().copied().find(|m| pack_move(*m) == packed)
}

/// Builds an engine Move from a packed encoding without consulting the move generator.
pub fn unpack_move(packed: i64) -> Move {
    let from = Square::from_index((packed % 64) as u8);
    let to = Square::from_index(((packed / 64) % 64) as u8);
    let promo = match (packed / 4096) % 8 {
        2 => Some(PromotionPieceKind::Knight),
        3 => Some(PromotionPieceKind::Bishop),
        4 => Some(PromotionPieceKind::Rook),
        5 => Some(PromotionPieceKind::Queen),
        _ => None,
    };
    let kind = packed / 32768;
    match (kind, promo) {
        (0, None) => Move::quiet(from, to),
        (0, Some(p)) => Move::quiet_promotion(from, to, p),
        (1, None) => Move::capture(from, to),
        (1, Some(p)) => Move::capture_promotion(from, to, p),
        (2, _) => Move::en_passant(from, to),
        _ => Move::castles(from, to),
    }
}

pub fn limbs(k: u64) -> Value {
    json!([k & 0xffff, (k >> 16) & 0xffff, (k >> 32) & 0xffff, (k >> 48) & 0xffff])
}

pub fn castle_mask(game: &Game) -> i64 {
    let [w, b] = game.castle_rights.inner();
    (w.king_side as i64) | (w.queen_side as i64) << 1 | (b.king_side as i64) << 2 | (b.queen_side as i64) << 3
}

pub fn board_codes(game: &Game) -> Vec<i64> {
    (0..64u8).map(|i| piece_code(game.board.piece_at(Square::from_index(i)))).collect()
}

fn squares_of(bb: crate::chess::bitboard::Bitboard) -> Vec<i64> {
    bb.into_iter().map(|s| s.idx() as i64).collect()
}

/// The position fields only (what Chess!Position talks about).
pub fn position(game: &Game) -> Map<String, Value> {
    let mut m = Map::new();
    m.insert("b".into(), json!(board_codes(game)));
    m.insert("stm".into(), json!(game.player.array_idx()));
    m.insert("cr".into(), json!(castle_mask(game)));
    m.insert("ep".into(), json!(game.en_passant_target.map_or(-1, |s| s.idx() as i64)));
    m.insert("hmc".into(), json!(game.halfmove_clock));
    m.insert("pl".into(), json!(game.plies));
    m
}

/// The full projection logged after every walk operation.
pub fn full(game: &Game) -> Map<String, Value> {
    let mut m = position(game);
    let b = &game.board;
    // The three redundant board views, each logged separately (unmasked by-kind sets so that
    // stale bits are visible).
    m.insert(
        "bk".into(),
        json!([
            squares_of(b.all_pawns()),
            squares_of(b.all_knights()),
            squares_of(b.all_bishops()),
            squares_of(b.all_rooks()),
            squares_of(b.all_queens()),
            squares_of(b.all_kings())
        ]),
    );
    m.insert(
        "bc".into(),
        json!([squares_of(b.occupancy_for(Player::White)), squares_of(b.occupancy_for(Player::Black))]),
    );
    m.insert("key".into(), limbs(game.zobrist.0));
    m.insert("keys".into(), limbs(zobrist::hash(game).0));
    let ie = &game.incremental_eval;
    m.insert("ph".into(), json!(ie.phase_value));
    m.insert("mg".into(), json!(ie.piece_square_tables.midgame().0));
    m.insert("eg".into(), json!(ie.piece_square_tables.endgame().0));
    let fresh = IncrementalEvalFields::init(b);
    m.insert("phs".into(), json!(fresh.phase_value));
    m.insert("mgs".into(), json!(fresh.piece_square_tables.midgame().0));
    m.insert("egs".into(), json!(fresh.piece_square_tables.endgame().0));
    let moves: Vec<i64> = game.moves().iter().map(|mv| pack_move(*mv)).collect();
    m.insert("mvs".into(), json!(moves));
    m.insert("chk".into(), json!(game.is_king_in_check()));
    m.insert("rep".into(), json!(game.is_repeated_position()));
    m.insert("fifty".into(), json!(game.is_stalemate_by_fifty_move_rule()));
    m.insert("insuf".into(), json!(game.is_stalemate_by_insufficient_material()));
    m.insert("fen".into(), json!(game.to_fen()));
    // exchange verdicts (threshold 0) of the captures, on the live game and on the same position set up afresh: SEE is a
    // function of the position, not of how it was reached
    let see_true = |g: &Game| -> Vec<i64> {
        let mut v: Vec<i64> = g
            .moves()
            .iter()
            .filter(|mv| mv.is_capture() && !mv.is_en_passant())
            .filter(|mv| {
                std::panic::catch_unwind(std::panic::AssertUnwindSafe(|| {
                    crate::engine::see::see(g, **mv, crate::engine::eval::Eval(0))
                }))
                .unwrap_or(false)
            })
            .map(|mv| pack_move(*mv))
            .collect();
        v.sort_unstable();
        v
    };
    m.insert("seel".into(), json!(see_true(game)));
    m.insert(
        "seef".into(),
        json!(Game::from_fen(&game.to_fen()).map(|g| see_true(&g)).unwrap_or_default()),
    );
    // the position without its counters (placement, side, rights, en-passant target), as text
    m.insert("fid".into(), json!(game.to_fen().split(' ').take(4).collect::<Vec<_>>().join(" ")));
    let ev = std::panic::catch_unwind(std::panic::AssertUnwindSafe(|| eval::eval(game).0));
    m.insert("evp".into(), json!(ev.is_err()));
    m.insert("ev".into(), json!(ev.unwrap_or(0)));
    // ... and of the same position set up afresh: whatever the evaluation keeps incrementally must not show
    let evs = Game::from_fen(&game.to_fen())
        .ok()
        .and_then(|g| std::panic::catch_unwind(std::panic::AssertUnwindSafe(|| eval::eval(&g).0)).ok());
    m.insert("evs".into(), json!(evs.unwrap_or(0)));
    m.insert("hl".into(), json!(game.history.len()));
    m
}

/// Builds a Game from position fields (used when replaying TLC-generated positions).
pub fn game_from_fields(v: &Value) -> Game {
    use crate::chess::board::Board;
    use crate::chess::game::CastleRights;
    use crate::chess::player::ByPlayer;
    let codes = v["b"].as_array().expect("b");
    let mut sq: [Option<Piece>; 64] = [None; 64];
    for (i, c) in codes.iter().enumerate() {
        sq[i] = piece_from_code(c.as_i64().unwrap());
    }
    let board = Board::try_from(sq).unwrap();
    let stm = if v["stm"].as_i64().unwrap() == 0 { Player::White } else { Player::Black };
    let cr = v["cr"].as_i64().unwrap();
    let rights = ByPlayer::new(
        CastleRights { king_side: cr & 1 != 0, queen_side: cr & 2 != 0 },
        CastleRights { king_side: cr & 4 != 0, queen_side: cr & 8 != 0 },
    );
    let ep = v["ep"].as_i64().unwrap();
    let ep = if ep < 0 { None } else { Some(Square::from_index(ep as u8)) };
    Game::from_state(
        board,
        stm,
        rights,
        ep,
        v["hmc"].as_u64().unwrap_or(0) as u32,
        v["pl"].as_u64().unwrap_or(0) as u32,
    )
}

/// All 793 Zobrist words, read through the public toggle API on an empty key.
pub fn zobrist_words() -> Value {
    use crate::chess::game::CastleRightsSide;
    use crate::chess::zobrist::ZobristHash;
    let mut pcs = Vec::new(); // index (piece code - 1) * 64 + sq
    for code in 1..=12i64 {
        let p = piece_from_code(code).unwrap();
        for s in 0..64u8 {
            let mut h = ZobristHash::uninit();
            h.toggle_piece_on_square(Square::from_index(s), p);
            pcs.push(limbs(h.0));
        }
    }
    let mut cr = Vec::new(); // right 0..3
    for (pl, side) in [
        (Player::White, CastleRightsSide::Kingside),
        (Player::White, CastleRightsSide::Queenside),
        (Player::Black, CastleRightsSide::Kingside),
        (Player::Black, CastleRightsSide::Queenside),
    ] {
        let mut h = ZobristHash::uninit();
        h.toggle_castle_rights(pl, side);
        cr.push(limbs(h.0));
    }
    // set_en_passant(prev, new) xors word(prev) and word(new); word(None) is obtained as
    // set_en_passant(None, Some(a)) ^ set_en_passant(Some(a), Some(b)) ^ set_en_passant(Some(b), None)
    // is zero, so it cannot be isolated that way; use three squares instead:
    //   x = w(None)^w(a), y = w(None)^w(b), z = w(a)^w(b)  -> no isolation either.
    // The words are therefore reported as differences against the no-target word, which is all
    // the key ever contains (exactly one en-passant word is always present): the spec models
    // the en-passant component as  noep  or  noep ^ d(sq)  accordingly, with noep folded into
    // a constant that is read from the key of a position whose other components are known.
    let mut epd = Vec::new();
    for s in 0..64u8 {
        let mut h = ZobristHash::uninit();
        h.set_en_passant(None, Some(Square::from_index(s)));
        epd.push(limbs(h.0));
    }
    let mut h = ZobristHash::uninit();
    h.toggle_side_to_play();
    let stm = limbs(h.0);
    // noep: key of the bare-kings position (white to move, no rights, no target) xor its two
    // piece words.
    let g = Game::from_fen("4k3/8/8/8/8/8/8/4K3 w - - 0 1").unwrap();
    let mut k = zobrist::hash(&g);
    k.toggle_piece_on_square(Square::from_index(4), Piece::WHITE_KING);
    k.toggle_piece_on_square(Square::from_index(60), Piece::BLACK_KING);
    json!({"pc": pcs, "cr": cr, "epd": epd, "stm": stm, "noep": limbs(k.0)})
}

/// Piece-square contributions and phase weights as the engine's tables hold them.
pub fn eval_tables() -> Value {
    use crate::engine::eval::piece_square_tables::piece_contributions;
    let mut mg = Vec::new();
    let mut eg = Vec::new();
    for code in 1..=12i64 {
        let p = piece_from_code(code).unwrap();
        for s in 0..64u8 {
            let c = piece_contributions(Square::from_index(s), p);
            mg.push(c.midgame().0);
            eg.push(c.endgame().0);
        }
    }
    // phase weights observed through the public incremental interface
    let mut ph = Vec::new();
    for code in 1..=6i64 {
        let p = piece_from_code(code).unwrap();
        // (no struct literal: the type may gain fields) the weight is the change a piece makes on an empty square
        let mut f = Game::new().incremental_eval.clone();
        let before = f.phase_value;
        f.set_at(Square::from_index(28), p);
        ph.push(f.phase_value - before);
    }
    json!({"mg": mg, "eg": eg, "ph": ph})
}
