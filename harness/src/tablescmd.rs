//! `tables <gen.ndjson> <index-log-out>`: C07 — compares the engine's attack tables with the
//! attack sets TLC computed by ray walking, for every generated occupancy and for occupancies that
//! differ from it only outside the relevant mask; logs the table index of every lookup (hook H2).
use crate::chess::bitboard::Bitboard;
use crate::chess::movegen::tables;
use crate::chess::player::Player;
use crate::chess::square::Square;
use rand::prelude::*;
use serde_json::{json, Value};
use std::io::{BufRead, Write};

fn bb(v: &Value) -> u64 {
    v.as_array().unwrap().iter().fold(0u64, |a, s| a | (1u64 << s.as_u64().unwrap()))
}

pub fn main(rest: &[String]) -> i32 {
    let f = std::io::BufReader::new(std::fs::File::open(&rest[0]).unwrap());
    let mut idxlog = std::io::BufWriter::new(std::fs::File::create(&rest[1]).unwrap());
    let seed: u64 = rest.get(2).map(|s| s.parse().unwrap()).unwrap_or(1);
    let mut rng = StdRng::seed_from_u64(seed);
    let mut masks: std::collections::HashMap<(String, u64), u64> = Default::default();
    let mut mism = Vec::new();
    let (mut n_sl, mut n_pert, mut n_leap, mut n_bt) = (0u64, 0u64, 0u64, 0u64);
    let mut samples = Vec::new();
    for line in f.lines() {
        let line = line.unwrap();
        if line.trim().is_empty() {
            continue;
        }
        let r: Value = serde_json::from_str(&line).unwrap();
        let t = r["t"].as_str().unwrap();
        let s = r["s"].as_u64().unwrap();
        let sq = Square::from_index(s as u8);
        match t {
            "mask" => {
                masks.insert((r["k"].as_str().unwrap().to_string(), s), bb(&r["m"]));
            }
            "sl" => {
                let k = r["k"].as_str().unwrap();
                let rook = k == "R";
                let occ = bb(&r["o"]);
                let want = bb(&r["a"]);
                let mask = masks[&(k.to_string(), s)];
                n_sl += 1;
                let mut variants = vec![occ, occ | !mask, occ | (1u64 << s)];
                for _ in 0..6 {
                    variants.push(occ | (rng.gen::<u64>() & !mask));
                }
                for (vi, o) in variants.iter().enumerate() {
                    let res = crate::unwind_safe(|| {
                        let got = if rook { tables::rook_attacks(sq, Bitboard::new(*o)) } else { tables::bishop_attacks(sq, Bitboard::new(*o)) };
                        let (idx, len) = tables::verif_index(rook, sq, Bitboard::new(*o));
                        (got.as_u64(), idx, len)
                    });
                    match res {
                        Err(_) => mism.push(json!({"t": "sl", "k": k, "s": s, "occ": format!("{:#x}", o), "what": "panic"})),
                        Ok((got, idx, len)) => {
                            if vi > 0 {
                                n_pert += 1;
                            }
                            if vi < 2 {
                                writeln!(idxlog, "{}", json!({"k": k, "s": s, "i": idx, "n": len})).unwrap();
                            }
                            if got != want {
                                mism.push(json!({"t": "sl", "k": k, "s": s, "occ": format!("{:#x}", o),
                                    "got": format!("{:#x}", got), "want": format!("{:#x}", want), "perturbed": vi > 0}));
                            }
                        }
                    }
                }
                if samples.len() < 2 && occ != 0 {
                    samples.push(json!({"kind": k, "sq": s, "occ": r["o"], "attacks": r["a"]}));
                }
            }
            "kn" | "kg" | "pw" => {
                n_leap += 1;
                let want = bb(&r["a"]);
                let white = r["c"].as_u64().unwrap_or(0) == 0;
                let got = crate::unwind_safe(|| {
                    match t {
                        "kn" => tables::knight_attacks(sq),
                        "kg" => tables::king_attacks(sq),
                        _ => tables::pawn_attacks(sq, if white { Player::White } else { Player::Black }),
                    }
                    .as_u64()
                });
                let Ok(got) = got else {
                    mism.push(json!({"t": t, "s": s, "c": r["c"], "what": "panic"}));
                    continue;
                };
                if got != want {
                    mism.push(json!({"t": t, "s": s, "c": r["c"], "got": format!("{:#x}", got), "want": format!("{:#x}", want)}));
                }
            }
            "bt" => {
                n_bt += 1;
                let want = bb(&r["a"]);
                let b = Square::from_index(r["b"].as_u64().unwrap() as u8);
                let Ok(got) = crate::unwind_safe(|| tables::between(sq, b).as_u64()) else {
                    mism.push(json!({"t": "bt", "s": s, "b": r["b"], "what": "panic"}));
                    continue;
                };
                if got != want {
                    mism.push(json!({"t": "bt", "s": s, "b": r["b"], "got": format!("{:#x}", got), "want": format!("{:#x}", want)}));
                }
            }
            _ => {}
        }
    }
    idxlog.flush().unwrap();
    println!("{}", json!({"sliders": n_sl, "perturbed": n_pert, "leapers": n_leap, "between": n_bt,
        "mismatches": mism, "samples": samples}));
    0
}
