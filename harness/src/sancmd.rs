//! `san <positions.ndjson> <events-out>`: for each position (fields b, stm, cr, ep, hmc, pl) logs
//! the SAN text of every move of the engine's list and what the reader makes of it.
use crate::chess::san;
use crate::proj;
use serde_json::{json, Value};
use std::collections::HashSet;
use std::io::{BufRead, Write};

pub fn main(rest: &[String]) -> i32 {
    let f = std::io::BufReader::new(std::fs::File::open(&rest[0]).unwrap());
    let mut out = std::io::BufWriter::new(std::fs::File::create(&rest[1]).unwrap());
    let mut seen: HashSet<String> = HashSet::new();
    let (mut npos, mut nmoves, mut multi) = (0u64, 0u64, 0u64);
    for line in f.lines() {
        let line = line.unwrap();
        if line.trim().is_empty() {
            continue;
        }
        let r: Value = serde_json::from_str(&line).unwrap();
        let g = proj::game_from_fields(&r);
        let fen = g.to_fen();
        if !seen.insert(fen.clone()) {
            continue;
        }
        npos += 1;
        let mut moves = Vec::new();
        let list = g.moves();
        // positions in which two like pieces (not pawns/kings) can reach one square
        let mut dests: HashSet<(u8, usize)> = HashSet::new();
        let mut amb = false;
        for m in list.iter() {
            let k = g.board.piece_at(m.src()).unwrap().kind.array_idx();
            if k >= 1 && k <= 4 && !dests.insert((m.dst().idx(), k)) {
                amb = true;
            }
        }
        if amb {
            multi += 1;
        }
        for m in list.iter() {
            nmoves += 1;
            let text = crate::unwind_safe(|| san::format_move(&g, *m)).unwrap_or_else(|_| "<panic>".to_string());
            let back = match crate::unwind_safe(|| san::parse_move(&g, &text)) {
                Err(_) => -2,
                Ok(Err(_)) => -1,
                Ok(Ok(b)) => proj::pack_move(b),
            };
            moves.push(json!({"mv": proj::pack_move(*m), "san": text, "back": back}));
        }
        let mut ev = proj::position(&g);
        ev.insert("fen".into(), json!(fen));
        ev.insert("moves".into(), json!(moves));
        writeln!(out, "{}", Value::Object(ev)).unwrap();
    }
    out.flush().unwrap();
    println!("{}", json!({"positions": npos, "moves": nmoves, "ambiguous_positions": multi}));
    0
}
