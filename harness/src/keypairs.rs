//! `keypairs <positions.ndjson> <events-out>`: C03 direction B — for each position, the keys of the
//! position and of variants differing in exactly one aspect (side to move, one castling right, the
//! en-passant target, one piece removed / recoloured / moved to an empty square).
use crate::proj;
use serde_json::{json, Value};
use std::collections::HashSet;
use std::io::{BufRead, Write};

pub fn main(rest: &[String]) -> i32 {
    let f = std::io::BufReader::new(std::fs::File::open(&rest[0]).unwrap());
    let mut out = std::io::BufWriter::new(std::fs::File::create(&rest[1]).unwrap());
    let mut seen: HashSet<String> = HashSet::new();
    let mut n = 0u64;
    for line in f.lines() {
        let line = line.unwrap();
        if line.trim().is_empty() {
            continue;
        }
        let r: Value = serde_json::from_str(&line).unwrap();
        let base = proj::game_from_fields(&r);
        if !seen.insert(base.to_fen()) {
            continue;
        }
        n += 1;
        let bf = Value::Object(proj::position(&base));
        let mut variants: Vec<Value> = Vec::new();
        let mut push = |v: Value| variants.push(v);
        // side to move
        let mut v = bf.clone();
        v["stm"] = json!(1 - bf["stm"].as_i64().unwrap());
        push(v);
        // castling rights: toggle each bit
        for bit in 0..4 {
            let mut v = bf.clone();
            v["cr"] = json!(bf["cr"].as_i64().unwrap() ^ (1 << bit));
            push(v);
        }
        // en-passant target: none, and each square of the two plausible ranks
        for ep in [-1i64, 16, 19, 23, 40, 44, 47] {
            if ep != bf["ep"].as_i64().unwrap() {
                let mut v = bf.clone();
                v["ep"] = json!(ep);
                push(v);
            }
        }
        // placement: remove / recolour / move one piece
        let b: Vec<i64> = bf["b"].as_array().unwrap().iter().map(|x| x.as_i64().unwrap()).collect();
        let occupied: Vec<usize> = (0..64).filter(|s| b[*s] != 0 && b[*s] != 6 && b[*s] != 12).collect();
        let empty: Vec<usize> = (0..64).filter(|s| b[*s] == 0).collect();
        for (i, s) in occupied.iter().enumerate().take(6) {
            let mut nb = b.clone();
            nb[*s] = 0;
            let mut v = bf.clone();
            v["b"] = json!(nb);
            push(v);
            let mut nb = b.clone();
            nb[*s] = if b[*s] <= 6 { b[*s] + 6 } else { b[*s] - 6 };
            let mut v = bf.clone();
            v["b"] = json!(nb);
            push(v);
            if let Some(e) = empty.get(i * 7 % empty.len().max(1)) {
                let mut nb = b.clone();
                nb[*e] = b[*s];
                nb[*s] = 0;
                let mut v = bf.clone();
                v["b"] = json!(nb);
                push(v);
            }
        }
        let key_of = |v: &Value| {
            let g = proj::game_from_fields(v);
            proj::limbs(g.zobrist.0)
        };
        let vs: Vec<Value> = variants
            .iter()
            .map(|v| json!({"b": v["b"], "stm": v["stm"], "cr": v["cr"], "ep": v["ep"], "key": key_of(v)}))
            .collect();
        writeln!(out, "{}", json!({"fen": base.to_fen(), "b": bf["b"], "stm": bf["stm"], "cr": bf["cr"], "ep": bf["ep"],
            "key": key_of(&bf), "vs": vs})).unwrap();
    }
    out.flush().unwrap();
    println!("{}", json!({"positions": n}));
    0
}
