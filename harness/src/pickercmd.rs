//! `picker <positions.ndjson> <out-base> [--seed S] [--contents K] [--loud L] [--files F]
//!         [--max-positions N]`
//!
//! C10.  For every distinct position reachable in one step from the recorded positions the real
//! `MovePicker` is run to exhaustion under adversarial table contents and the yielded stream is
//! logged together with the configuration the picker saw (ND-JSON, one line per position,
//! `runs` = one entry per table content).  Nothing is judged here: `Trace_MovePicker.tla`
//! decides with the rule book whether each stream is a permutation of the legal moves.
//!
//! Position under test T: a recorded position P, or (mostly) P after one of its moves, so that
//! `game.history.last()` names a previous move and the counter-move table is consulted.
//! Table contents per run (seeded RNG):
//!   hash move   none, or a move of the engine's legal list (the property's domain)
//!   killers     written as a pair with hook H5 (`verif_set`) at a random ply 0..=254: legal quiet
//!               moves, legal captures, queen-promotion pushes, moves that are legal only in a
//!               sibling / grand-child position, arbitrary `Move` values, equal to each other or
//!               to the hash move, or absent; decoy pairs at the neighbouring plies
//!   counter     the same menu, stored for (side to move, previous move)
//!   history     through the public `add_bonus_for` only: all zero, many ties, large distinct
//!               values, some moves driven to the saturation value
//! A run that has not ended after 400 yields is cut (`outcome: "cut"`); a panic is recorded
//! (`outcome: "panic"`).
use crate::chess::game::Game;
use crate::chess::movegen::{generate_captures, generate_quiets, MovegenCache};
use crate::chess::moves::{Move, MoveList};
use crate::chess::piece::PromotionPieceKind;
use crate::chess::square::Square;
use crate::engine::options::EngineOptions;
use crate::engine::search::move_picker::MovePicker;
use crate::engine::search::time_control::TimeStrategy;
use crate::engine::search::{PersistentState, SearchContext, SearchRestrictions, TimeControl};
use crate::proj;
use rand::prelude::*;
use serde_json::{json, Map, Value};
use std::collections::{HashMap, HashSet};
use std::io::{BufRead, Write};
use std::panic::{catch_unwind, AssertUnwindSafe};

const CUT: usize = 400;
const HISTORY_SATURATION: i32 = 999_999_999; // move_ordering::HISTORY_MAX_SCORE (private); values are read back

fn pk(m: Option<Move>) -> i64 {
    m.map_or(-1, proj::pack_move)
}

fn is_qpromo_push(m: Move) -> bool {
    !m.is_capture() && m.promotion() == Some(PromotionPieceKind::Queen)
}

fn random_move(rng: &mut StdRng) -> Move {
    let a = Square::from_index(rng.gen_range(0..64));
    let mut b = Square::from_index(rng.gen_range(0..64));
    if a.idx() == 0 && b.idx() == 0 {
        b = Square::from_index(1); // the all-zero move does not exist (NonZeroU16)
    }
    let p = [PromotionPieceKind::Queen, PromotionPieceKind::Rook, PromotionPieceKind::Knight, PromotionPieceKind::Bishop]
        [rng.gen_range(0..4)];
    match rng.gen_range(0..6) {
        0 => Move::capture(a, b),
        1 => Move::quiet_promotion(a, b, p),
        2 => Move::capture_promotion(a, b, p),
        3 => Move::en_passant(a, b),
        4 => Move::castles(a, b),
        _ => Move::quiet(a, b),
    }
}

struct Pools {
    legal: Vec<Move>,
    caps: Vec<Move>,   // generate_captures, generation order
    quiets: Vec<Move>, // generate_quiets, generation order
    true_caps: Vec<Move>,
    qpush: Vec<Move>,
    foreign: Vec<Move>, // legal in a sibling or grand-child position, not here
}

fn pick<T: Copy>(v: &[T], rng: &mut StdRng) -> Option<T> {
    if v.is_empty() {
        None
    } else {
        Some(v[rng.gen_range(0..v.len())])
    }
}

/// One table entry from the adversarial menu. `others` are the entries chosen so far.
fn menu(p: &Pools, others: &[Option<Move>], rng: &mut StdRng) -> Option<Move> {
    let r = rng.gen_range(0..100);
    let some: Vec<Move> = others.iter().flatten().copied().collect();
    let c = if r < 12 {
        None
    } else if r < 42 {
        pick(&p.quiets, rng)
    } else if r < 52 {
        pick(&p.true_caps, rng)
    } else if r < 58 {
        pick(&p.qpush, rng).or_else(|| pick(&p.caps, rng))
    } else if r < 74 {
        pick(&p.foreign, rng).or_else(|| Some(random_move(rng)))
    } else if r < 80 {
        Some(random_move(rng))
    } else {
        pick(&some, rng).or_else(|| pick(&p.quiets, rng))
    };
    c
}

/// Drives a history slot to `target` using only `add_bonus_for` (depth^2 per call, saturating).
fn raise_history(ctx: &mut SearchContext<'_>, game: &Game, mv: Move, target: i32) {
    let mut rem = target - ctx.history_table.get(game.player, mv);
    while rem > 0 {
        let d = (f64::from(rem).sqrt().floor() as i32).clamp(1, 255);
        ctx.history_table.add_bonus_for(game.player, mv, d as u8);
        rem -= d * d;
    }
}

struct Args {
    seed: u64,
    contents: usize,
    loud: usize,
    files: usize,
    max_positions: usize,
    stay: u32, // percentage of recorded positions examined as they are (the rest one random move further on)
}

pub fn main(rest: &[String]) -> i32 {
    if rest.len() < 2 {
        eprintln!("usage: picker <positions.ndjson> <out-base> [--seed S] [--contents K] [--loud L] [--files F] [--max-positions N]");
        return 2;
    }
    let mut a = Args { seed: 1, contents: 6, loud: 1, files: 1, max_positions: usize::MAX, stay: 20 };
    let mut i = 2;
    while i < rest.len() {
        let v = rest.get(i + 1).cloned().unwrap_or_default();
        match rest[i].as_str() {
            "--seed" => a.seed = v.parse().unwrap(),
            "--contents" => a.contents = v.parse().unwrap(),
            "--loud" => a.loud = v.parse().unwrap(),
            "--files" => a.files = v.parse().unwrap(),
            "--max-positions" => a.max_positions = v.parse().unwrap(),
            "--stay" => a.stay = v.parse().unwrap(),
            x => {
                eprintln!("unknown arg {x}");
                return 2;
            }
        }
        i += 2;
    }
    let mut rng = StdRng::seed_from_u64(a.seed.wrapping_mul(7_654_321).wrapping_add(10));

    // ---- positions under test -------------------------------------------------------------
    let f = std::io::BufReader::new(std::fs::File::open(&rest[0]).unwrap());
    let mut seen_src: HashSet<String> = HashSet::new();
    let mut seen: HashSet<String> = HashSet::new();
    let mut targets: Vec<(Game, Vec<Move>)> = Vec::new(); // position, foreign pool
    // the recorded positions are visited in a seeded random order, so that a quota smaller than the
    // file samples the whole walk and not only its beginning
    let mut lines: Vec<String> = f.lines().map(|l| l.unwrap()).filter(|l| !l.trim().is_empty()).collect();
    lines.shuffle(&mut rng);
    for line in lines {
        if targets.len() >= a.max_positions {
            break;
        }
        let r: Value = serde_json::from_str(&line).unwrap();
        let parent = proj::game_from_fields(&r);
        if !seen_src.insert(parent.to_fen()) {
            continue;
        }
        let pm = parent.moves();
        let mut t = parent.clone();
        let mut foreign: Vec<Move> = Vec::new();
        if !pm.is_empty() && rng.gen_range(0..100) >= a.stay {
            let m = pm[rng.gen_range(0..pm.len())];
            t.make_move(m);
            // moves of sibling positions (same ply, same side to move)
            for _ in 0..2 {
                let m2 = pm[rng.gen_range(0..pm.len())];
                if m2 != m {
                    let mut s = parent.clone();
                    s.make_move(m2);
                    foreign.extend(s.moves().iter().copied());
                }
            }
        }
        // moves of a grand-child (two plies on: same side to move)
        let tm = t.moves();
        if !tm.is_empty() {
            let mut g = t.clone();
            g.make_move(tm[rng.gen_range(0..tm.len())]);
            let gm = g.moves();
            if !gm.is_empty() {
                g.make_move(gm[rng.gen_range(0..gm.len())]);
                foreign.extend(g.moves().iter().copied());
            }
        }
        if !seen.insert(t.to_fen()) {
            continue;
        }
        let legal: HashSet<i64> = tm.iter().map(|m| proj::pack_move(*m)).collect();
        foreign.retain(|m| !legal.contains(&proj::pack_move(*m)));
        targets.push((t, foreign));
    }

    // ---- engine context -------------------------------------------------------------------
    let mut persistent_state = PersistentState::new(1);
    let options = EngineOptions::default();
    let restrictions = SearchRestrictions::default();
    let start = Game::new();
    let (mut time_strategy, _control) = TimeStrategy::new(&start, &TimeControl::Infinite, &options);

    let mut outs: Vec<std::io::BufWriter<std::fs::File>> = (0..a.files)
        .map(|k| {
            let p = if a.files == 1 { rest[1].clone() } else { format!("{}.{}", rest[1], k) };
            std::io::BufWriter::new(std::fs::File::create(p).unwrap())
        })
        .collect();

    let mut tally: HashMap<&'static str, u64> = HashMap::new();
    let mut bump = |k: &'static str, c: bool| {
        if c {
            *tally.entry(k).or_insert(0) += 1;
        }
    };
    let (mut nruns, mut nyield, mut nnontrivial) = (0u64, 0u64, 0u64);
    let mut samples: Vec<Value> = Vec::new();
    let mut last_sampled = usize::MAX;

    for (ti, (game, foreign)) in targets.iter().enumerate() {
        // the two generated lists, in generation order (what the configuration event records)
        let mut caps = MoveList::new();
        let mut cache = MovegenCache::new();
        generate_captures(game, &mut caps, &mut cache);
        let mut quiets = MoveList::new();
        generate_quiets(game, &mut quiets, &cache);
        let legal: Vec<Move> = game.moves().iter().copied().collect();
        let pools = Pools {
            legal: legal.clone(),
            caps: caps.iter().copied().collect(),
            quiets: quiets.iter().copied().collect(),
            true_caps: caps.iter().copied().filter(|m| m.is_capture()).collect(),
            qpush: caps.iter().copied().filter(|m| is_qpromo_push(*m)).collect(),
            foreign: foreign.clone(),
        };
        let prev = game.history.last().and_then(|h| h.mv);
        let capset: HashSet<i64> = pools.caps.iter().map(|m| proj::pack_move(*m)).collect();
        let quietset: HashSet<i64> = pools.quiets.iter().map(|m| proj::pack_move(*m)).collect();

        // which generator branches this position reaches (statistics)
        bump("pos_en_passant", pools.caps.iter().any(|m| m.is_en_passant()));
        bump("pos_queen_promotion_push", !pools.qpush.is_empty());
        bump("pos_capture_promotion", pools.caps.iter().any(|m| m.is_capture() && m.promotion().is_some()));
        bump("pos_underpromotion_push", pools.quiets.iter().any(|m| m.promotion().is_some()));
        bump("pos_castling", pools.quiets.iter().any(|m| m.is_castling()));
        bump("pos_in_check", game.is_king_in_check());
        bump("pos_no_legal_move", legal.is_empty());
        bump("pos_no_capture_list_entry", pools.caps.is_empty() && !legal.is_empty());
        bump("pos_more_than_4_capture_list_entries", pools.caps.len() > 4);

        let mut runs: Vec<Value> = Vec::new();
        for ri in 0..(a.contents + a.loud) {
            let loud = ri >= a.contents;
            let mut ctx = SearchContext::new(&mut persistent_state, &mut time_strategy, &options, &restrictions);
            ctx.history_table.reset();

            // ply, with the ends of the table over-represented
            let ply: u8 = match rng.gen_range(0..10) {
                0 => 0,
                1 => 254,
                2 => 1,
                3 => 253,
                _ => rng.gen_range(0..=254),
            };
            // hash move: legal or none
            let hash: Option<Move> = if loud || rng.gen_range(0..100) < 30 {
                None
            } else {
                match rng.gen_range(0..4) {
                    0 => pick(&pools.caps, &mut rng).or_else(|| pick(&pools.legal, &mut rng)),
                    1 => pick(&pools.quiets, &mut rng).or_else(|| pick(&pools.legal, &mut rng)),
                    _ => pick(&pools.legal, &mut rng),
                }
            };
            let k1 = menu(&pools, &[hash], &mut rng);
            let k2 = menu(&pools, &[hash, k1, k1], &mut rng);
            let cm = menu(&pools, &[hash, k1, k2], &mut rng);
            ctx.killer_moves.verif_set(ply, k1, k2);
            // decoys at the neighbouring plies: a picker reading the wrong ply shows up as drift
            if ply > 0 {
                ctx.killer_moves.verif_set(ply - 1, pick(&pools.quiets, &mut rng), pick(&pools.quiets, &mut rng));
            }
            if ply < 254 {
                ctx.killer_moves.verif_set(ply + 1, pick(&pools.quiets, &mut rng), pick(&pools.quiets, &mut rng));
            }
            if let (Some(p), Some(c)) = (prev, cm) {
                ctx.countermove_table.set(game.player, p, c);
            }
            // history
            let mode = rng.gen_range(0..10);
            for q in pools.quiets.iter() {
                let target: i32 = match mode {
                    0 => 0,
                    1..=3 => rng.gen_range(0..4),
                    4..=6 => rng.gen_range(0..2_000_000),
                    _ => match rng.gen_range(0..8) {
                        0 => HISTORY_SATURATION,
                        1 => HISTORY_SATURATION + 70_000, // beyond the cap: must saturate
                        2 => HISTORY_SATURATION - 1,
                        3 => 0,
                        _ => rng.gen_range(0..1000),
                    },
                };
                raise_history(&mut ctx, game, *q, target);
            }
            // also some history on moves that are not quiet here (must be irrelevant)
            if let Some(c) = pick(&pools.true_caps, &mut rng) {
                if mode >= 4 {
                    raise_history(&mut ctx, game, c, 5_000_000);
                }
            }

            // the configuration as the picker will see it
            let k1_eff = ctx.killer_moves.get_0(ply);
            let k2_eff = ctx.killer_moves.get_1(ply);
            let cm_eff = prev.and_then(|p| ctx.countermove_table.get(game.player, p));
            let hist: Vec<i32> = pools.quiets.iter().map(|q| ctx.history_table.get(game.player, *q)).collect();

            // In a real search the remembered moves change while a node's picker is suspended between two calls of next()
            // (descendants write killers and counter moves).  One run in four rewrites them between the calls: the stream must
            // still be exactly the legal moves, each once (the model's predicted ORDER is not compared for these runs).
            let mutate = !loud && rng.gen_range(0..4) == 0 && !pools.quiets.is_empty();
            let res = catch_unwind(AssertUnwindSafe(|| {
                let mut picker = if loud { MovePicker::new_loud() } else { MovePicker::new(hash) };
                let mut out: Vec<i64> = Vec::new();
                let mut cut = false;
                while let Some(m) = picker.next(game, &ctx, ply) {
                    out.push(proj::pack_move(m));
                    if out.len() >= CUT {
                        cut = true;
                        break;
                    }
                    if mutate && rng.gen_range(0..2) == 0 {
                        if let (Some(p), Some(c)) = (prev, pick(&pools.quiets, &mut rng)) {
                            ctx.countermove_table.set(game.player, p, c);
                        }
                        ctx.killer_moves.verif_set(ply, pick(&pools.quiets, &mut rng), pick(&pools.quiets, &mut rng));
                    }
                }
                (out, cut)
            }));
            let (out, outcome) = match res {
                Ok((o, false)) => (o, "ok"),
                Ok((o, true)) => (o, "cut"),
                Err(_) => (Vec::new(), "panic"),
            };
            nruns += 1;
            nyield += out.len() as u64;

            // statistics about how the table entries interact (not a judgement)
            let (h, a1, a2, c) = (pk(hash), pk(k1_eff), pk(k2_eff), pk(cm_eff));
            let listed = |x: i64| capset.contains(&x) || quietset.contains(&x);
            let mut nt = false;
            if !loud {
                let t = [
                    ("hash_is_capture_list_entry", h >= 0 && capset.contains(&h)),
                    ("hash_is_quiet", h >= 0 && quietset.contains(&h)),
                    ("killer_equals_hash", h >= 0 && (a1 == h || a2 == h)),
                    ("counter_equals_hash", h >= 0 && c == h),
                    ("killers_equal", a1 >= 0 && a1 == a2),
                    ("counter_equals_killer", c >= 0 && (c == a1 || c == a2)),
                    ("killer_is_capture_list_entry", capset.contains(&a1) || capset.contains(&a2)),
                    ("counter_is_capture_list_entry", capset.contains(&c)),
                    ("killer_not_legal_here", (a1 >= 0 && !listed(a1)) || (a2 >= 0 && !listed(a2))),
                    ("counter_not_legal_here", c >= 0 && !listed(c)),
                    ("killer_is_legal_quiet", quietset.contains(&a1) || quietset.contains(&a2)),
                    ("counter_is_legal_quiet", quietset.contains(&c)),
                    ("history_ties", {
                        let mut s = hist.clone();
                        s.sort_unstable();
                        s.windows(2).any(|w| w[0] == w[1])
                    }),
                    ("history_saturated", hist.iter().any(|x| *x == HISTORY_SATURATION)),
                    ("ply_edge", ply == 0 || ply == 254),
                ];
                for (k, v) in t.iter() {
                    bump(k, *v);
                }
                // non-trivial: a remembered entry is present and collides with another entry, is a
                // capture-list entry, or is not legal here
                nt = t[2].1 || t[3].1 || t[4].1 || t[5].1 || t[6].1 || t[7].1 || t[8].1 || t[9].1;
            }
            bump("loud", loud);
            bump("no_previous_move", prev.is_none());
            bump("outcome_not_ok", outcome != "ok");
            if nt {
                nnontrivial += 1;
            }
            if samples.len() < 3 && nt && ti % 7 == 3 && last_sampled != ti {
                last_sampled = ti;
                samples.push(json!({"fen": game.to_fen(), "ply": ply, "hash": h, "k1": a1, "k2": a2, "cm": c, "yielded": out.len()}));
            }
            runs.push(json!({
                "loud": if loud { 1 } else { 0 }, "ply": ply, "hash": h, "k1": a1, "k2": a2, "cm": c,
                "hist": hist, "outcome": outcome, "out": out, "mut": if mutate { 1 } else { 0 },
            }));
        }
        let mut ev: Map<String, Value> = proj::position(game);
        ev.insert("fen".into(), json!(game.to_fen()));
        ev.insert("prev".into(), json!(pk(prev)));
        ev.insert("caps".into(), json!(pools.caps.iter().map(|m| proj::pack_move(*m)).collect::<Vec<i64>>()));
        ev.insert("quiets".into(), json!(pools.quiets.iter().map(|m| proj::pack_move(*m)).collect::<Vec<i64>>()));
        ev.insert("runs".into(), json!(runs));
        let w = &mut outs[ti % a.files];
        writeln!(w, "{}", Value::Object(ev)).unwrap();
    }
    for w in outs.iter_mut() {
        w.flush().unwrap();
    }
    let tally: Map<String, Value> = tally.iter().map(|(k, v)| (k.to_string(), json!(v))).collect();
    println!(
        "{}",
        json!({"positions": targets.len(), "runs": nruns, "yields": nyield, "nontrivial": nnontrivial,
               "tally": tally, "samples": samples})
    );
    0
}
