//! `tt`: drives the real `TranspositionTable<SearchTranspositionTableData>` and records what it does
//! (C19; specification /verif/spec/TransTable.tla, validated by Trace_TransTable.tla).
//!
//!   tt info
//!       one JSON line: entry size, entries per megabyte, whether this build panics on overflow
//!   tt random --seed S --events E --sizes 1,2,3,16 --out FILE [--mix i,p,n,r,z,f] [--bursts 1,1,2,64]
//!             [--depths D] [--hash-min A --hash-max B] [--profile NAME]
//!       random operation sequences on a key pool constructed to collide (slot + j*entries, keys that
//!       differ only above bit 32, ...).  A size 0 in --sizes makes zero-megabyte tables part of the run.
//!   tt replay OPS.ndjson OUT
//!       executes the operations of OPS (first line: the pool) - used for TLC-generated sequences
//!
//! After every operation the observable content is logged: `get` on every key of the pool, the
//! `occupied` counter, `occupancy()` and `generation`.  The harness judges nothing.  A panic inside
//! the table is data: the event gets "out":"panic" with the message, and the episode ends (the next
//! event is a fresh table).
use crate::chess::zobrist::ZobristHash;
use crate::engine::eval::Eval;
use crate::engine::search::transposition::{NodeBound, SearchTranspositionTableData};
use crate::engine::transposition_table::{
    calculate_number_of_entries, TranspositionTable, TranspositionTableEntry,
};
use crate::proj;
use serde_json::Value;
use std::io::{BufRead, Write};
use std::panic::{catch_unwind, AssertUnwindSafe};

type Table = TranspositionTable<SearchTranspositionTableData>;

fn entries(size_mb: usize) -> usize {
    calculate_number_of_entries::<SearchTranspositionTableData>(size_mb)
}

fn entry_bytes() -> usize {
    std::mem::size_of::<TranspositionTableEntry<SearchTranspositionTableData>>()
}

/// Does this build panic on arithmetic overflow?  (The engine's modules are compiled as part of this
/// crate, so the answer holds for the code under test.)
fn overflow_checked() -> bool {
    crate::unwind_safe(|| {
        let x: u8 = std::hint::black_box(255u8);
        std::hint::black_box(x + std::hint::black_box(1u8))
    })
    .is_err()
}

fn panic_msg(e: Box<dyn std::any::Any + Send>) -> String {
    if let Some(s) = e.downcast_ref::<&str>() {
        (*s).to_string()
    } else if let Some(s) = e.downcast_ref::<String>() {
        s.clone()
    } else {
        "panic".to_string()
    }
}

struct Rng(u64);
impl Rng {
    fn next(&mut self) -> u64 {
        // splitmix64
        self.0 = self.0.wrapping_add(0x9E37_79B9_7F4A_7C15);
        let mut z = self.0;
        z = (z ^ (z >> 30)).wrapping_mul(0xBF58_476D_1CE4_E5B9);
        z = (z ^ (z >> 27)).wrapping_mul(0x94D0_49BB_1331_11EB);
        z ^ (z >> 31)
    }
    fn below(&mut self, n: u64) -> u64 {
        self.next() % n
    }
    fn pick<T: Copy>(&mut self, v: &[T]) -> T {
        v[self.below(v.len() as u64) as usize]
    }
}

#[derive(Clone, Debug)]
enum Op {
    New(usize),
    Insert { k: usize, bound: i64, depth: u8, tag: i16, mv: i64 },
    Probe(usize),
    NewSearch(u32),
    Reset,
    Resize(usize),
    Fill { from: u64, cnt: u64 },
}

fn bound_of(b: i64) -> NodeBound {
    match b {
        0 => NodeBound::Exact,
        1 => NodeBound::Upper,
        _ => NodeBound::Lower,
    }
}

fn bound_code(b: &NodeBound) -> i64 {
    match b {
        NodeBound::Exact => 0,
        NodeBound::Upper => 1,
        NodeBound::Lower => 2,
    }
}

fn show(d: Option<&SearchTranspositionTableData>) -> String {
    match d {
        None => "[-1,-1,-1,-1,-1]".to_string(),
        Some(d) => format!(
            "[{},{},{},{},{}]",
            bound_code(&d.bound),
            d.depth,
            d.age,
            d.eval.0,
            d.best_move.map_or(-1, proj::pack_move)
        ),
    }
}

const PANICKED: &str = "[-2,-2,-2,-2,-2]";
const UNOBSERVED: &str = "[-3,-3,-3,-3,-3]";

struct Runner<W: Write> {
    tt: Option<Table>,
    size: usize,
    pool: Vec<u64>,
    out: W,
    events: u64,
    panics: u64,
    hw: u64, // next never-filled slot index of the current table
}

impl<W: Write> Runner<W> {
    fn header(&mut self, checked: bool, hash_min: i64, hash_max: i64, profile: &str) {
        let keys: Vec<String> = self.pool.iter().map(|k| proj::limbs(*k).to_string()).collect();
        writeln!(
            self.out,
            "{{\"op\":\"pool\",\"keys\":[{}],\"entry_bytes\":{},\"checked\":{},\"hash_min\":{},\"hash_max\":{},\"profile\":\"{}\"}}",
            keys.join(","),
            entry_bytes(),
            checked,
            hash_min,
            hash_max,
            profile
        )
        .unwrap();
    }

    /// Executes one operation on the real table and logs it.  Returns false when something panicked.
    fn exec(&mut self, op: &Op) -> bool {
        let mut res = "[-1,-1,-1,-1,-1]".to_string();
        let mut done = 0u32;
        let r: Result<(), String> = match op {
            Op::New(n) => {
                self.tt = None; // free the old table first
                self.hw = 0;
                self.size = *n;
                match crate::unwind_safe(|| Table::new(*n)) {
                    Ok(t) => {
                        self.tt = Some(t);
                        Ok(())
                    }
                    Err(e) => Err(panic_msg(e)),
                }
            }
            _ if self.tt.is_none() => Err("no table".to_string()),
            Op::Insert { k, bound, depth, tag, mv } => {
                let key = ZobristHash(self.pool[*k - 1]);
                let tt = self.tt.as_mut().unwrap();
                // as the search does: the entry is stamped with the table's current generation
                let data = SearchTranspositionTableData {
                    bound: bound_of(*bound),
                    eval: Eval(*tag),
                    depth: *depth,
                    age: tt.generation,
                    best_move: if *mv < 0 { None } else { Some(proj::unpack_move(*mv)) },
                };
                catch_unwind(AssertUnwindSafe(|| tt.insert(&key, data))).map_err(panic_msg)
            }
            Op::Probe(k) => {
                let key = ZobristHash(self.pool[*k - 1]);
                let tt = self.tt.as_ref().unwrap();
                match catch_unwind(AssertUnwindSafe(|| show(tt.get(&key)))) {
                    Ok(s) => {
                        res = s;
                        Ok(())
                    }
                    Err(e) => {
                        res = PANICKED.to_string();
                        Err(panic_msg(e))
                    }
                }
            }
            Op::NewSearch(times) => {
                let tt = self.tt.as_mut().unwrap();
                let mut r = Ok(());
                for _ in 0..*times {
                    match catch_unwind(AssertUnwindSafe(|| tt.new_generation())) {
                        Ok(()) => done += 1,
                        Err(e) => {
                            r = Err(panic_msg(e));
                            break;
                        }
                    }
                }
                r
            }
            Op::Reset => {
                self.hw = 0;
                let tt = self.tt.as_mut().unwrap();
                catch_unwind(AssertUnwindSafe(|| tt.reset())).map_err(panic_msg)
            }
            Op::Resize(n) => {
                if *n != self.size {
                    self.hw = 0;
                }
                self.size = *n;
                let tt = self.tt.as_mut().unwrap();
                catch_unwind(AssertUnwindSafe(|| tt.resize(*n))).map_err(panic_msg)
            }
            Op::Fill { from, cnt } => {
                let tt = self.tt.as_mut().unwrap();
                let age = tt.generation;
                let (a, b) = (*from, *from + *cnt);
                catch_unwind(AssertUnwindSafe(|| {
                    for s in a..b {
                        tt.insert(
                            &ZobristHash(s),
                            SearchTranspositionTableData {
                                bound: NodeBound::Lower,
                                eval: Eval(1),
                                depth: 1,
                                age,
                                best_move: None,
                            },
                        );
                    }
                }))
                .map_err(panic_msg)
            }
        };
        // the observable content after the operation
        let mut obs_panic: Option<String> = None;
        let (mut occ, mut pm, mut gen) = (0usize, -2i64, 0u8);
        let mut c: Vec<String> = Vec::with_capacity(self.pool.len());
        if let Some(tt) = self.tt.as_ref() {
            occ = tt.occupied;
            gen = tt.generation;
            match catch_unwind(AssertUnwindSafe(|| tt.occupancy())) {
                Ok(p) => pm = p as i64,
                Err(e) => obs_panic = Some(panic_msg(e)),
            }
            // a zero-slot table is not probed for observation (entries "not observed": -3), so that
            // it is the operations themselves that meet it
            let observe = entries(self.size) > 0;
            // The pool is swept alternately forwards and backwards, so that the first key looked up after an
            // operation is the last key looked up before it (a table that remembers its last lookup must not
            // carry that memory across a resize / reset); results are stored by pool position either way.
            let np = self.pool.len();
            let mut got: Vec<String> = vec![UNOBSERVED.to_string(); np];
            let backwards = self.events % 2 == 1;
            for step in 0..np {
                if !observe {
                    continue;
                }
                let i = if backwards { np - 1 - step } else { step };
                let key = ZobristHash(self.pool[i]);
                match catch_unwind(AssertUnwindSafe(|| show(tt.get(&key)))) {
                    Ok(s) => got[i] = s,
                    Err(e) => {
                        got[i] = PANICKED.to_string();
                        obs_panic = Some(panic_msg(e));
                    }
                }
            }
            c.extend(got);
        } else {
            for _ in &self.pool {
                c.push(PANICKED.to_string());
            }
        }
        let (name, k, bound, depth, tag, mv, n, times, from, cnt) = match op {
            Op::New(n) => ("new", 0, 0, 0, 0, -1, *n, 0, 0, 0),
            Op::Insert { k, bound, depth, tag, mv } => {
                ("insert", *k, *bound, *depth as i64, *tag as i64, *mv, 0, 0, 0, 0)
            }
            Op::Probe(k) => ("probe", *k, 0, 0, 0, -1, 0, 0, 0, 0),
            Op::NewSearch(t) => ("newsearch", 0, 0, 0, 0, -1, 0, *t, 0, 0),
            Op::Reset => ("reset", 0, 0, 0, 0, -1, 0, 0, 0, 0),
            Op::Resize(n) => ("resize", 0, 0, 0, 0, -1, *n, 0, 0, 0),
            Op::Fill { from, cnt } => ("fill", 0, 0, 0, 0, -1, 0, 0, *from, *cnt),
        };
        let (outc, msg) = match (&r, &obs_panic) {
            (Err(m), _) => ("panic", m.clone()),
            (Ok(()), Some(m)) => ("obs-panic", m.clone()),
            _ => ("ok", String::new()),
        };
        writeln!(
            self.out,
            "{{\"op\":\"{}\",\"k\":{},\"bound\":{},\"depth\":{},\"tag\":{},\"mv\":{},\"n\":{},\"times\":{},\"done\":{},\"from\":{},\"cnt\":{},\"res\":{},\"out\":\"{}\",\"msg\":{},\"occ\":{},\"pm\":{},\"gen\":{},\"c\":[{}]}}",
            name, k, bound, depth, tag, mv, n, times, done, from, cnt, res, outc,
            Value::String(msg).to_string(), occ, pm, gen, c.join(",")
        )
        .unwrap();
        self.events += 1;
        let ok = outc == "ok";
        if !ok {
            self.panics += 1;
            self.tt = None; // the episode is over
        }
        ok
    }
}

fn gcd(a: u128, b: u128) -> u128 {
    if b == 0 { a } else { gcd(b, a % b) }
}

/// Keys constructed to collide: for a few base slots b, the keys b + j*L (L = lcm of the entry
/// counts of all sizes in play: same slot at every size), b + j*e (e = smallest entry count: same slot
/// at the smallest size only), and twins of these that differ only above bit 32 / bit 48.
fn make_pool(rng: &mut Rng, sizes: &[usize]) -> Vec<u64> {
    let es: Vec<u128> = sizes.iter().filter(|s| **s > 0).map(|s| entries(*s) as u128).filter(|e| *e > 0).collect();
    let emin = es.iter().copied().min().unwrap_or(65536);
    let mut l: u128 = 1;
    for e in &es {
        l = l / gcd(l, *e) * *e;
    }
    let l = l.max(1);
    let mut bases: Vec<u128> = vec![rng.below(emin as u64) as u128, emin - 1, 0];
    bases.dedup();
    let mut pool: Vec<u64> = Vec::new();
    let mut push = |pool: &mut Vec<u64>, k: u128| {
        if k <= u64::MAX as u128 && !pool.contains(&(k as u64)) {
            pool.push(k as u64);
        }
    };
    for (i, b) in bases.iter().enumerate() {
        push(&mut pool, *b);
        push(&mut pool, *b + l);
        if i < 2 {
            push(&mut pool, *b + emin * (1 + rng.below(3) as u128));
        }
        // same low 32 bits as b (l * 2^k with enough zeros below bit 32), still the same slot
        let mut hi = l;
        while hi % (1u128 << 32) != 0 {
            hi *= 2;
        }
        push(&mut pool, *b + hi * (1 + i as u128));
        if i == 0 {
            // same low 48 bits
            let mut hh = hi;
            while hh % (1u128 << 48) != 0 {
                hh *= 2;
            }
            push(&mut pool, *b + hh);
        }
    }
    push(&mut pool, u64::MAX as u128);
    pool
}

fn arg<'a>(rest: &'a [String], name: &str) -> Option<&'a str> {
    rest.iter().position(|a| a == name).and_then(|i| rest.get(i + 1)).map(|s| s.as_str())
}

fn nums<T: std::str::FromStr>(s: &str) -> Vec<T> {
    s.split(',').filter(|x| !x.is_empty()).filter_map(|x| x.parse::<T>().ok()).collect()
}

fn random(rest: &[String]) -> i32 {
    let seed: u64 = arg(rest, "--seed").and_then(|s| s.parse().ok()).unwrap_or(1);
    let budget: u64 = arg(rest, "--events").and_then(|s| s.parse().ok()).unwrap_or(1000);
    let sizes: Vec<usize> = nums(arg(rest, "--sizes").unwrap_or("1,2,3,16"));
    let mix: Vec<u64> = nums(arg(rest, "--mix").unwrap_or("55,10,20,2,4,9"));
    let bursts: Vec<u32> = nums(arg(rest, "--bursts").unwrap_or("1,1,1,1,2,3,64,192,255,256"));
    let maxdepth: u64 = arg(rest, "--depths").and_then(|s| s.parse().ok()).unwrap_or(4);
    let hash_min: i64 = arg(rest, "--hash-min").and_then(|s| s.parse().ok()).unwrap_or(-1);
    let hash_max: i64 = arg(rest, "--hash-max").and_then(|s| s.parse().ok()).unwrap_or(-1);
    let profile = arg(rest, "--profile").unwrap_or("?");
    let Some(outp) = arg(rest, "--out") else {
        eprintln!("tt random: --out missing");
        return 2;
    };
    if sizes.is_empty() || mix.len() != 6 || bursts.is_empty() {
        eprintln!("tt random: bad --sizes/--mix/--bursts");
        return 2;
    }
    let mut rng = Rng(seed.wrapping_mul(0x2545_F491_4F6C_DD1D) ^ 0xC19);
    let pool = make_pool(&mut rng, &sizes);
    let np = pool.len();
    let out = std::io::BufWriter::with_capacity(1 << 20, std::fs::File::create(outp).unwrap());
    let mut r = Runner { tt: None, size: 0, pool, out, events: 0, panics: 0, hw: 0 };
    r.header(overflow_checked(), hash_min, hash_max, profile);
    let total: u64 = mix.iter().sum();
    let mut tag: i16 = 0;
    let mut counts = [0u64; 7];
    let mut last_payload: std::collections::HashMap<usize, (i64, u8, i16, i64)> = Default::default();
    while r.events < budget {
        if r.tt.is_none() {
            counts[6] += 1;
            r.exec(&Op::New(rng.pick(&sizes)));
            continue;
        }
        let mut x = rng.below(total);
        let mut which = 0;
        for (i, w) in mix.iter().enumerate() {
            if x < *w {
                which = i;
                break;
            }
            x -= *w;
        }
        let op = match which {
            0 => {
                let k = 1 + rng.below(np as u64) as usize;
                // now and then the very same result is stored again for a key (a later search that finds what the earlier
                // one found): what is stored must carry the age of the search that stored it last
                if rng.below(5) == 0 && last_payload.contains_key(&k) {
                    let (bound, depth, t, mv) = last_payload[&k];
                    Op::Insert { k, bound, depth, tag: t, mv }
                } else {
                    tag = if tag >= 30000 { 1 } else { tag + 1 };
                    let from = rng.below(64) as i64;
                    let to = (from + 1 + rng.below(63) as i64) % 64;
                    let mv = if rng.below(3) == 0 { -1 } else { from + 64 * to + 32768 * (rng.below(2) as i64) };
                    let (bound, depth) = (rng.below(3) as i64, rng.below(maxdepth + 1) as u8);
                    last_payload.insert(k, (bound, depth, tag, mv));
                    Op::Insert { k, bound, depth, tag, mv }
                }
            }
            1 => Op::Probe(1 + rng.below(np as u64) as usize),
            2 => Op::NewSearch(rng.pick(&bursts)),
            3 => Op::Reset,
            4 => Op::Resize(rng.pick(&sizes)),
            _ => {
                // a range of never-filled slots that contains no slot of a pool key
                let n = entries(r.size) as u64;
                if n == 0 {
                    continue;
                }
                let pslots: Vec<u64> = r.pool.iter().map(|k| k % n).collect();
                while r.hw < n && pslots.contains(&r.hw) {
                    r.hw += 1;
                }
                let want = rng.pick(&[1u64, 7, 100, 1000, 5000, 20000]);
                let mut end = (r.hw + want).min(n);
                for p in &pslots {
                    if *p >= r.hw && *p < end {
                        end = *p;
                    }
                }
                if end <= r.hw {
                    continue;
                }
                let op = Op::Fill { from: r.hw, cnt: end - r.hw };
                r.hw = end;
                op
            }
        };
        counts[which] += 1;
        r.exec(&op);
    }
    r.out.flush().unwrap();
    println!(
        "{{\"events\":{},\"panics\":{},\"pool\":{},\"inserts\":{},\"probes\":{},\"newsearches\":{},\"resets\":{},\"resizes\":{},\"fills\":{},\"tables\":{}}}",
        r.events, r.panics, np, counts[0], counts[1], counts[2], counts[3], counts[4], counts[5], counts[6]
    );
    0
}

fn key_of_limbs(v: &Value) -> u64 {
    let a = v.as_array().unwrap();
    (0..4).map(|i| a[i].as_u64().unwrap() << (16 * i)).sum()
}

fn replay(rest: &[String]) -> i32 {
    if rest.len() < 2 {
        eprintln!("usage: tt replay OPS OUT");
        return 2;
    }
    let f = std::io::BufReader::new(std::fs::File::open(&rest[0]).unwrap());
    let out = std::io::BufWriter::with_capacity(1 << 20, std::fs::File::create(&rest[1]).unwrap());
    let mut r = Runner { tt: None, size: 0, pool: Vec::new(), out, events: 0, panics: 0, hw: 0 };
    let mut skipped = 0u64;
    for line in f.lines() {
        let line = line.unwrap();
        if line.trim().is_empty() {
            continue;
        }
        let v: Value = serde_json::from_str(&line).unwrap();
        let g = |n: &str| v.get(n).and_then(|x| x.as_i64()).unwrap_or(0);
        let op = match v["op"].as_str().unwrap() {
            "pool" => {
                r.pool = v["keys"].as_array().unwrap().iter().map(key_of_limbs).collect();
                r.header(
                    overflow_checked(),
                    v.get("hash_min").and_then(|x| x.as_i64()).unwrap_or(-1),
                    v.get("hash_max").and_then(|x| x.as_i64()).unwrap_or(-1),
                    v.get("profile").and_then(|x| x.as_str()).unwrap_or("?"),
                );
                continue;
            }
            "new" => Op::New(g("n") as usize),
            "insert" => Op::Insert {
                k: g("k") as usize,
                bound: g("bound"),
                depth: g("depth") as u8,
                tag: g("tag") as i16,
                mv: v.get("mv").and_then(|x| x.as_i64()).unwrap_or(-1),
            },
            "probe" => Op::Probe(g("k") as usize),
            "newsearch" => Op::NewSearch(v.get("times").and_then(|x| x.as_u64()).unwrap_or(1) as u32),
            "reset" => Op::Reset,
            "resize" => Op::Resize(g("n") as usize),
            "fill" => Op::Fill { from: g("from") as u64, cnt: g("cnt") as u64 },
            other => {
                eprintln!("tt replay: unknown op {other}");
                return 2;
            }
        };
        // after a panic the episode is over: operations up to the next `new` are not executed
        if r.tt.is_none() && !matches!(op, Op::New(_)) {
            skipped += 1;
            continue;
        }
        r.exec(&op);
    }
    r.out.flush().unwrap();
    println!("{{\"events\":{},\"panics\":{},\"skipped\":{}}}", r.events, r.panics, skipped);
    0
}

pub fn main(rest: &[String]) -> i32 {
    match rest.first().map(|s| s.as_str()) {
        Some("info") => {
            println!(
                "{{\"entry_bytes\":{},\"entries_per_mb\":{},\"checked\":{}}}",
                entry_bytes(),
                entries(1),
                overflow_checked()
            );
            0
        }
        Some("random") => random(&rest[1..]),
        Some("replay") => replay(&rest[1..]),
        _ => {
            eprintln!("usage: tt info | tt random --seed S --events E --sizes a,b,.. --out FILE | tt replay OPS OUT");
            2
        }
    }
}
