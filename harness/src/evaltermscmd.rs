//! `evalterms params <out>`: the evaluation parameters, per group, in the order of the engine's own coefficient
//! trace (hook `eval::verif_terms::parameters`), as two-element arrays [midgame, endgame].
//! `evalterms positions <positions.ndjson> <out>`: for every position (fields b, stm, cr, ep, hmc, pl) the
//! coefficient of every parameter as the engine's evaluation counted it (white minus black), the evaluation
//! from White's point of view, the phase value, and the evaluation `eval::eval` returns for the side to move.
use crate::engine::eval;
use crate::proj;
use serde_json::{json, Map, Value};
use std::io::{BufRead, Write};

pub fn main(rest: &[String]) -> i32 {
    match rest[0].as_str() {
        "params" => {
            let mut m = Map::new();
            for (name, v) in eval::verif_terms::parameters() {
                m.insert(name.into(), json!(v.iter().map(|(a, b)| vec![*a, *b]).collect::<Vec<_>>()));
            }
            std::fs::write(&rest[1], Value::Object(m).to_string() + "\n").unwrap();
            0
        }
        "positions" => {
            let f = std::io::BufReader::new(std::fs::File::open(&rest[1]).unwrap());
            let mut out = std::io::BufWriter::new(std::fs::File::create(&rest[2]).unwrap());
            let mut n = 0u64;
            for line in f.lines() {
                let line = line.unwrap();
                if line.trim().is_empty() {
                    continue;
                }
                let v: Value = serde_json::from_str(&line).unwrap();
                let game = proj::game_from_fields(&v);
                let res = crate::unwind_safe(|| {
                    let (coef, white_eval, phase) = eval::verif_terms::coefficients(&game);
                    (coef, white_eval, phase, eval::eval(&game).0)
                });
                let mut m: Map<String, Value> = proj::position(&game);
                m.insert("fen".into(), json!(game.to_fen()));
                match res {
                    Ok((coef, white_eval, phase, ev)) => {
                        let mut c = Map::new();
                        for (name, v) in coef {
                            c.insert(name.into(), json!(v));
                        }
                        m.insert("out".into(), json!("ok"));
                        m.insert("coef".into(), Value::Object(c));
                        m.insert("white_eval".into(), json!(white_eval));
                        m.insert("phase".into(), json!(phase));
                        m.insert("eval".into(), json!(ev));
                    }
                    Err(_) => {
                        m.insert("out".into(), json!("panic"));
                        m.insert("msg".into(), json!(crate::LAST_PANIC.lock().unwrap().replace('\n', " ")));
                    }
                }
                writeln!(out, "{}", Value::Object(m)).unwrap();
                n += 1;
            }
            out.flush().unwrap();
            println!("{}", json!({"positions": n}));
            0
        }
        x => {
            eprintln!("unknown evalterms mode {x}");
            2
        }
    }
}
