//! Direction B: replays TLC-generated lines into the engine and reports where the engine's
//! observable answer differs from the one the specification printed.
use crate::chess::game::Game;
use crate::proj;
use serde_json::{json, Value};
use std::collections::HashSet;
use std::io::{BufRead, Write};

fn lines(path: &str) -> Vec<Value> {
    let f = std::io::BufReader::new(std::fs::File::open(path).unwrap());
    f.lines()
        .map(|l| l.unwrap())
        .filter(|l| !l.trim().is_empty())
        .map(|l| serde_json::from_str(&l).unwrap())
        .collect()
}

/// `replay-positions <gen.ndjson>`: C01 — move list (as a bag) and check verdict.
pub fn positions(rest: &[String]) -> i32 {
    let rows = lines(&rest[0]);
    let mut distinct: HashSet<String> = HashSet::new();
    let mut mism = Vec::new();
    let mut samples = Vec::new();
    let mut n = 0u64;
    let mut fams: std::collections::BTreeMap<String, u64> = Default::default();
    let mut nontrivial = 0u64;
    for r in &rows {
        n += 1;
        let fam = r["fam"].as_str().unwrap_or("").to_string();
        *fams.entry(fam.clone()).or_default() += 1;
        let res = crate::unwind_safe(|| {
            let g = proj::game_from_fields(r);
            let mvs: Vec<i64> = g.moves().iter().map(|m| proj::pack_move(*m)).collect();
            // the check verdict reached by playing each move (and the verdict of the position itself once the move is taken back)
            let chk0 = g.is_king_in_check();
            let mut g2 = g.clone();
            let mut gives: Vec<i64> = Vec::new();
            let mut restored = true;
            for m in g.moves().iter() {
                g2.make_move(*m);
                if g2.is_king_in_check() {
                    gives.push(proj::pack_move(*m));
                }
                g2.undo_move();
                restored &= g2.is_king_in_check() == chk0;
            }
            (g.to_fen(), mvs, chk0, g.is_stalemate_by_insufficient_material(), gives, restored)
        });
        match res {
            Err(_) => mism.push(json!({"fam": fam, "what": "panic", "pos": r})),
            Ok((fen, mvs, chk, insuf, gives, restored)) => {
                if let Some(gc) = r.get("gc").and_then(|x| x.as_array()) {
                    let want_gc: HashSet<i64> = gc.iter().map(|x| x.as_i64().unwrap()).collect();
                    let got_gc: HashSet<i64> = gives.iter().copied().collect();
                    if want_gc != got_gc || !restored {
                        let mut a: Vec<i64> = want_gc.symmetric_difference(&got_gc).copied().collect();
                        a.sort();
                        mism.push(json!({"fam": fam, "what": "check-verdict-after-playing-a-move", "fen": fen, "moves": a,
                            "verdict_restored_after_take_back": restored}));
                    }
                }
                if let Some(ipv) = r.get("ipv").and_then(|x| x.as_str()) {
                    if (ipv == "T" && !insuf) || (ipv == "F" && insuf) {
                        mism.push(json!({"fam": fam, "what": "material", "fen": fen, "engine": insuf, "spec": ipv}));
                    }
                    if r["icv"].as_bool() != Some(insuf) {
                        mism.push(json!({"fam": fam, "what": "material-cv", "fen": fen, "engine": insuf, "spec": r["icv"]}));
                    }
                }
                let fresh = distinct.insert(fen.clone());
                let want: HashSet<i64> = r["mvs"].as_array().unwrap().iter().map(|x| x.as_i64().unwrap()).collect();
                let got: HashSet<i64> = mvs.iter().copied().collect();
                let want_chk = r["chk"].as_bool().unwrap();
                // non-trivial: in check, or some piece of the side to move has fewer moves than
                // its pseudo-legal geometry allows is not observable here; use: in check, or an
                // en-passant / castling / promotion move is legal, or fewer than all king steps.
                if fresh && (want_chk || want.iter().any(|m| m / 32768 >= 2 || (m / 4096) % 8 != 0)) {
                    nontrivial += 1;
                }
                if samples.len() < 3 && fresh {
                    samples.push(json!({"fen": fen, "expected_moves": want.len(), "check": want_chk, "family": fam}));
                }
                if got != want || got.len() != mvs.len() || chk != want_chk {
                    let mut missing: Vec<i64> = want.difference(&got).copied().collect();
                    let mut extra: Vec<i64> = got.difference(&want).copied().collect();
                    missing.sort();
                    extra.sort();
                    mism.push(json!({"fam": fam, "what": "movelist", "fen": fen, "missing": missing, "extra": extra,
                        "duplicates": got.len() != mvs.len(), "chk_engine": chk, "chk_spec": want_chk}));
                }
            }
        }
    }
    let out = json!({"n": n, "distinct": distinct.len(), "nontrivial": nontrivial, "families": fams,
        "mismatches": mism, "samples": samples});
    println!("{}", out);
    0
}

/// `replay-game <gen.ndjson>`: C02/C03/C15 — TLC-chosen behaviours of ChessGame replayed through
/// make_move / make_null_move / undo_move / undo_null_move; projection compared after every step.
pub fn game(rest: &[String]) -> i32 {
    use crate::chess::zobrist;
    use crate::engine::eval::IncrementalEvalFields;
    let rows = lines(&rest[0]);
    let mut mism = Vec::new();
    let mut steps_total = 0u64;
    let mut ops: std::collections::BTreeMap<String, u64> = Default::default();
    let mut distinct: HashSet<String> = HashSet::new();
    let mut special = 0u64;
    let mut samples = Vec::new();
    for (gi, row) in rows.iter().enumerate() {
        let steps = row["steps"].as_array().unwrap();
        let mut game = Game::new();
        let mut opseq: Vec<String> = Vec::new();
        for (si, st) in steps.iter().enumerate() {
            steps_total += 1;
            let op = st["op"].as_str().unwrap();
            *ops.entry(op.to_string()).or_default() += 1;
            let mv = st["mv"].as_i64().unwrap();
            opseq.push(if op == "make" { st["uci"].as_str().unwrap().to_string() } else { op.to_string() });
            let res = std::panic::catch_unwind(std::panic::AssertUnwindSafe(|| match op {
                "load" => game = proj::game_from_fields(st),
                "make" => game.make_move(proj::unpack_move(mv)),
                "null" => game.make_null_move(),
                "undo" => game.undo_move(),
                "undonull" => game.undo_null_move(),
                _ => panic!("op"),
            }));
            if res.is_err() {
                mism.push(json!({"game": gi, "step": si, "what": "panic", "ops": opseq, "root": steps[0]["fen"]}));
                break;
            }
            if op == "make" && (mv >= 32768 * 2 || (mv / 4096) % 8 != 0) {
                special += 1;
            }
            let got = proj::position(&game);
            let mut diffs = Vec::new();
            for k in ["b", "stm", "cr", "ep", "hmc", "pl"] {
                if op == "null" && (k == "ep" || k == "hmc" || k == "pl") {
                    continue; // PropertyView of a null move fixes placement, side and rights only
                }
                if got[k] != st[k] {
                    diffs.push(k);
                }
            }
            if op != "null" && json!(game.to_fen()) != st["fen"] {
                diffs.push("fen");
            }
            if json!(game.history.len()) != st["hl"] {
                diffs.push("hl");
            }
            // the three views against the mailbox the spec expects
            let full = proj::full(&game);
            let b = st["b"].as_array().unwrap();
            let mut kinds = vec![Vec::new(); 6];
            let mut cols = vec![Vec::new(); 2];
            for (s, c) in b.iter().enumerate() {
                let c = c.as_i64().unwrap();
                if c != 0 {
                    kinds[((c - 1) % 6) as usize].push(s as i64);
                    cols[((c - 1) / 6) as usize].push(s as i64);
                }
            }
            if full["bk"] != json!(kinds) || full["bc"] != json!(cols) {
                diffs.push("views");
            }
            if full["key"] != full["keys"] {
                diffs.push("key");
            }
            if (&full["ph"], &full["mg"], &full["eg"]) != (&full["phs"], &full["mgs"], &full["egs"]) {
                diffs.push("acc");
            }
            if full["seel"] != full["seef"] {
                diffs.push("see");
            }
            distinct.insert(game.to_fen());
            if !diffs.is_empty() {
                mism.push(json!({"game": gi, "step": si, "what": "state", "fields": diffs, "op": op,
                    "ops": opseq, "root": steps[0]["fen"], "want_fen": st["fen"], "got_fen": game.to_fen()}));
                break;
            }
        }
        if samples.len() < 2 {
            samples.push(json!({"root": steps[0]["fen"], "ops": opseq.iter().take(14).collect::<Vec<_>>()}));
        }
    }
    println!(
        "{}",
        json!({"games": rows.len(), "steps": steps_total, "ops": ops, "distinct": distinct.len(),
            "special_moves": special, "mismatches": mism, "samples": samples})
    );
    0
}
