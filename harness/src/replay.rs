//! Direction B: replays TLC-generated lines into the engine and reports where the engine's
//! observable answer differs from the one the specification printed.
use crate::chess::game::Game;
use crate::proj;
use serde_json::{json, Value};
use std::collections::HashSet;
use std::io::{BufRead, Write};

fn lines(path: &str) -> Vec<Value> {
    let f = std::io::BufReader::new(std::fs::File::open(path).unwrap());
    f.lines()
        .map(|l| l.unwrap())
        .filter(|l| !l.trim().is_empty())
        .map(|l| serde_json::from_str(&l).unwrap())
        .collect()
}

/// `replay-positions <gen.ndjson>`: C01 — move list (as a bag) and check verdict.
pub fn positions(rest: &[String]) -> i32 {
    let rows = lines(&rest[0]);
    let mut distinct: HashSet<String> = HashSet::new();
    let mut mism = Vec::new();
    let mut samples = Vec::new();
    let mut n = 0u64;
    let mut fams: std::collections::BTreeMap<String, u64> = Default::default();
    let mut nontrivial = 0u64;
    for r in &rows {
        n += 1;
        let fam = r["fam"].as_str().unwrap_or("").to_string();
        *fams.entry(fam.clone()).or_default() += 1;
        let res = std::panic::catch_unwind(|| {
            let g = proj::game_from_fields(r);
            let mvs: Vec<i64> = g.moves().iter().map(|m| proj::pack_move(*m)).collect();
            (g.to_fen(), mvs, g.is_king_in_check())
        });
        match res {
            Err(_) => mism.push(json!({"fam": fam, "what": "panic", "pos": r})),
            Ok((fen, mvs, chk)) => {
                let fresh = distinct.insert(fen.clone());
                let want: HashSet<i64> = r["mvs"].as_array().unwrap().iter().map(|x| x.as_i64().unwrap()).collect();
                let got: HashSet<i64> = mvs.iter().copied().collect();
                let want_chk = r["chk"].as_bool().unwrap();
                // non-trivial: in check, or some piece of the side to move has fewer moves than
                // its pseudo-legal geometry allows is not observable here; use: in check, or an
                // en-passant / castling / promotion move is legal, or fewer than all king steps.
                if fresh && (want_chk || want.iter().any(|m| m / 32768 >= 2 || (m / 4096) % 8 != 0)) {
                    nontrivial += 1;
                }
                if samples.len() < 3 && fresh {
                    samples.push(json!({"fen": fen, "expected_moves": want.len(), "check": want_chk, "family": fam}));
                }
                if got != want || got.len() != mvs.len() || chk != want_chk {
                    let mut missing: Vec<i64> = want.difference(&got).copied().collect();
                    let mut extra: Vec<i64> = got.difference(&want).copied().collect();
                    missing.sort();
                    extra.sort();
                    mism.push(json!({"fam": fam, "what": "movelist", "fen": fen, "missing": missing, "extra": extra,
                        "duplicates": got.len() != mvs.len(), "chk_engine": chk, "chk_spec": want_chk}));
                }
            }
        }
    }
    let out = json!({"n": n, "distinct": distinct.len(), "nontrivial": nontrivial, "families": fams,
        "mismatches": mism, "samples": samples});
    println!("{}", out);
    0
}
