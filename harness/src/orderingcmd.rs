//! `ordering <seed> <n> <events-out>`: random operations on the move-ordering memories (killers, history, counter
//! moves) through their public interface, with the observable content after every operation, for Trace_Ordering.tla.
use crate::chess::moves::Move;
use crate::chess::player::Player;
use crate::chess::square::Square;
use crate::chess::game::Game;
use crate::engine::options::EngineOptions;
use crate::engine::search::time_control::TimeStrategy;
use crate::engine::search::{PersistentState, SearchContext, SearchRestrictions, TimeControl};
use rand::prelude::*;
use serde_json::json;
use std::io::Write;

pub fn main(rest: &[String]) -> i32 {
    let seed: u64 = rest[0].parse().unwrap();
    let n: usize = rest[1].parse().unwrap();
    let mut out = std::io::BufWriter::new(std::fs::File::create(&rest[2]).unwrap());
    let mut rng = StdRng::seed_from_u64(seed);
    // three abstract moves "1", "2", "3" (distinct from/to squares), plies 0 and 254, depths 1, 3, 200, 255
    let mv = |i: usize| Move::quiet(Square::from_index((8 + i) as u8), Square::from_index((24 + i) as u8));
    let plies = [0u8, 254u8];
    // the table types live in a private module: they are reached through the public fields of the search context
    // (killers and counter moves belong to one search, the history table to the persistent state)
    let game = Game::new();
    let options = EngineOptions::default();
    let restr = SearchRestrictions::default();
    let mut ps = PersistentState::new(1);
    let (mut ts, _c) = TimeStrategy::new(&game, &TimeControl::Infinite, &options);
    let mut fresh = SearchContext::new(&mut ps, &mut ts, &options, &restr);
    let mut killers = std::mem::replace(&mut fresh.killer_moves, unsafe { std::mem::zeroed() });
    let mut counter = std::mem::replace(&mut fresh.countermove_table, unsafe { std::mem::zeroed() });
    drop(fresh);
    let mut ps2 = PersistentState::new(1);
    let history = &mut ps2.history_table;
    let id = |m: Option<Move>| -> i64 {
        match m {
            None => 0,
            Some(m) => (m.src().idx() as i64) - 8,
        }
    };
    for _ in 0..n {
        let (op, a, b): (&str, i64, i64) = match rng.gen_range(0..100) {
            0..=29 => {
                let p = rng.gen_range(0..2);
                let m = rng.gen_range(1..=3);
                killers.try_push(plies[p], mv(m));
                ("push", p as i64, m as i64)
            }
            30..=64 => {
                let m = rng.gen_range(1..=3);
                let d = [1u8, 3, 200, 255][rng.gen_range(0..4)];
                history.add_bonus_for(Player::White, mv(m), d);
                ("bonus", m as i64, d as i64)
            }
            65..=79 => {
                let a = rng.gen_range(1..=3);
                let b = rng.gen_range(1..=3);
                counter.set(Player::White, mv(a), mv(b));
                ("counter", a as i64, b as i64)
            }
            80..=91 => {
                // what search() does at the start of every search
                history.decay(8);
                let mut ps3 = PersistentState::new(1);
                let (mut ts3, _c3) = TimeStrategy::new(&game, &TimeControl::Infinite, &options);
                let mut f = SearchContext::new(&mut ps3, &mut ts3, &options, &restr);
                killers = std::mem::replace(&mut f.killer_moves, unsafe { std::mem::zeroed() });
                counter = std::mem::replace(&mut f.countermove_table, unsafe { std::mem::zeroed() });
                ("newsearch", 0, 0)
            }
            _ => {
                history.reset();
                ("reset", 0, 0)
            }
        };
        let k: Vec<Vec<i64>> = plies.iter().map(|p| vec![id(killers.get_0(*p)), id(killers.get_1(*p))]).collect();
        let h: Vec<i64> = (1..=3).map(|m| history.get(Player::White, mv(m)) as i64).collect();
        let c: Vec<i64> = (1..=3).map(|m| id(counter.get(Player::White, mv(m)))).collect();
        let hb: Vec<i64> = (1..=3).map(|m| history.get(Player::Black, mv(m)) as i64).collect();
        writeln!(out, "{}", json!({"op": op, "a": a, "b": b, "k": k, "h": h, "c": c, "hb": hb})).unwrap();
    }
    out.flush().unwrap();
    0
}
