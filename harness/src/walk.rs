//! `walk`: randomised driver over make / null / undo / undonull / load, logging the full
//! projection after every operation (one ND-JSON event per operation).
use crate::chess::game::Game;
use crate::chess::moves::Move;
use crate::proj;
use rand::prelude::*;
use serde_json::{json, Value};
use std::io::Write;

pub struct Args {
    pub seed: u64,
    pub events: usize,
    pub roots: String,
    pub out: String,
    pub max_depth: usize,
    pub tables: Option<String>,
    pub files: usize,
    pub long: usize,
    pub script: Option<String>,
    pub nonull: bool,
}

fn parse(rest: &[String]) -> Args {
    let mut a = Args {
        seed: 1,
        events: 1000,
        roots: "/verif/data/roots.txt".into(),
        out: "/dev/stdout".into(),
        max_depth: 40,
        tables: None,
        files: 1,
        long: 0,
        script: None,
        nonull: false,
    };
    let mut i = 0;
    while i < rest.len() {
        let v = rest.get(i + 1).cloned().unwrap_or_default();
        match rest[i].as_str() {
            "--seed" => a.seed = v.parse().unwrap(),
            "--events" => a.events = v.parse().unwrap(),
            "--roots" => a.roots = v,
            "--out" => a.out = v,
            "--max-depth" => a.max_depth = v.parse().unwrap(),
            "--tables" => a.tables = Some(v),
            "--files" => a.files = v.parse().unwrap(),
            "--long" => a.long = v.parse().unwrap(),
            "--script" => a.script = Some(v),
            "--nonull" => a.nonull = v == "1",
            x => panic!("unknown arg {x}"),
        }
        i += 2;
    }
    a
}

fn is_special(m: Move) -> bool {
    m.is_capture() || m.is_castling() || m.promotion().is_some()
}

pub fn main(rest: &[String]) -> i32 {
    let a = parse(rest);
    if let Some(t) = &a.tables {
        let v = json!({"z": proj::zobrist_words(), "e": proj::eval_tables()});
        std::fs::write(t, serde_json::to_string(&v).unwrap() + "\n").unwrap();
    }
    if let Some(sp) = &a.script {
        // scripted lines `FEN;uci uci ...`: load, then every move played (each must be in the engine's own list), one event each
        let mut out = std::io::BufWriter::new(std::fs::File::create(&a.out).unwrap());
        for line in std::fs::read_to_string(sp).unwrap().lines().filter(|l| !l.trim().is_empty()) {
            let (fen, moves) = line.split_once(';').unwrap_or((line, ""));
            let mut game = Game::from_fen(fen.trim()).unwrap();
            emit(&mut out, "load", None, &game);
            for u in moves.split_whitespace() {
                let Some(mv) = game.moves().iter().copied().find(|m| format!("{m:?}") == u) else {
                    panic!("script move {u} not in the engine's list at {}", game.to_fen());
                };
                if !guarded(&mut out, "make", Some(proj::pack_move(mv)), &mut game, |g| g.make_move(mv)) {
                    break;
                }
            }
        }
        out.flush().unwrap();
        return 0;
    }
    let roots: Vec<String> = std::fs::read_to_string(&a.roots)
        .unwrap()
        .lines()
        .filter(|l| !l.trim().is_empty())
        .map(|l| l.to_string())
        .collect();

    for file_idx in 0..a.files {
        let path = if a.files == 1 { a.out.clone() } else { format!("{}.{}", a.out, file_idx) };
        let mut out = std::io::BufWriter::new(std::fs::File::create(&path).unwrap());
        let mut rng = StdRng::seed_from_u64(a.seed.wrapping_mul(1000003).wrapping_add(file_idx as u64));
        if a.long > 0 {
            run_long(&a, &roots, &mut rng, &mut out);
        } else {
            // the first file starts by loading every root once and playing one move from it (and taking it back):
            // what a root exercises does not depend on the draw of the random walk
            if file_idx == 0 {
                for fen in &roots {
                    let mut game = Game::from_fen(fen).unwrap();
                    emit(&mut out, "load", None, &game);
                    let moves = game.moves();
                    if !moves.is_empty() {
                        let mv = moves[rng.gen_range(0..moves.len())];
                        game.make_move(mv);
                        emit(&mut out, "make", Some(proj::pack_move(mv)), &game);
                        game.undo_move();
                        emit(&mut out, "undo", None, &game);
                    }
                }
            }
            run(&a, &roots, &mut rng, &mut out);
        }
        out.flush().unwrap();
    }
    0
}

fn emit(out: &mut impl Write, op: &str, mv: Option<i64>, game: &Game) {
    let mut m = proj::full(game);
    m.insert("op".into(), json!(op));
    m.insert("mv".into(), json!(mv.unwrap_or(-1)));
    writeln!(out, "{}", Value::Object(m)).unwrap();
}

fn run(a: &Args, roots: &[String], rng: &mut StdRng, out: &mut impl Write) {
    let mut game = Game::new();
    let mut need_load = true;
    let mut n = 0usize;
    while n < a.events {
        if need_load {
            let fen = &roots[rng.gen_range(0..roots.len())];
            game = Game::from_fen(fen).unwrap();
            emit(out, "load", None, &game);
            need_load = false;
            n += 1;
            continue;
        }
        let hl = game.history.len();
        let moves = game.moves();
        let r: f64 = rng.gen();
        let too_deep = hl >= a.max_depth;
        if moves.is_empty() || rng.gen_bool(1.0 / 120.0) {
            if hl > 0 && rng.gen_bool(0.7) && !rng.gen_bool(1.0 / 120.0) {
                // fall through to an undo below
            } else {
                need_load = true;
                continue;
            }
        }
        if hl > 0 && (too_deep || moves.is_empty() || r < 0.22) {
            if game.history.last().unwrap().mv.is_none() {
                game.undo_null_move();
                emit(out, "undonull", None, &game);
            } else {
                game.undo_move();
                emit(out, "undo", None, &game);
            }
            n += 1;
            continue;
        }
        if r < 0.28 && !game.is_king_in_check() {
            game.make_null_move();
            emit(out, "null", None, &game);
            n += 1;
            continue;
        }
        // choose a move
        let mut choice: Option<Move> = None;
        // repetition seeking: undo my own previous move if it was quiet
        if hl >= 2 && rng.gen_bool(0.35) {
            if let Some(prev) = game.history[hl - 2].mv {
                if let Some(m) = moves
                    .iter()
                    .find(|m| m.src() == prev.dst() && m.dst() == prev.src() && !m.is_capture() && m.promotion().is_none())
                {
                    choice = Some(*m);
                }
            }
        }
        if choice.is_none() && rng.gen_bool(0.3) {
            let sp: Vec<Move> = moves.iter().copied().filter(|m| is_special(*m)).collect();
            if !sp.is_empty() {
                choice = Some(sp[rng.gen_range(0..sp.len())]);
            }
        }
        let mv = choice.unwrap_or_else(|| moves[rng.gen_range(0..moves.len())]);
        game.make_move(mv);
        emit(out, "make", Some(proj::pack_move(mv)), &game);
        n += 1;
    }
}

/// One long game: moves are played (a move is taken back only where the game has ended) until the history
/// holds `--long` entries, then everything is taken back down to the root.  Every operation is logged.
fn run_long(a: &Args, roots: &[String], rng: &mut StdRng, out: &mut impl Write) {
    let fen = &roots[rng.gen_range(0..roots.len())];
    let mut game = Game::from_fen(fen).unwrap();
    emit(out, "load", None, &game);
    let mut guard = 0usize;
    while game.history.len() < a.long && guard < 20 * a.long {
        guard += 1;
        let moves = game.moves();
        if moves.is_empty() {
            if game.history.is_empty() {
                return;
            }
            game.undo_move();
            emit(out, "undo", None, &game);
            continue;
        }
        // a pass now and then (never in check, never twice in a row), as a search does
        if !a.nonull && rng.gen_bool(0.04) && !game.is_king_in_check() && game.history.last().map_or(true, |h| h.mv.is_some()) {
            if !guarded(out, "null", None, &mut game, Game::make_null_move) {
                return;
            }
            continue;
        }
        // keep material on the board for a while: captures only now and then
        let quiet: Vec<Move> = moves.iter().copied().filter(|m| !m.is_capture()).collect();
        let mv = if !quiet.is_empty() && !rng.gen_bool(0.05) {
            quiet[rng.gen_range(0..quiet.len())]
        } else {
            moves[rng.gen_range(0..moves.len())]
        };
        if !guarded(out, "make", Some(proj::pack_move(mv)), &mut game, |g| g.make_move(mv)) {
            return;
        }
    }
    while !game.history.is_empty() {
        let ok = if game.history.last().unwrap().mv.is_none() {
            guarded(out, "undonull", None, &mut game, Game::undo_null_move)
        } else {
            guarded(out, "undo", None, &mut game, Game::undo_move)
        };
        if !ok {
            return;
        }
    }
}

/// Runs one operation; a panic inside it is data: a `panic` event naming the operation ends the walk.
fn guarded(out: &mut impl Write, op: &str, mv: Option<i64>, game: &mut Game, f: impl FnOnce(&mut Game)) -> bool {
    // the projection of the state before the operation: a panic event carries it (the state after a panic is undefined)
    let before = proj::full(game);
    let ok = std::panic::catch_unwind(std::panic::AssertUnwindSafe(|| f(game))).is_ok();
    if ok {
        emit(out, op, mv, game);
    } else {
        let msg = crate::LAST_PANIC.lock().unwrap().replace('\n', " ");
        let mut m = before;
        m.insert("op".into(), json!("panic"));
        m.insert("during".into(), json!(op));
        m.insert("mv".into(), json!(mv.unwrap_or(-1)));
        m.insert("msg".into(), json!(msg));
        writeln!(out, "{}", Value::Object(m)).unwrap();
    }
    ok
}
