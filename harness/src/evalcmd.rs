//! placeholder, filled in by the corresponding check
pub fn main(_rest: &[String]) -> i32 {
    eprintln!("not implemented");
    2
}
