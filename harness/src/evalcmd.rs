//! `eval positions <positions.ndjson> <events-out>` and `eval blend <seed> <n> <events-out>`: C16.
use crate::chess::game::Game;
use crate::engine::eval::{self, PhasedEval};
use crate::proj;
use rand::prelude::*;
use serde_json::{json, Value};
use std::collections::HashSet;
use std::io::{BufRead, Write};

fn mirror_fields(v: &serde_json::Map<String, Value>) -> Value {
    let b: Vec<i64> = v["b"].as_array().unwrap().iter().map(|x| x.as_i64().unwrap()).collect();
    let mut mb = vec![0i64; 64];
    for s in 0..64 {
        let ms = (7 - s / 8) * 8 + s % 8;
        let p = b[ms];
        mb[s] = if p == 0 { 0 } else if p <= 6 { p + 6 } else { p - 6 };
    }
    let cr = v["cr"].as_i64().unwrap();
    let mcr = ((cr & 3) << 2) | ((cr >> 2) & 3);
    let ep = v["ep"].as_i64().unwrap();
    let mep = if ep < 0 { -1 } else { (7 - ep / 8) * 8 + ep % 8 };
    json!({"b": mb, "stm": 1 - v["stm"].as_i64().unwrap(), "cr": mcr, "ep": mep, "hmc": v["hmc"], "pl": v["pl"]})
}

fn positions(rest: &[String]) -> i32 {
    let f = std::io::BufReader::new(std::fs::File::open(&rest[0]).unwrap());
    let mut out = std::io::BufWriter::new(std::fs::File::create(&rest[1]).unwrap());
    let mut seen: HashSet<String> = HashSet::new();
    let mut n = 0u64;
    for line in f.lines() {
        let line = line.unwrap();
        if line.trim().is_empty() {
            continue;
        }
        let r: Value = serde_json::from_str(&line).unwrap();
        let g = proj::game_from_fields(&r);
        let fen = g.to_fen();
        if !seen.insert(fen.clone()) {
            continue;
        }
        n += 1;
        let fields = proj::position(&g);
        let mf = mirror_fields(&fields);
        let res = crate::unwind_safe(|| {
            let mg_game = proj::game_from_fields(&mf);
            let ev = eval::eval(&g).0;
            let mev = eval::eval(&mg_game).0;
            // the two pure assessments: the phase counter is a public field read only by the final blend
            let mut a = g.clone();
            a.incremental_eval.phase_value = 24;
            let mut b = g.clone();
            b.incremental_eval.phase_value = 0;
            let (evmg, eveg) = (eval::eval(&a).0, eval::eval(&b).0);
            // the evaluation is a function of the position: evaluate neighbours that differ in the owner of one pawn (same
            // squares occupied), then the position again - whatever the evaluation remembers must not show
            let codes: Vec<i64> = fields["b"].as_array().unwrap().iter().map(|x| x.as_i64().unwrap()).collect();
            let mut twins: Vec<crate::chess::game::Game> = Vec::new();
            for (i, c) in codes.iter().enumerate() {
                if (*c == 1 || *c == 7) && twins.len() < 6 {
                    let mut t = fields.clone();
                    let mut tb = codes.clone();
                    tb[i] = if *c == 1 { 7 } else { 1 };
                    t.insert("b".into(), json!(tb));
                    if let Ok(tg) = crate::unwind_safe(|| proj::game_from_fields(&Value::Object(t))) {
                        twins.push(tg);
                    }
                }
            }
            // in a thread of its own (nothing remembered yet): each twin first, then the position
            // (owned copies are moved into the thread: the game type only has to be Send)
            let gc = g.clone();
            let again = std::thread::spawn(move || {
                let mut worst = ev;
                for t in &twins {
                    let _ = crate::unwind_safe(|| eval::eval(t).0);
                    let v = eval::eval(&gc).0;
                    if v != ev {
                        worst = v;
                    }
                }
                worst
            })
            .join()
            .unwrap_or(i16::MIN);
            (ev, mev, evmg, eveg, again)
        });
        let mut ev = fields;
        ev.insert("t".into(), json!("pos"));
        ev.insert("fen".into(), json!(fen));
        ev.insert("mb".into(), mf["b"].clone());
        ev.insert("mstm".into(), mf["stm"].clone());
        ev.insert("phase".into(), json!(g.incremental_eval.phase_value));
        match res {
            Ok((e, m, a, b, again)) => {
                ev.insert("evt".into(), json!(again));
                ev.insert("panic".into(), json!(false));
                ev.insert("msg".into(), json!(""));
                ev.insert("ev".into(), json!(e));
                ev.insert("mev".into(), json!(m));
                ev.insert("evmg".into(), json!(a));
                ev.insert("eveg".into(), json!(b));
            }
            Err(_) => {
                ev.insert("panic".into(), json!(true));
                ev.insert("msg".into(), json!(crate::LAST_PANIC.lock().unwrap().replace('\n', " ")));
                for k in ["ev", "mev", "evmg", "eveg", "evt"] {
                    ev.insert(k.into(), json!(0));
                }
            }
        }
        writeln!(out, "{}", Value::Object(ev)).unwrap();
    }
    out.flush().unwrap();
    println!("{}", json!({"positions": n}));
    0
}

fn blend(rest: &[String]) -> i32 {
    let seed: u64 = rest[0].parse().unwrap();
    let n: usize = rest[1].parse().unwrap();
    let mut out = std::io::BufWriter::new(std::fs::File::create(&rest[2]).unwrap());
    let mut rng = StdRng::seed_from_u64(seed);
    let grid: [i16; 17] = [-32000, -20000, -3000, -1000, -100, -25, -24, -1, 0, 1, 24, 25, 100, 1000, 3000, 20000, 32000];
    let mut one = |mg: i16, eg: i16, ph: i16| {
        let r = crate::unwind_safe(|| PhasedEval::new(mg, eg).for_phase(ph).0);
        let ev = match r {
            Ok(v) => json!({"t": "blend", "mg": mg, "eg": eg, "ph": ph, "panic": false, "out": v}),
            Err(_) => json!({"t": "blend", "mg": mg, "eg": eg, "ph": ph, "panic": true, "out": 0}),
        };
        writeln!(out, "{ev}").unwrap();
    };
    for &mg in &grid {
        for &eg in &grid {
            for ph in [0i16, 1, 12, 23, 24, 25, 30, 48, 80, 100] {
                one(mg, eg, ph);
            }
        }
    }
    for _ in 0..n {
        one(rng.gen_range(-32000..=32000), rng.gen_range(-32000..=32000), rng.gen_range(0..=100));
    }
    out.flush().unwrap();
    0
}

pub fn main(rest: &[String]) -> i32 {
    match rest[0].as_str() {
        "positions" => positions(&rest[1..]),
        "blend" => blend(&rest[1..]),
        _ => 2,
    }
}
