//! `nodes <jobs.ndjson> <events-out>`: sessions of searches on one PersistentState each (job format of
//! `search`, plus `"record": true|false` per search).  For every recorded search the steps of every node of
//! the tree search (hook H6: entry, early returns, moves made, child results, line updates, return) are
//! written as one ND-JSON line each, framed by a `root` line (base position, moves played to reach the
//! root, limits) and an `end` line (outcome, best move, lines reported per iteration).  Searches that are
//! not recorded only warm the tables.
//!
//! `nodes <jobs.ndjson> <events-out> <table-out> [max-slots]` additionally records (hook H9) every operation of
//! EVERY search of a session on the transposition table - probe with what it returned, insert with what was handed
//! in, new search - with the real slot index, plus the harness's own `new` / `reset` of the persistent state.  Slots
//! are independent of one another, so only the operations on a bounded set of slots are written: first the slots on
//! which two or more different keys met (collisions), then the busiest ones.
use crate::chess::game::Game;
use crate::chess::moves::Move;
use crate::engine::options::EngineOptions;
use crate::engine::search::time_control::TimeStrategy;
use crate::engine::search::{self, PersistentState, Reporter, SearchInfo, SearchRestrictions, SearchScore, TimeControl};
use crate::engine::util::verif;
use crate::proj;
use serde_json::{json, Map, Value};
use std::io::{BufRead, Write};

struct Collect {
    infos: Vec<Value>,
}

impl Reporter for Collect {
    fn generic_report(&self, _: &str) {}

    fn report_search_progress(&mut self, _: &Game, p: SearchInfo) {
        let (sk, sv) = match p.score {
            SearchScore::Centipawns(c) => ("cp", c),
            SearchScore::Mate(m) => ("mate", m),
        };
        let pv: Vec<i64> = p.pv.clone().into_iter().map(proj::pack_move).collect();
        self.infos.push(json!({"d": p.depth, "sk": sk, "sv": sv, "pv": pv}));
    }

    fn best_move(&self, _: &Game, _: Move) {}
}

enum SessEv {
    New(usize),
    Reset,
    Ev(verif::TableEvent),
    /// after a search: the table's own counter of filled slots and its fill indicator
    Fill(usize, usize),
    /// `resize(mb)` as the `setoption name Hash` handler calls it: number of slots afterwards
    Resize(usize),
    /// a panic inside resize or inside a search (the session is abandoned)
    Panic(&'static str, String),
}

/// key ids are global to the file: (key, number of slots) -> id; `pool[id - 1]` = (slot, number of slots)
struct Pool {
    ids: std::collections::HashMap<(u64, usize), usize>,
    pool: Vec<(usize, usize)>,
    lines: Vec<String>,
}

fn write_session(p: &mut Pool, sess: &[SessEv], max_slots: usize, totals: &mut [u64; 5]) {
    use std::collections::{HashMap, HashSet};
    let mut keys_of: HashMap<usize, HashSet<u64>> = HashMap::new();
    let mut count: HashMap<usize, usize> = HashMap::new();
    for e in sess {
        if let SessEv::Ev(t) = e {
            if t.op != 2 {
                keys_of.entry(t.slot).or_default().insert(t.key);
                *count.entry(t.slot).or_default() += 1;
            }
        }
    }
    let mut slots: Vec<usize> = count.keys().copied().collect();
    // collisions first, then by activity (ties by index: deterministic)
    slots.sort_by_key(|s| (std::cmp::Reverse(keys_of[s].len().min(4)), std::cmp::Reverse(count[s]), *s));
    totals[2] += slots.iter().filter(|s| keys_of[*s].len() > 1).count() as u64;
    slots.truncate(max_slots);
    let tracked: HashSet<usize> = slots.into_iter().collect();
    // slots that received an insert since the table was last emptied (ALL slots, not only the tracked ones)
    let mut filled: HashSet<usize> = HashSet::new();
    let mut filled_tracked: HashSet<usize> = HashSet::new();
    let mut cur_slots = 0usize;
    for e in sess {
        match e {
            SessEv::New(n) => {
                filled.clear();
                filled_tracked.clear();
                cur_slots = *n;
                p.lines.push(json!({"op": "new", "slots": n}).to_string());
            }
            SessEv::Reset => {
                filled.clear();
                filled_tracked.clear();
                p.lines.push(json!({"op": "reset"}).to_string());
            }
            SessEv::Resize(n) => {
                // the model decides whether this empties the table (size changed) or not; the harness's own bookkeeping
                // of filled slots follows the real number of slots
                if *n != cur_slots {
                    filled.clear();
                    filled_tracked.clear();
                }
                cur_slots = *n;
                p.lines.push(json!({"op": "resize", "slots": n}).to_string());
            }
            SessEv::Panic(during, msg) => p.lines.push(json!({"op": "panic", "during": during, "msg": msg}).to_string()),
            SessEv::Fill(occ, pm) => p.lines.push(
                json!({"op": "fill", "occ": occ, "pm": pm, "filled": filled.len(), "untracked": filled.len() - filled_tracked.len()}).to_string(),
            ),
            SessEv::Ev(t) => {
                totals[0] += 1;
                if t.op == 1 {
                    totals[4] += 1;
                    filled.insert(t.slot);
                    if tracked.contains(&t.slot) {
                        filled_tracked.insert(t.slot);
                    }
                }
                if t.op == 2 {
                    p.lines.push(json!({"op": "newsearch", "gen": t.generation}).to_string());
                    continue;
                }
                if !tracked.contains(&t.slot) {
                    continue;
                }
                totals[1] += 1;
                let n = p.ids.len() + 1;
                let id = *p.ids.entry((t.key, t.slots)).or_insert(n);
                if id == n {
                    p.pool.push((t.slot, t.slots));
                }
                let mv = t.mv.map_or(-1, proj::pack_move);
                let d = json!([t.v[0], t.v[1], t.v[2], t.v[3], mv]);
                if t.op == 0 {
                    p.lines.push(json!({"op": "probe", "k": id, "s": t.slot, "n": t.slots, "hit": t.some, "r": d, "gen": t.generation}).to_string());
                } else {
                    p.lines.push(json!({"op": "insert", "k": id, "s": t.slot, "n": t.slots, "d": d, "gen": t.generation}).to_string());
                }
            }
        }
    }
    totals[3] = p.ids.len() as u64;
}

pub fn main(rest: &[String]) -> i32 {
    let f = std::io::BufReader::new(std::fs::File::open(&rest[0]).unwrap());
    let mut out = std::io::BufWriter::new(std::fs::File::create(&rest[1]).unwrap());
    let mut tout = rest.get(2).map(|p| std::io::BufWriter::new(std::fs::File::create(p).unwrap()));
    let max_slots: usize = rest.get(3).and_then(|x| x.parse().ok()).unwrap_or(150);
    let mut ttotals = [0u64; 5];
    let mut counted_inserts = 0u64;
    let mut pool = Pool { ids: std::collections::HashMap::new(), pool: Vec::new(), lines: Vec::new() };
    let mut sid = 0u64;
    let mut total = 0u64;
    let mut skipped = 0u64;
    for line in f.lines() {
        let line = line.unwrap();
        if line.trim().is_empty() {
            continue;
        }
        let job: Value = serde_json::from_str(&line).unwrap();
        let hash = job["hash"].as_u64().unwrap_or(1) as usize;
        let tag = job["tag"].as_str().unwrap_or("").to_string();
        let mut options = EngineOptions::default();
        options.hash_size = hash;
        let mut ps = PersistentState::new(hash);
        let mut sess: Vec<SessEv> = vec![SessEv::New(ps.tt.verif_slots())];
        let _ = verif::take_table();
        for s in job["searches"].as_array().unwrap() {
            let base = proj::game_from_fields(&s["pos"]);
            let mut game = base.clone();
            let mut pre: Vec<i64> = Vec::new();
            if let Some(ms) = s["uci"].as_array() {
                for m in ms {
                    let text = m.as_str().unwrap();
                    let mv = game.moves().iter().copied().find(|x| format!("{x:?}") == text).expect("job move not legal");
                    game.make_move(mv);
                    pre.push(proj::pack_move(mv));
                }
            }
            if let Some(ms) = s["moves"].as_array() {
                for m in ms {
                    let mv = proj::find_move(&game, m.as_i64().unwrap()).expect("job move not legal");
                    game.make_move(mv);
                    pre.push(m.as_i64().unwrap());
                }
            }
            if s["newgame"].as_bool().unwrap_or(false) {
                ps.reset();
                sess.push(SessEv::Reset);
            }
            if let Some(mb) = s["resize"].as_u64() {
                // what the `setoption name Hash` handler does
                let r = std::panic::catch_unwind(std::panic::AssertUnwindSafe(|| ps.tt.resize(mb as usize)));
                if r.is_err() {
                    sess.push(SessEv::Panic("resize", crate::LAST_PANIC.lock().unwrap().replace('\n', " ")));
                    break;
                }
                options.hash_size = mb as usize;
                sess.push(SessEv::Resize(ps.tt.verif_slots()));
            }
            let mut depth = s["depth"].as_u64().map(|d| d as u8);
            let mut stopk = s["stopk"].as_i64().unwrap_or(0);
            if stopk < 0 {
                // automatic: the smallest depth whose search (on fresh tables) reaches a poll inside the tree, and the
                // |stopk|-th poll from the end of that search; the recorded run starts from fresh tables as well
                let mut d = 1u8;
                let polls = loop {
                    let mut fresh = PersistentState::new(hash);
                    verif::set_stop_at_poll(0);
                    let mut quiet = Collect { infos: Vec::new() };
                    let (mut ts, _control) = TimeStrategy::new(&game, &TimeControl::Infinite, &options);
                    let restr = SearchRestrictions { depth: Some(d) };
                    let _ = search::search(&game, &mut fresh, &mut ts, &restr, &options, &mut quiet);
                    let (_, max_nodes) = verif::nodes_observed();
                    if max_nodes >= 10000 || d >= 14 {
                        break verif::polls() as i64;
                    }
                    d += 1;
                };
                depth = Some(d);
                stopk = (polls + stopk + 1).max(1);
                ps = PersistentState::new(hash);
                sess.push(SessEv::New(ps.tt.verif_slots()));
            }
            let record = s["record"].as_bool().unwrap_or(false);
            let mut rep = Collect { infos: Vec::new() };
            verif::set_stop_at_poll(stopk);
            let _ = verif::take_nodes();
            verif::record_nodes(record);
            let _ = verif::take_table();
            let _ = verif::take_table_inserts();
            verif::record_table(tout.is_some());
            let res = std::panic::catch_unwind(std::panic::AssertUnwindSafe(|| {
                let (mut ts, _control) = TimeStrategy::new(&game, &TimeControl::Infinite, &options);
                let restr = SearchRestrictions { depth };
                search::search(&game, &mut ps, &mut ts, &restr, &options, &mut rep)
            }));
            verif::record_nodes(false);
            verif::record_table(false);
            counted_inserts += verif::take_table_inserts();
            sess.extend(verif::take_table().into_iter().map(SessEv::Ev));
            if res.is_err() && tout.is_some() {
                sess.push(SessEv::Panic("search", crate::LAST_PANIC.lock().unwrap().replace('\n', " ")));
                break;
            }
            sess.push(SessEv::Fill(ps.tt.occupied, ps.tt.occupancy()));
            let polls = verif::polls();
            verif::set_stop_at_poll(0);
            let events = verif::take_nodes();
            if !record {
                continue;
            }
            let budget = s["budget"].as_u64().unwrap_or(60000) as usize;
            if events.len() > budget {
                skipped += 1;
                continue;
            }
            sid += 1;
            let mut root: Map<String, Value> = proj::position(&base);
            root.insert("e".into(), json!("root"));
            root.insert("sid".into(), json!(sid));
            root.insert("tag".into(), json!(tag));
            root.insert("fen".into(), json!(game.to_fen()));
            root.insert("pre".into(), json!(pre));
            root.insert("depth".into(), json!(depth.unwrap_or(0)));
            root.insert("stopk".into(), json!(stopk));
            root.insert("hash".into(), json!(hash));
            writeln!(out, "{}", Value::Object(root)).unwrap();
            for ev in &events {
                let ms: Vec<i64> = ev.moves.iter().map(|m| proj::pack_move(*m)).collect();
                writeln!(out, "{}", json!({"e": ev.kind, "p": ev.ply, "v": ev.v, "m": ms})).unwrap();
            }
            total += events.len() as u64;
            let (o, best, msg) = match res {
                Ok(mv) => ("move", proj::pack_move(mv), String::new()),
                Err(_) => ("panic", -1, crate::LAST_PANIC.lock().unwrap().replace('\n', " ")),
            };
            writeln!(out, "{}", json!({"e": "end", "out": o, "best": best, "msg": msg, "polls": polls,
                                       "infos": rep.infos, "n": events.len()})).unwrap();
        }
        if tout.is_some() {
            write_session(&mut pool, &sess, max_slots, &mut ttotals);
        }
    }
    out.flush().unwrap();
    let recorded_inserts = ttotals[4];
    if let Some(t) = tout.as_mut() {
        let slots: Vec<usize> = pool.pool.iter().map(|x| x.0).collect();
        let ns: Vec<usize> = pool.pool.iter().map(|x| x.1).collect();
        // `complete`: the insert events recorded at the search's call sites are all the inserts the tables saw
        writeln!(t, "{}", json!({"op": "pool", "slot": slots, "n": ns, "complete": counted_inserts == recorded_inserts,
                                 "counted": counted_inserts, "recorded": recorded_inserts})).unwrap();
        for l in &pool.lines {
            writeln!(t, "{l}").unwrap();
        }
        t.flush().unwrap();
    }
    println!("{}", json!({"searches": sid, "events": total, "over_budget": skipped,
                          "table": {"operations": ttotals[0], "written": ttotals[1], "collision_slots": ttotals[2], "keys": ttotals[3],
                                    "inserts_recorded": ttotals[4], "inserts_counted": counted_inserts}}));
    0
}
