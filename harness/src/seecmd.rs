//! `see <positions.ndjson> <events-out>`: verdict of see(game, mv, 0) for every non-en-passant
//! capture of the engine's move list, for the position and for its colour mirror.
use crate::chess::game::Game;
use crate::engine::eval::Eval;
use crate::engine::see::see;
use crate::proj;
use serde_json::{json, Value};
use std::collections::HashSet;
use std::io::{BufRead, Write};

fn mirror_fields(v: &serde_json::Map<String, Value>) -> Value {
    let b: Vec<i64> = v["b"].as_array().unwrap().iter().map(|x| x.as_i64().unwrap()).collect();
    let mut mb = vec![0i64; 64];
    for s in 0..64 {
        let ms = (7 - s / 8) * 8 + s % 8;
        let p = b[ms];
        mb[s] = if p == 0 { 0 } else if p <= 6 { p + 6 } else { p - 6 };
    }
    let cr = v["cr"].as_i64().unwrap();
    let mcr = ((cr & 3) << 2) | ((cr >> 2) & 3);
    let ep = v["ep"].as_i64().unwrap();
    let mep = if ep < 0 { -1 } else { (7 - ep / 8) * 8 + ep % 8 };
    json!({"b": mb, "stm": 1 - v["stm"].as_i64().unwrap(), "cr": mcr, "ep": mep, "hmc": v["hmc"], "pl": v["pl"]})
}

fn mirror_move(p: i64) -> i64 {
    let f = p % 64;
    let t = (p / 64) % 64;
    let rest = p / 4096;
    let ms = |s: i64| (7 - s / 8) * 8 + s % 8;
    ms(f) + 64 * ms(t) + 4096 * rest
}

fn verdict(g: &Game, packed: i64) -> &'static str {
    let r = crate::unwind_safe(|| {
        let m = proj::find_move(g, packed).expect("capture not in move list");
        see(g, m, Eval(0))
    });
    match r {
        Ok(true) => "t",
        Ok(false) => "f",
        Err(_) => "panic",
    }
}

pub fn main(rest: &[String]) -> i32 {
    let f = std::io::BufReader::new(std::fs::File::open(&rest[0]).unwrap());
    let mut out = std::io::BufWriter::new(std::fs::File::create(&rest[1]).unwrap());
    let mut seen: HashSet<String> = HashSet::new();
    let (mut npos, mut ncaps, mut nfalse) = (0u64, 0u64, 0u64);
    for line in f.lines() {
        let line = line.unwrap();
        if line.trim().is_empty() {
            continue;
        }
        let r: Value = serde_json::from_str(&line).unwrap();
        let g = proj::game_from_fields(&r);
        let fen = g.to_fen();
        if !seen.insert(fen.clone()) {
            continue;
        }
        let fields = proj::position(&g);
        let mf = mirror_fields(&fields);
        let mg = proj::game_from_fields(&mf);
        let mut caps = Vec::new();
        for m in g.moves().iter() {
            if !m.is_capture() || m.is_en_passant() {
                continue;
            }
            let p = proj::pack_move(*m);
            let a = verdict(&g, p);
            let b = verdict(&mg, mirror_move(p));
            ncaps += 1;
            if a == "f" {
                nfalse += 1;
            }
            caps.push(json!({"mv": p, "see": a, "msee": b}));
        }
        if caps.is_empty() {
            continue;
        }
        npos += 1;
        let mut ev = fields;
        ev.insert("fen".into(), json!(fen));
        ev.insert("mb".into(), mf["b"].clone());
        ev.insert("mstm".into(), mf["stm"].clone());
        ev.insert("caps".into(), json!(caps));
        writeln!(out, "{}", Value::Object(ev)).unwrap();
    }
    out.flush().unwrap();
    println!("{}", json!({"positions": npos, "captures": ncaps, "losing": nfalse}));
    0
}
