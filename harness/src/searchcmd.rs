//! `search <jobs.ndjson> <events-out>`: runs sessions of searches on one PersistentState each and
//! records, per search, what a GUI could observe (info lines, best move) plus hook observations
//! (number of stop-flag loads, whether the caller's game was left untouched).
//!
//! Job line: {"hash": MB, "tag": "...", "searches": [ {"pos": {b,stm,cr,ep,hmc,pl}, "moves": [packed...],
//!   "depth": d|null, "movetime": ms|null, "wtime": ms|null, "btime":..., "winc":..., "binc":..., "mtg": n|null,
//!   "stopk": k, "newgame": bool} ]}
use crate::chess::game::Game;
use crate::chess::moves::Move;
use crate::engine::options::EngineOptions;
use crate::engine::search::time_control::TimeStrategy;
use crate::engine::search::{self, Clocks, PersistentState, Reporter, SearchInfo, SearchRestrictions, SearchScore, TimeControl};
use crate::engine::util::verif;
use crate::proj;
use serde_json::{json, Map, Value};
use std::io::{BufRead, Write};
use std::time::{Duration, Instant};

struct Collect {
    infos: Vec<Value>,
}

impl Reporter for Collect {
    fn generic_report(&self, _: &str) {}

    fn report_search_progress(&mut self, _: &Game, p: SearchInfo) {
        let (sk, sv) = match p.score {
            SearchScore::Centipawns(c) => ("cp", c),
            SearchScore::Mate(m) => ("mate", m),
        };
        let pv: Vec<String> = p.pv.clone().into_iter().map(|m| format!("{m:?}")).collect();
        self.infos.push(json!({"d": p.depth, "sd": p.seldepth, "sk": sk, "sv": sv, "pv": pv,
            "nodes": p.stats.nodes, "hashfull": p.hashfull}));
    }

    fn best_move(&self, _: &Game, _: Move) {}
}

fn dur(v: &Value) -> Option<Duration> {
    v.as_u64().map(Duration::from_millis)
}

pub fn main(rest: &[String]) -> i32 {
    let f = std::io::BufReader::new(std::fs::File::open(&rest[0]).unwrap());
    let mut out = std::io::BufWriter::new(std::fs::File::create(&rest[1]).unwrap());
    // Watchdog: a search that does not come back within VERIF_SEARCH_WATCHDOG_S seconds is data ("out":"timeout"),
    // written by the watchdog thread, which then ends the process (the searches after it are not run).
    let limit = std::env::var("VERIF_SEARCH_WATCHDOG_S").ok().and_then(|v| v.parse::<u64>().ok()).unwrap_or(0);
    let current: std::sync::Arc<std::sync::Mutex<Option<(Instant, String)>>> = std::sync::Arc::new(std::sync::Mutex::new(None));
    if limit > 0 {
        let current = current.clone();
        let path = rest[1].clone();
        std::thread::spawn(move || loop {
            std::thread::sleep(Duration::from_millis(500));
            let g = current.lock().unwrap();
            if let Some((t0, ev)) = g.as_ref() {
                if t0.elapsed() > Duration::from_secs(limit) {
                    // the main thread holds the buffered writer; events already written are flushed after every search
                    let mut f = std::fs::OpenOptions::new().append(true).open(&path).unwrap();
                    writeln!(f, "{ev}").unwrap();
                    std::process::exit(0);
                }
            }
        });
    }
    for (si, line) in f.lines().enumerate() {
        let line = line.unwrap();
        if line.trim().is_empty() {
            continue;
        }
        let job: Value = serde_json::from_str(&line).unwrap();
        let hash = job["hash"].as_u64().unwrap_or(1) as usize;
        let tag = job["tag"].as_str().unwrap_or("").to_string();
        let mut options = EngineOptions::default();
        options.hash_size = hash;
        if let Some(o) = job["overhead"].as_u64() {
            options.move_overhead = o as usize;
        }
        let mut ps = match crate::unwind_safe(|| PersistentState::new(hash)) {
            Ok(p) => p,
            Err(_) => {
                writeln!(out, "{}", json!({"session": si, "tag": tag, "out": "panic", "msg": "PersistentState::new"})).unwrap();
                continue;
            }
        };
        // `"follow": true` continues the game: the root is the previous root with the previous best move played
        let mut last: Option<(Game, Option<Move>)> = None;
        for (qi, s) in job["searches"].as_array().unwrap().iter().enumerate() {
            let mut game = if s["follow"].as_bool().unwrap_or(false) {
                match last.take() {
                    Some((mut g, Some(mv))) => {
                        if !g.moves().iter().any(|m| *m == mv) {
                            break; // an illegal best move is reported by the validation of the previous event
                        }
                        g.make_move(mv);
                        if g.moves().is_empty() {
                            break;
                        }
                        g
                    }
                    _ => break,
                }
            } else {
                proj::game_from_fields(&s["pos"])
            };
            if let Some(ms) = s["moves"].as_array() {
                for m in ms {
                    let mv = proj::find_move(&game, m.as_i64().unwrap()).expect("job move not legal");
                    game.make_move(mv);
                }
            }
            if s["newgame"].as_bool().unwrap_or(false) {
                ps.reset();
            }
            let depth = s["depth"].as_u64().map(|d| d as u8);
            let mut tc = TimeControl::Infinite;
            if let Some(mt) = dur(&s["movetime"]) {
                tc = TimeControl::ExactTime(mt);
            }
            if !s["wtime"].is_null() || !s["btime"].is_null() {
                tc = TimeControl::Clocks(Clocks {
                    white_clock: dur(&s["wtime"]),
                    black_clock: dur(&s["btime"]),
                    white_increment: dur(&s["winc"]),
                    black_increment: dur(&s["binc"]),
                    moves_to_go: s["mtg"].as_u64().map(|x| x as u32),
                });
            }
            {
                let mut ev: Map<String, Value> = proj::position(&game);
                for (k, v) in [("fen", json!(game.to_fen())), ("session", json!(si)), ("idx", json!(qi)), ("tag", json!(tag.clone())),
                               ("hash", json!(hash)), ("lim", json!(depth.unwrap_or(0))), ("stopk", json!(0)), ("polls", json!(0)),
                               ("nodes_at_stop", json!(0)), ("max_nodes", json!(0)), ("ms", json!(0)), ("infos", json!([])), ("gen", json!(0)),
                               ("untouched", json!(true)), ("out", json!("timeout")), ("best", json!("")),
                               ("msg", json!(format!("no result after {limit} s")))] {
                    ev.insert(k.into(), v);
                }
                *current.lock().unwrap() = Some((Instant::now(), Value::Object(ev).to_string()));
            }
            let before = proj::full(&game);
            let hist_before = game.history.len();
            let stopk = s["stopk"].as_i64().unwrap_or(0);
            let mut rep = Collect { infos: Vec::new() };
            let started = Instant::now();
            verif::set_stop_at_poll(stopk);
            let res = std::panic::catch_unwind(std::panic::AssertUnwindSafe(|| {
                let (mut ts, _control) = TimeStrategy::new(&game, &tc, &options);
                let restr = SearchRestrictions { depth };
                search::search(&game, &mut ps, &mut ts, &restr, &options, &mut rep)
            }));
            let polls = verif::polls();
            let (nodes_at_stop, max_nodes) = verif::nodes_observed();
            verif::set_stop_at_poll(0);
            let elapsed = started.elapsed();
            let mut ev: Map<String, Value> = proj::position(&game);
            ev.insert("fen".into(), json!(game.to_fen()));
            ev.insert("session".into(), json!(si));
            ev.insert("idx".into(), json!(qi));
            ev.insert("tag".into(), json!(tag));
            ev.insert("hash".into(), json!(hash));
            ev.insert("lim".into(), json!(depth.unwrap_or(0)));
            ev.insert("stopk".into(), json!(stopk));
            ev.insert("polls".into(), json!(polls));
            ev.insert("nodes_at_stop".into(), json!(nodes_at_stop));
            ev.insert("max_nodes".into(), json!(max_nodes));
            ev.insert("ms".into(), json!(elapsed.as_millis() as u64));
            ev.insert("infos".into(), json!(rep.infos));
            ev.insert("gen".into(), json!(ps.tt.generation));
            let after = proj::full(&game);
            ev.insert("untouched".into(), json!(before == after && hist_before == game.history.len()));
            last = Some((game.clone(), res.as_ref().ok().copied()));
            match res {
                Ok(mv) => {
                    ev.insert("out".into(), json!("move"));
                    ev.insert("best".into(), json!(format!("{mv:?}")));
                    ev.insert("msg".into(), json!(""));
                }
                Err(_) => {
                    let msg = crate::LAST_PANIC.lock().unwrap().replace('\n', " ");
                    ev.insert("out".into(), json!("panic"));
                    ev.insert("best".into(), json!(""));
                    ev.insert("msg".into(), json!(msg));
                }
            }
            *current.lock().unwrap() = None;
            writeln!(out, "{}", Value::Object(ev)).unwrap();
            out.flush().unwrap();
        }
    }
    0
}
