//! C14 time allocation.
//!
//! `time tuples <grid.ndjson|-> <n_random> <seed> <events-out>`
//!     Every line of the grid file is a clock situation as a GUI would send it
//!     (`{"rem","inc","orem","oinc","mtg","mt","ovh","stm","has":[own clock, own increment,
//!     movestogo, movetime, other clock, other increment]}`, milliseconds, own = side to move);
//!     `n_random` further situations are drawn from a seeded generator.  For each one the harness
//!     writes the UCI text (`setoption name Move Overhead value ..`, `go wtime .. btime ..`), has
//!     the REAL parser read it, builds `Clocks`/`TimeControl` with the same statements as
//!     `Uci::execute` (which is private), builds a `Game` with the requested side to move, calls
//!     the real `TimeStrategy::new` and logs what was sent, what the parser made of it, and the
//!     limits read through the `verif_limits` accessor.  A panic is data (`"out":"panic"`).
//!
//!     TLC integers are 32 bit, so durations are logged as two limbs `[whole ms, ns within the ms]`
//!     and every event carries `rng`: 2 = all inputs small enough for the CodeView arithmetic,
//!     1 = PropertyView only, 0 = not representable (numeric fields are -1; crash-freedom only;
//!     such situations are generated with overhead 0 and without movestogo so that they lie in
//!     the property's domain by construction).
//!
//! `time pollgap <fens.txt> "<go line>" <n_searches> <events-out>`
//!     Runs real searches under the given `go` line (clock limits of at most 2 s, so that
//!     nanosecond times fit 31 bits) while a monitor thread watches the H1 poll
//!     counter (`verif::polls()`, one count per load of the stop flag, i.e. per in-iteration poll
//!     and per iteration boundary) and records the time of every change: `{ev:"poll",run,k,t}`
//!     (t in ns since `TimeStrategy::new`), then `{ev:"ret",run,t,soft,hard,polls}`.
use crate::chess::game::Game;
use crate::engine::options::EngineOptions;
use crate::engine::search::time_control::TimeStrategy;
use crate::engine::search::{self, Clocks, NullReporter, PersistentState, SearchRestrictions, TimeControl};
use crate::engine::uci::commands::{GoCmdArguments, UciCommand};
use crate::engine::uci::parser;
use crate::engine::util::verif;
use serde_json::{json, Map, Value};
use std::io::{BufRead, Write};
use std::sync::atomic::{AtomicBool, Ordering};
use std::sync::Arc;
use std::time::{Duration, Instant};

const START_W: &str = "rnbqkbnr/pppppppp/8/8/8/8/PPPPPPPP/RNBQKBNR w KQkq - 0 1";
const START_B: &str = "rnbqkbnr/pppppppp/8/8/8/8/PPPPPPPP/RNBQKBNR b KQkq - 0 1";

/// Largest values the specification's arithmetic takes (see TimeAlloc.tla, "Ranges").
const CV_MAX_MS: i128 = 100_000_000;
const CV_MAX_MTG: i128 = 10_000;
const PV_MAX_MS: i128 = 2_000_000_000;

#[derive(Clone, Debug, Default)]
struct Sit {
    wt: Option<i64>,
    bt: Option<i64>,
    wi: Option<i64>,
    bi: Option<i64>,
    mtg: Option<u32>,
    mt: Option<i64>,
    ovh: u64,
    black: bool,
    src: &'static str,
}

impl Sit {
    /// Grid lines are in the model's vocabulary: `rem/inc` for the side to move, `orem/oinc` for
    /// the other side, `has = [own clock, own inc, movestogo, movetime, other clock, other inc]`.
    fn from_json(v: &Value) -> Sit {
        let has: Vec<bool> = v["has"].as_array().unwrap().iter().map(|x| x.as_i64() == Some(1)).collect();
        let f = |k: &str, on: bool| if on { Some(v[k].as_i64().unwrap()) } else { None };
        let black = v["stm"].as_str() == Some("b");
        let (own, oinc_own) = (f("rem", has[0]), f("inc", has[1]));
        let (other, oinc_other) = (f("orem", has[4]), f("oinc", has[5]));
        let (wt, bt, wi, bi) = if black { (other, own, oinc_other, oinc_own) } else { (own, other, oinc_own, oinc_other) };
        Sit {
            wt, bt, wi, bi,
            mtg: f("mtg", has[2]).map(|x| x as u32),
            mt: f("mt", has[3]),
            ovh: v["ovh"].as_u64().unwrap_or(0),
            black,
            src: "grid",
        }
    }

    fn go_line(&self) -> String {
        let mut s = String::from("go");
        let mut put = |k: &str, v: Option<String>| {
            if let Some(v) = v {
                s.push(' ');
                s.push_str(k);
                s.push(' ');
                s.push_str(&v);
            }
        };
        put("wtime", self.wt.map(|x| x.to_string()));
        put("btime", self.bt.map(|x| x.to_string()));
        put("winc", self.wi.map(|x| x.to_string()));
        put("binc", self.bi.map(|x| x.to_string()));
        put("movestogo", self.mtg.map(|x| x.to_string()));
        put("movetime", self.mt.map(|x| x.to_string()));
        s
    }
}

// ------------------------------------------------------------------ seeded generator
struct Rng(u64);
impl Rng {
    fn next(&mut self) -> u64 {
        self.0 = self.0.wrapping_add(0x9E37_79B9_7F4A_7C15);
        let mut z = self.0;
        z = (z ^ (z >> 30)).wrapping_mul(0xBF58_476D_1CE4_E5B9);
        z = (z ^ (z >> 27)).wrapping_mul(0x94D0_49BB_1331_11EB);
        z ^ (z >> 31)
    }
    fn below(&mut self, n: u64) -> u64 {
        if n == 0 { 0 } else { self.next() % n }
    }
    fn unit(&mut self) -> f64 {
        (self.next() >> 11) as f64 / (1u64 << 53) as f64
    }
    /// log-uniform integer in 0..=max (0 and 1 included)
    fn logu(&mut self, max: f64) -> i64 {
        let x = (self.unit() * (max + 1.0).ln()).exp() - 1.0;
        x.round().max(0.0) as i64
    }
    fn pick<T: Copy>(&mut self, xs: &[T]) -> T {
        xs[self.below(xs.len() as u64) as usize]
    }
}

const SPECIAL_REM: [i64; 14] = [0, 1, 2, 3, 149, 150, 151, 199, 200, 201, 999, 1000, 1001, 10_000_000];

fn random_sit(r: &mut Rng) -> Sit {
    let mut s = Sit { src: "rand", ..Sit::default() };
    s.black = r.below(2) == 1;
    let clock = |r: &mut Rng| -> i64 {
        match r.below(20) {
            0 | 1 => r.pick(&SPECIAL_REM),
            2 => -r.logu(1e4),
            _ => r.logu(1e7),
        }
    };
    let own = if r.below(20) == 0 { None } else { Some(clock(r)) };
    let other = if r.below(8) == 0 { None } else { Some(clock(r)) };
    let inc = |r: &mut Rng| -> Option<i64> {
        match r.below(10) {
            0..=2 => None,
            3 | 4 => Some(0),
            5..=7 => Some(r.logu(3e4)),
            8 => Some(r.logu(1e7)),
            _ => Some(r.pick(&[1i64, 50, 100, 1000, 2000, 5000, 10_000, -5])),
        }
    };
    let (oi, ti) = (inc(r), inc(r));
    if s.black {
        s.bt = own; s.wt = other; s.bi = oi; s.wi = ti;
    } else {
        s.wt = own; s.bt = other; s.wi = oi; s.bi = ti;
    }
    s.mtg = match r.below(20) {
        0..=8 => None,
        9..=14 => Some(1 + r.below(40) as u32),
        15..=17 => Some(1 + r.below(100) as u32),
        18 => Some(1 + r.logu(1e4) as u32),
        _ => Some(r.pick(&[1u32, 2, 100, 101, 1000, 10_000])),
    };
    let rem = own.unwrap_or(0).max(0) as u64;
    s.ovh = match r.below(10) {
        0..=3 => 0,
        4..=7 => r.below((rem / 2).min(1000) + 1),          // inside the property's domain
        8 => (rem / 2).min(1000),                           // on its edge
        _ => rem / 2 + 1 + r.below(1000),                   // outside: crash-freedom only
    };
    if r.below(25) == 0 {
        s.mt = Some(r.logu(1e6));
        if r.below(2) == 0 {
            s.wt = None; s.bt = None;
        }
    }
    if s.wt.is_none() && s.bt.is_none() && s.mt.is_none() && r.below(2) == 0 {
        s.mt = Some(r.logu(1e5));
    }
    s
}

// ------------------------------------------------------------------ one situation
fn limbs(d: Duration) -> Value {
    let ns = d.as_nanos();
    let ms = ns / 1_000_000;
    if ms > PV_MAX_MS as u128 {
        json!([-1, -1])
    } else {
        json!([ms as i64, (ns % 1_000_000) as i64])
    }
}

fn ms_of(d: Option<Duration>) -> i128 {
    d.map_or(-1, |x| x.as_millis() as i128)
}

/// The statements of `Uci::execute` for `go`, verbatim apart from `self.`.
fn time_control_of(args: &GoCmdArguments) -> TimeControl {
    let GoCmdArguments { wtime, btime, winc, binc, movestogo, movetime, .. } = args;
    let clocks = Clocks {
        white_clock: *wtime,
        black_clock: *btime,
        white_increment: *winc,
        black_increment: *binc,
        moves_to_go: *movestogo,
    };

    let mut time_control = TimeControl::Infinite;

    if let Some(move_time) = movetime {
        time_control = TimeControl::ExactTime(*move_time);
    }

    if wtime.is_some() || btime.is_some() {
        time_control = TimeControl::Clocks(clocks);
    }
    time_control
}

fn options_with_overhead(ovh: u64) -> Result<(EngineOptions, String), String> {
    let line = format!("setoption name Move Overhead value {ovh}");
    let mut options = EngineOptions::default();
    match parser::parse(&line)? {
        UciCommand::SetOption { name, value } if name == "Move Overhead" => {
            // MoveOverheadOption::set (module `uci::options` is private)
            options.move_overhead = value.parse::<usize>().map_err(|_| "Invalid value".to_string())?;
        }
        other => return Err(format!("setoption parsed as {other:?}")),
    }
    Ok((options, line))
}

fn run_sit(i: u64, s: &Sit) -> Value {
    let go = s.go_line();
    let mut m = Map::new();
    m.insert("ev".into(), json!("lim"));
    m.insert("i".into(), json!(i));
    m.insert("src".into(), json!(s.src));
    m.insert("go".into(), json!(go));
    m.insert("side".into(), json!(if s.black { "b" } else { "w" }));

    // what the GUI sent for the side to move (-1 = not sent); negative numbers are sent as such
    let (own, inc) = if s.black { (s.bt, s.bi) } else { (s.wt, s.wi) };
    let (other, other_inc) = if s.black { (s.wt, s.wi) } else { (s.bt, s.bi) };
    let sent: [(&str, Option<i128>); 5] = [
        ("rem", own.map(i128::from)),
        ("inc", inc.map(i128::from)),
        ("mtg", s.mtg.map(i128::from)),
        ("mt", s.mt.map(i128::from)),
        ("ovh", Some(i128::from(s.ovh))),
    ];
    let big = |x: Option<i128>, lim: i128| x.map_or(false, |v| v.abs() > lim);
    let rng = if sent.iter().any(|(_, v)| big(*v, PV_MAX_MS)) || big(other.map(i128::from), PV_MAX_MS) {
        0
    } else if big(sent[0].1, CV_MAX_MS) || big(sent[1].1, CV_MAX_MS) || big(sent[2].1, CV_MAX_MTG)
        || big(sent[3].1, CV_MAX_MS) || big(sent[4].1, CV_MAX_MS)
    {
        1
    } else {
        2
    };
    m.insert("rng".into(), json!(rng));
    m.insert("has".into(), json!([own.is_some() as i64, inc.is_some() as i64, s.mtg.is_some() as i64,
                                  s.mt.is_some() as i64, other.is_some() as i64, other_inc.is_some() as i64]));
    for (k, v) in sent {
        m.insert(k.into(), json!(if rng == 0 { -1 } else { v.unwrap_or(-1) as i64 }));
    }

    let res = crate::unwind_safe(|| -> Result<(Value, Value, Value, &'static str), String> {
        let (options, _setline) = options_with_overhead(s.ovh)?;
        let args = match parser::parse(&go)? {
            UciCommand::Go(a) => a,
            other => return Err(format!("go parsed as {other:?}")),
        };
        let game = Game::from_fen(if s.black { START_B } else { START_W })?;
        let tc = time_control_of(&args);
        let kind = match tc {
            TimeControl::Clocks(_) => "clocks",
            TimeControl::ExactTime(_) => "exact",
            TimeControl::Infinite => "infinite",
        };
        // what the parser made of the text, for the side to move
        let (p_own, p_inc) = if s.black { (args.btime, args.binc) } else { (args.wtime, args.winc) };
        let parsed = [ms_of(p_own), ms_of(p_inc), args.movestogo.map_or(-1, i128::from), ms_of(args.movetime),
                      options.move_overhead as i128];
        let parsed: Vec<i64> = parsed.iter().map(|x| if *x > PV_MAX_MS { -2 } else { *x as i64 }).collect();
        let (ts, _control) = TimeStrategy::new(&game, &tc, &options);
        let (soft, hard) = ts.verif_limits();
        Ok((json!(parsed), limbs(soft), limbs(hard), kind))
    });
    let blank = |m: &mut Map<String, Value>| {
        m.insert("parsed".into(), json!([-1, -1, -1, -1, -1]));
        m.insert("soft".into(), json!([0, 0]));
        m.insert("hard".into(), json!([0, 0]));
        m.insert("tc".into(), json!("none"));
    };
    match res {
        Ok(Ok((parsed, soft, hard, kind))) => {
            m.insert("out".into(), json!("ok"));
            m.insert("parsed".into(), parsed);
            m.insert("soft".into(), soft);
            m.insert("hard".into(), hard);
            m.insert("tc".into(), json!(kind));
            m.insert("msg".into(), json!(""));
        }
        Ok(Err(e)) => {
            m.insert("out".into(), json!("rejected"));
            blank(&mut m);
            m.insert("msg".into(), json!(e));
        }
        Err(p) => {
            let msg = p.downcast_ref::<&str>().map(|x| (*x).to_string())
                .or_else(|| p.downcast_ref::<String>().cloned())
                .unwrap_or_default();
            m.insert("out".into(), json!("panic"));
            blank(&mut m);
            m.insert("msg".into(), json!(msg));
        }
    }
    Value::Object(m)
}

fn tuples(rest: &[String]) -> i32 {
    if rest.len() < 4 {
        eprintln!("usage: time tuples <grid.ndjson|-> <n_random> <seed> <events-out>");
        return 2;
    }
    let n_random: u64 = rest[1].parse().unwrap();
    let seed: u64 = rest[2].parse().unwrap();
    let mut out = std::io::BufWriter::new(std::fs::File::create(&rest[3]).unwrap());
    let (mut n, mut panics, mut grid) = (0u64, 0u64, 0u64);
    let mut emit = |s: &Sit, n: &mut u64, panics: &mut u64| {
        *n += 1;
        let ev = run_sit(*n, s);
        if ev["out"] == "panic" {
            *panics += 1;
        }
        writeln!(out, "{ev}").unwrap();
    };
    if rest[0] != "-" {
        let f = std::io::BufReader::new(std::fs::File::open(&rest[0]).unwrap());
        for line in f.lines() {
            let line = line.unwrap();
            if line.trim().is_empty() {
                continue;
            }
            let v: Value = serde_json::from_str(&line).unwrap();
            emit(&Sit::from_json(&v), &mut n, &mut panics);
            grid += 1;
        }
    }
    let mut r = Rng(seed ^ 0xC14C_14C1_4C14_C14C);
    for _ in 0..n_random {
        emit(&random_sit(&mut r), &mut n, &mut panics);
    }
    drop(emit);
    out.flush().unwrap();
    println!("{}", json!({"events": n, "grid": grid, "random": n_random, "panics": panics}));
    0
}

// ------------------------------------------------------------------ poll gaps
fn pollgap(rest: &[String]) -> i32 {
    if rest.len() < 4 {
        eprintln!("usage: time pollgap <fens.txt> \"<go line>\" <n_searches> <events-out>");
        return 2;
    }
    let fens: Vec<String> = std::fs::read_to_string(&rest[0]).unwrap().lines()
        .map(|l| l.trim().to_string()).filter(|l| !l.is_empty()).collect();
    let go = rest[1].clone();
    let n: usize = rest[2].parse().unwrap();
    let mut out = std::io::BufWriter::new(std::fs::File::create(&rest[3]).unwrap());
    let mut state = PersistentState::new(16);
    let (mut runs, mut polls_total) = (0u64, 0u64);
    for (run, fen) in fens.iter().cycle().take(n).enumerate() {
        let Ok(game) = Game::from_fen(fen) else { continue };
        if game.moves().is_empty() {
            continue;
        }
        let Ok(UciCommand::Go(args)) = parser::parse(&go) else { return 2 };
        let tc = time_control_of(&args);
        let options = EngineOptions::default();
        state.reset();
        verif::set_stop_at_poll(0);
        let done = Arc::new(AtomicBool::new(false));
        let origin = Instant::now();
        let (mut ts, _control) = TimeStrategy::new(&game, &tc, &options);
        let (soft, hard) = ts.verif_limits();
        let mon = {
            let done = done.clone();
            std::thread::spawn(move || {
                let mut seen = 0u64;
                let mut log: Vec<(u64, u64)> = Vec::new();
                loop {
                    let k = verif::polls();
                    if k != seen {
                        seen = k;
                        log.push((k, origin.elapsed().as_nanos() as u64));
                    }
                    if done.load(Ordering::Acquire) {
                        break;
                    }
                    std::hint::spin_loop();
                }
                log
            })
        };
        let res = std::panic::catch_unwind(std::panic::AssertUnwindSafe(|| {
            search::search(&game, &mut state, &mut ts, &SearchRestrictions { depth: None }, &options,
                           &mut NullReporter)
        }));
        let t_ret = origin.elapsed().as_nanos() as u64;
        done.store(true, Ordering::Release);
        let log = mon.join().unwrap();
        for (k, t) in &log {
            // a poll noticed by the monitor after the search came back happened before it came back
            writeln!(out, "{}", json!({"ev": "poll", "run": run, "k": k, "t": (*t).min(t_ret).min(2_000_000_000)})).unwrap();
        }
        writeln!(out, "{}", json!({"ev": "ret", "run": run, "k": verif::polls(), "t": t_ret.min(2_000_000_000),
            "soft": soft.as_nanos() as u64, "hard": hard.as_nanos() as u64,
            "out": if res.is_ok() { "ok" } else { "panic" }, "fen": fen})).unwrap();
        runs += 1;
        polls_total += log.len() as u64;
        if res.is_err() {
            state = PersistentState::new(16);
        }
    }
    out.flush().unwrap();
    println!("{}", json!({"runs": runs, "polls": polls_total}));
    0
}

pub fn main(rest: &[String]) -> i32 {
    match rest.first().map(String::as_str) {
        Some("tuples") => tuples(&rest[1..]),
        Some("pollgap") => pollgap(&rest[1..]),
        _ => {
            eprintln!("usage: time tuples|pollgap ...");
            2
        }
    }
}
