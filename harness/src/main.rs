//! Conformance harness for the TLA+ specifications in /verif/spec.
//!
//! The engine is a binary-only crate, so its modules are included by path: the
//! harness always compiles the current working tree of the repository that the symlink
//! harness/repo_link points at (/repo; created by setup.sh and by tools/vlib.py, which honour
//! TCHERAN_REPO so that a scratch worktree can be checked without touching /repo).  The harness never
//! judges anything itself: it records what the engine does (ND-JSON events that
//! TLC validates against the specification) and replays what TLC generated,
//! reporting the engine's observable answer next to the specification's.
#![allow(warnings)]

#[path = "../repo_link/src/chess/mod.rs"]
mod chess;
#[path = "../repo_link/src/engine/mod.rs"]
mod engine;

use engine::uci;

pub const ENGINE_NAME: &str = "Tcheran";

pub fn engine_version() -> String {
    "verif-harness".to_string()
}

pub fn init() {
    chess::init();
    engine::init();
}

/// `catch_unwind` for closures over the code under test, whatever its types are (a `Game` that gains interior
/// mutability must not stop the harness from compiling: the state after a caught panic is never used again).
pub fn unwind_safe<R>(f: impl FnOnce() -> R) -> std::thread::Result<R> {
    std::panic::catch_unwind(std::panic::AssertUnwindSafe(f))
}

/// Text (message and location) of the most recent panic caught in the code under test.
pub static LAST_PANIC: std::sync::Mutex<String> = std::sync::Mutex::new(String::new());

mod proj;
mod walk;
mod replay;
mod tablescmd;
mod fencmd;
mod sancmd;
mod seecmd;
mod ttcmd;
mod timecmd;
mod pickercmd;
mod evalcmd;
mod searchcmd;
mod nodescmd;
mod evaltermscmd;
mod keypairs;
mod orderingcmd;

fn main() {
    // Panics inside the code under test are data: keep the default hook quiet and let
    // catch_unwind turn them into events.
    std::panic::set_hook(Box::new(|info| {
        *LAST_PANIC.lock().unwrap() = info.to_string();
        if std::env::var("VERIF_PANIC_VERBOSE").is_ok() {
            eprintln!("panic: {info}");
        }
    }));
    init();

    let args: Vec<String> = std::env::args().collect();
    if args.len() < 2 {
        eprintln!("usage: harness <subcommand> [args]");
        std::process::exit(2);
    }
    let rest = &args[2..];
    let code = match args[1].as_str() {
        "walk" => walk::main(rest),
        "replay-positions" => replay::positions(rest),
        "replay-game" => replay::game(rest),
        "tables" => tablescmd::main(rest),
        "fen" => fencmd::main(rest),
        "san" => sancmd::main(rest),
        "see" => seecmd::main(rest),
        "tt" => ttcmd::main(rest),
        "time" => timecmd::main(rest),
        "picker" => pickercmd::main(rest),
        "eval" => evalcmd::main(rest),
        "search" => searchcmd::main(rest),
        "nodes" => nodescmd::main(rest),
        "evalterms" => evaltermscmd::main(rest),
        "keypairs" => keypairs::main(rest),
        "ordering" => orderingcmd::main(rest),
        other => {
            eprintln!("unknown subcommand {other}");
            2
        }
    };
    std::process::exit(code);
}
